#!/usr/bin/env python3
"""blind evaluation of a round of sub-agent changes: round_eval.py <round dir> <assign.json>
for every <round dir>/out/<wt>/<change>/patch.diff not yet evaluated: run the property's quick check on a scratch copy with
the patch (tools/try_patch.py) and store the first-run verdict in <round dir>/verdicts.json (never overwritten)."""
import json
import os
import re
import sys
from concurrent.futures import ThreadPoolExecutor
VERIF = os.path.dirname(os.path.dirname(os.path.abspath(__file__)))
sys.path.insert(0, os.path.join(VERIF, 'tools'))
from try_patch import run  # noqa: E402
rd, assign = sys.argv[1], json.load(open(sys.argv[2]))
vp = os.path.join(rd, 'verdicts.json')
V = json.load(open(vp)) if os.path.exists(vp) else {}
todo = []
for wt in sorted(os.listdir(os.path.join(rd, 'out'))):
    for ch in sorted(os.listdir(os.path.join(rd, 'out', wt))):
        d = os.path.join(rd, 'out', wt, ch)
        if os.path.exists(os.path.join(d, 'patch.diff')) and os.path.exists(os.path.join(d, 'README.md')) and (wt + '/' + ch) not in V:
            todo.append((wt, ch, d))


def ev(t):
    wt, ch, d = t
    pids = assign[wt] if isinstance(assign[wt], list) else [assign[wt]]
    out = {}
    for pid in pids:
        code, o = run(pid, os.path.join(d, 'patch.diff'))
        out[pid] = {'exit': code, 'rules': sorted(set(re.findall(r'^  (R\d+\w) ', o, re.M))),
                    'first': (re.findall(r'^  (R\d+\w .*)$', o, re.M) or re.findall(r'^(ANALYSIS-BROKEN.*)$', o, re.M) or [o[-300:]])[0][:500]}
    return wt, ch, out


with ThreadPoolExecutor(int(os.environ.get('JOBS', '3'))) as ex:
    for wt, ch, out in ex.map(ev, todo):
        V[wt + '/' + ch] = out
        json.dump(V, open(vp, 'w'), indent=1)
        print(wt, ch, {k: (v['exit'], v['rules']) for k, v in out.items()})
