#!/usr/bin/env python3
"""Regression sweep: run every filed seeded change (seeded/<id>/patch.diff) through the quick check of its property on a scratch copy.
Expected: exit 1 (violation reported) for every change, except those whose meta.json says not_claimed / out of scope (exit 0 expected).
python3 tools/sweep_seeded.py [-j N] [id-substring ...]"""
import json
import os
import re
import sys
from concurrent.futures import ThreadPoolExecutor
VERIF = os.path.dirname(os.path.dirname(os.path.abspath(__file__)))
sys.path.insert(0, os.path.join(VERIF, 'tools'))
from try_patch import run  # noqa: E402
jobs = 4
argv = sys.argv[1:]
if '-j' in argv:
    i = argv.index('-j')
    jobs = int(argv[i + 1])
    del argv[i:i + 2]
ids = sorted(d for d in os.listdir(os.path.join(VERIF, 'seeded')) if os.path.exists(os.path.join(VERIF, 'seeded', d, 'meta.json'))
             and (not argv or any(a in d for a in argv)))


def one(sid):
    m = json.load(open(os.path.join(VERIF, 'seeded', sid, 'meta.json')))
    pids = [p for p, v in m.get('detected_by', {}).items() if v.get('exit') == 1] or [m['property']]
    want = 0 if (m.get('not_claimed') or m.get('out_of_scope') or m.get('still_missed')) else 1
    res = {}
    for pid in pids[:1] if want else [m['property']]:
        code, out = run(pid, os.path.join(VERIF, 'seeded', sid, 'patch.diff'))
        res[pid] = (code, sorted(set(re.findall(r'^  (R\d+\w) ', out, re.M))))
    ok = all(c == want for c, _ in res.values())
    return sid, ok, want, res


bad = 0
with ThreadPoolExecutor(jobs) as ex:
    for sid, ok, want, res in ex.map(one, ids):
        print('%s %-60s want=%d %s' % ('ok  ' if ok else 'FAIL', sid, want, res), flush=True)
        bad += 0 if ok else 1
print('%d seeded changes, %d not as expected' % (len(ids), bad))
sys.exit(1 if bad else 0)
