#!/usr/bin/env python3
"""MANIFEST.setup_cmd: build the extractor from files on disk (offline)."""
import os
import sys
VERIF = os.path.dirname(os.path.dirname(os.path.abspath(__file__)))
sys.path.insert(0, VERIF)
from engine import facts
facts.build_extractor()
facts.config_dir()
print('omplx built:', os.path.exists(facts.OMPLX))
