#!/bin/bash
# confirm_mut.sh <worktree> <mutation dir> : independently confirm a seeded change:
#   applies patch, rebuilds, runs the full ctest suite, runs the demo (must FAIL), reverts, rebuilds, demo must PASS.
WT=$1; M=$2; LOG=$M/confirm.log
: > $LOG
cd $WT || exit 9
git checkout -q -- . ; git apply --check $M/patch.diff >> $LOG 2>&1 || { echo "RESULT: patch does not apply" | tee -a $LOG; exit 1; }
git apply $M/patch.diff
cmake --build $WT/_build -j${JOBS:-8} >> $LOG 2>&1 || { echo "RESULT: build failed with change" | tee -a $LOG; git checkout -q -- .; exit 1; }
ctest --test-dir $WT/_build -j6 --timeout 900 > $M/confirm_ctest.log 2>&1
CT=$(grep -E "tests passed|tests failed" $M/confirm_ctest.log | tail -1)
echo "ctest with change: $CT" >> $LOG
(cd $M && bash ./build_and_run.sh) > $M/confirm_demo_mut.log 2>&1; D1=$?
echo "demo with change: exit $D1" >> $LOG
git checkout -q -- .
cmake --build $WT/_build -j${JOBS:-8} >> $LOG 2>&1
(cd $M && bash ./build_and_run.sh) > $M/confirm_demo_clean.log 2>&1; D2=$?
echo "demo without change: exit $D2" >> $LOG
if echo "$CT" | grep -q "100% tests passed" && [ $D1 -ne 0 ] && [ $D2 -eq 0 ]; then echo "RESULT: CONFIRMED ($CT; demo mut=$D1 clean=$D2)" | tee -a $LOG; else echo "RESULT: NOT CONFIRMED ($CT; demo mut=$D1 clean=$D2)" | tee -a $LOG; fi
