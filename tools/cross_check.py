#!/usr/bin/env python3
"""Cross-check: run MANY checks against each confirmed seeded change (seeded/<id>/patch.diff) on one scratch copy per change.
A check of another property that fires is either a legitimate cross-detection (the change also breaks that property's clause) or
a false alarm; every such hit is printed for triage.   cross_check.py [-j N] [--pids C05,C06,...] [--only <seeded id substring>]"""
import argparse
import glob
import json
import os
import re
import shutil
import subprocess
import sys
import tempfile
from concurrent.futures import ThreadPoolExecutor

VERIF = os.path.dirname(os.path.dirname(os.path.abspath(__file__)))
ALL = ['C%02d' % i for i in range(1, 21)]


def one(job):
    sid, patch, own, pids = job
    root = tempfile.mkdtemp(prefix='omplx_')
    out = []
    try:
        shutil.copytree('/repo/src', os.path.join(root, 'src'))
        shutil.copy('/repo/CMakeLists.txt', root)
        r = subprocess.run(['patch', '-p1', '-s', '-d', root, '-i', patch], capture_output=True, text=True)
        if r.returncode != 0:
            return sid, own, [('-', 3, 'patch does not apply')]
        env = dict(os.environ)
        env['OMPL_REPO'] = root
        env['VERIF_EVIDENCE_DIR'] = os.path.join(root, 'evidence')
        env['VERIF_WORK'] = os.path.join(root, 'work')
        for pid in pids:
            r = subprocess.run([sys.executable, os.path.join(VERIF, 'check.py'), pid, '--tier', 'quick'], capture_output=True, text=True,
                               env=env, cwd=VERIF)
            rules = sorted(set(re.findall(r'^  (R\d+\w) ', r.stdout, re.M)))
            first = (re.findall(r'^  (R\d+\w .*)$', r.stdout, re.M) or [''])[0][:200]
            if r.returncode != 0:
                out.append((pid, r.returncode, ','.join(rules) + ' | ' + first if rules else (r.stdout + r.stderr)[-300:].replace('\n', ' ')))
        return sid, own, out
    finally:
        shutil.rmtree(root, ignore_errors=True)


if __name__ == '__main__':
    ap = argparse.ArgumentParser()
    ap.add_argument('-j', type=int, default=4)
    ap.add_argument('--pids', default=','.join(ALL))
    ap.add_argument('--only', default='')
    a = ap.parse_args()
    pids = a.pids.split(',')
    jobs = []
    for m in sorted(glob.glob(os.path.join(VERIF, 'seeded', '*', 'meta.json'))):
        meta = json.load(open(m))
        if a.only and a.only not in meta['id']:
            continue
        jobs.append((meta['id'], os.path.join(os.path.dirname(m), 'patch.diff'), meta['property'], pids))
    hits = 0
    with ThreadPoolExecutor(max_workers=a.j) as ex:
        for sid, own, out in ex.map(one, jobs):
            own_hit = [o for o in out if o[0] == own]
            others = [o for o in out if o[0] != own]
            print('%-45s own=%s %s' % (sid, own, 'caught' if own_hit and own_hit[0][1] == 1 else ('-' if own not in pids else 'NOT CAUGHT')))
            for pid, rc, txt in others:
                hits += 1
                print('      also %s exit=%d %s' % (pid, rc, txt))
    print('%d changes, %d hits by checks of other properties' % (len(jobs), hits))
