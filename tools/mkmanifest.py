#!/usr/bin/env python3
"""regenerate /verif/MANIFEST.json from rules/registry.py and validate it against the schema"""
import json
import os
import subprocess
import sys

VERIF = os.path.dirname(os.path.dirname(os.path.abspath(__file__)))
sys.path.insert(0, VERIF)
from rules import registry  # noqa: E402

BASE_OFF = ('cmake --build /repo/_build -j16 && ctest --test-dir /repo/_build -j8 --timeout 900')


def repo_commits(prefix):
    try:
        out = subprocess.check_output(['git', '-C', '/repo', 'log', '--format=%h %s'], text=True)
    except Exception:
        return []
    return [l.split()[0] for l in out.splitlines() if l.split(' ', 1)[1].startswith(prefix)]


m = {
    'version': 1,
    'setup_cmd': 'python3 tools/setup.py',
    'hooks': {
        'guard': 'OMPL_VERIF',
        'enable': 'no hooks are needed: every check reads /repo\'s sources through the clang front end '
                  '(-DOMPL_VERIF is passed to the analysis front end only, and no source tests it)',
        'baseline_off_cmd': BASE_OFF,
        'source_commits': [],
        'add_only': True,
    },
    'engines': [
        {'name': 'omplx', 'path': 'tools/omplx/omplx.cc',
         'serves_properties': sorted(p for p, v in registry.P.items() if v['enabled']),
         'kind_free_text': 'clang 14 libTooling extractor: typed AST + clang::CFG + record table per unit, as JSON facts'},
        {'name': 'engines', 'path': 'engine/',
         'serves_properties': sorted(p for p, v in registry.P.items() if v['enabled']),
         'kind_free_text': 'Python analyses over the facts: path-sensitive typestate/guard dominance (paths.py), linear '
                           'normal form (lin.py), forwarding shape (shape.py), finite-domain abstract evaluation (fd.py), '
                           'effects/lock sets and call graph (effects.py), algebraic normal forms with path enumeration, loop '
                           'summaries and symbolic differentiation (sym.py)'},
    ],
    'checks': [],
    'not_applicable': [],
    'notes': 'Static analysis only: no registered command executes OMPL code. Exit 2 = analysis broken (neither pass '
             'nor violation). known_findings.jsonl lists recorded findings and fixed: records. Thorough tier = quick tier plus '
             'the self-check seeds of the property (selfcheck/seeds.py) applied to scratch copies of the current tree under '
             '$TMPDIR, removed afterwards: every rule is re-tested both ways.',
}
for pid in sorted(registry.P):
    v = registry.P[pid]
    if v['enabled']:
        m['checks'].append({
            'property_id': pid,
            'quick_cmd': 'python3 check.py %s --tier quick' % pid,
            'thorough_cmd': 'python3 check.py %s --tier thorough' % pid,
            'evidence_file': 'evidence/%s.json' % pid,
            'replay_cmd_template': 'python3 check.py %s --replay {path}' % pid,
            'engine': 'omplx+engines',
            'level_claimed': {'category': 'other', 'text': v['text'], 'design_ref': 'DESIGN.md section 3, ' + pid + '; as built: Revisions R1.2 and R2'},
            'level_note': v['note'],
            'technique': 'static analysis: ' + v['technique'],
        })
    else:
        m['not_applicable'].append({'property_id': pid, 'reason': v['na_reason'] or 'not claimed'})
json.dump(m, open(os.path.join(VERIF, 'MANIFEST.json'), 'w'), indent=1)
try:
    import jsonschema
    jsonschema.validate(m, json.load(open('/root/.vp/MANIFEST.schema.json')))
    print('MANIFEST.json valid: %d checks, %d not applicable' % (len(m['checks']), len(m['not_applicable'])))
except ImportError:
    print('jsonschema not importable here; run with python3-vt')
