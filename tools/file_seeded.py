#!/usr/bin/env python3
"""File a confirmed seeded change under /verif/seeded/<id>/ :  file_seeded.py PID SRC_DIR ID "needs..." """
import json
import os
import re
import shutil
import sys

VERIF = os.path.dirname(os.path.dirname(os.path.abspath(__file__)))
sys.path.insert(0, os.path.join(VERIF, 'tools'))
from try_patch import run  # noqa: E402

pid, srcdir, sid, needs = sys.argv[1:5]
extra_pids = sys.argv[5:]
dst = os.path.join(VERIF, 'seeded', sid)
os.makedirs(dst, exist_ok=True)
for f in ('patch.diff', 'demo.cpp', 'build_and_run.sh', 'README.md', 'confirm.log'):
    p = os.path.join(srcdir, f)
    if os.path.exists(p):
        shutil.copy(p, dst)
conf = open(os.path.join(srcdir, 'confirm.log')).read() if os.path.exists(os.path.join(srcdir, 'confirm.log')) else ''
m = re.search(r'RESULT: (.*)', conf)
detected = {}
for q in [pid] + extra_pids:
    code, out = run(q, os.path.join(dst, 'patch.diff'))
    detected[q] = {'exit': code, 'rules': sorted(set(re.findall(r'^  (R\d+\w) ', out, re.M))),
                   'first_report': (re.findall(r'^  (R\d+\w .*)$', out, re.M) or [''])[0][:400]}
touched = sorted(set(re.findall(r'^\+\+\+ b/(.*)$', open(os.path.join(dst, 'patch.diff')).read(), re.M)))
meta = {
    'id': sid, 'property': pid, 'files_touched': touched, 'needs_to_manifest': needs,
    'origin': 'written by an independent sub-agent that saw only the property text and its own scratch worktree',
    'confirmed_by_me': {
        'what_i_ran': 'tools/confirm_mut.sh <scratch worktree> <dir>: git apply; cmake --build; full ctest; demo (must '
                      'fail); git checkout; rebuild; demo (must pass)',
        'result': m.group(1) if m else 'not run',
    },
    'detected_by': detected,
}
json.dump(meta, open(os.path.join(dst, 'meta.json'), 'w'), indent=1)
print(sid, meta['confirmed_by_me']['result'], {k: (v['exit'], v['rules']) for k, v in detected.items()})
