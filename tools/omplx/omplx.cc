// omplx: fact extractor for the OMPL static checks (clang 14 libTooling).
//
// For one translation unit it writes, to the file given with -o, one JSON object
// per line:
//   {"fn": ...}      one per function *definition* whose body lies in a file
//                    under one of the --root prefixes (implicit template
//                    instantiations and lambda call operators included):
//                    typed AST of the body (flattened), and the clang::CFG.
//   {"record": ...}  one per class definition under the roots: fields, bases,
//                    methods (virtual / const / overridden).
//   {"unit": ...}    trailer with counts; its presence marks a complete file.
//
// No rule lives here; the Python engines under /verif/engine decide.

#include "clang/AST/ASTConsumer.h"
#include "clang/AST/ASTContext.h"
#include "clang/AST/Attr.h"
#include "clang/AST/DeclCXX.h"
#include "clang/AST/DeclTemplate.h"
#include "clang/AST/ExprCXX.h"
#include "clang/AST/ParentMapContext.h"
#include "clang/AST/RecursiveASTVisitor.h"
#include "clang/AST/StmtCXX.h"
#include "clang/Analysis/CFG.h"
#include "clang/Frontend/CompilerInstance.h"
#include "clang/Frontend/FrontendAction.h"
#include "clang/Tooling/CommonOptionsParser.h"
#include "clang/Tooling/Tooling.h"
#include "llvm/Support/CommandLine.h"
#include "llvm/Support/raw_ostream.h"

#include <map>
#include <set>
#include <string>
#include <vector>

using namespace clang;

static llvm::cl::OptionCategory Cat("omplx options");
static llvm::cl::opt<std::string> OutFile("o", llvm::cl::desc("output file"), llvm::cl::Required, llvm::cl::cat(Cat));
static llvm::cl::list<std::string> Roots("root", llvm::cl::desc("emit definitions located under this path prefix"),
                                         llvm::cl::cat(Cat));

namespace
{
    std::string jesc(llvm::StringRef s)
    {
        std::string o;
        o.reserve(s.size() + 2);
        for (unsigned char c : s)
        {
            switch (c)
            {
                case '"': o += "\\\""; break;
                case '\\': o += "\\\\"; break;
                case '\n': o += "\\n"; break;
                case '\r': o += "\\r"; break;
                case '\t': o += "\\t"; break;
                default:
                    if (c < 0x20)
                    {
                        char b[8];
                        snprintf(b, sizeof b, "\\u%04x", c);
                        o += b;
                    }
                    else
                        o += (char)c;
            }
        }
        return o;
    }

    struct Ctx
    {
        ASTContext *ac = nullptr;
        SourceManager *sm = nullptr;
        PrintingPolicy pp{LangOptions()};
        std::map<const Decl *, unsigned> dids;
        unsigned did(const Decl *d)
        {
            if (!d)
                return 0;
            d = d->getCanonicalDecl();
            auto it = dids.find(d);
            if (it != dids.end())
                return it->second;
            unsigned n = dids.size() + 1;
            dids[d] = n;
            return n;
        }
        std::string fileOf(SourceLocation l)
        {
            if (l.isInvalid())
                return "";
            l = sm->getExpansionLoc(l);
            auto f = sm->getFilename(l);
            return f.str();
        }
        bool underRoots(SourceLocation l)
        {
            std::string f = fileOf(l);
            if (f.empty())
                return false;
            for (auto &r : Roots)
                if (f.compare(0, r.size(), r) == 0)
                    return true;
            return false;
        }
        std::string locStr(SourceLocation l, bool withFile)
        {
            if (l.isInvalid())
                return "";
            SourceLocation e = sm->getExpansionLoc(l);
            unsigned line = sm->getExpansionLineNumber(e), col = sm->getExpansionColumnNumber(e);
            std::string s;
            if (withFile)
                s = sm->getFilename(e).str() + ":";
            s += std::to_string(line) + ":" + std::to_string(col);
            return s;
        }
        std::string ty(QualType t)
        {
            if (t.isNull())
                return "";
            return t.getAsString(pp);
        }
        std::string canon(QualType t)
        {
            if (t.isNull())
                return "";
            return t.getCanonicalType().getAsString(pp);
        }
    };

    // qualified name without template arguments; lambdas named by position
    std::string qname(Ctx &c, const NamedDecl *d)
    {
        std::vector<std::string> parts;
        const DeclContext *dc = d->getDeclContext();
        auto nameOf = [&](const NamedDecl *nd) -> std::string
        {
            if (auto *rd = dyn_cast<CXXRecordDecl>(nd))
                if (rd->isLambda())
                    return "(lambda@" + c.locStr(rd->getBeginLoc(), false) + ")";
            if (nd->getDeclName().isIdentifier())
            {
                auto n = nd->getName();
                if (n.empty())
                    return "(anon)";
                return n.str();
            }
            return nd->getDeclName().getAsString();
        };
        parts.push_back(nameOf(d));
        while (dc)
        {
            if (auto *nd = dyn_cast<NamedDecl>(dc))
            {
                if (isa<NamespaceDecl>(nd) && cast<NamespaceDecl>(nd)->isAnonymousNamespace())
                    parts.push_back("(anon)");
                else if (isa<NamespaceDecl>(nd) || isa<RecordDecl>(nd) || isa<FunctionDecl>(nd) || isa<EnumDecl>(nd))
                {
                    if (isa<EnumDecl>(nd) && !cast<EnumDecl>(nd)->isScoped())
                        ;
                    else
                        parts.push_back(nameOf(nd));
                }
            }
            dc = dc->getParent();
        }
        std::string s;
        for (auto it = parts.rbegin(); it != parts.rend(); ++it)
        {
            if (!s.empty())
                s += "::";
            s += *it;
        }
        return s;
    }

    std::string tmplArgs(Ctx &c, const FunctionDecl *fd)
    {
        std::string s;
        llvm::raw_string_ostream os(s);
        const DeclContext *dc = fd;
        std::vector<std::string> parts;
        while (dc)
        {
            if (auto *sp = dyn_cast<ClassTemplateSpecializationDecl>(dc))
            {
                std::string t;
                llvm::raw_string_ostream ts(t);
                printTemplateArgumentList(ts, sp->getTemplateArgs().asArray(), c.pp);
                parts.push_back(sp->getName().str() + ts.str());
            }
            else if (auto *f = dyn_cast<FunctionDecl>(dc))
            {
                if (auto *args = f->getTemplateSpecializationArgs())
                {
                    std::string t;
                    llvm::raw_string_ostream ts(t);
                    printTemplateArgumentList(ts, args->asArray(), c.pp);
                    parts.push_back(f->getNameAsString() + ts.str());
                }
            }
            dc = dc->getParent();
        }
        for (auto it = parts.rbegin(); it != parts.rend(); ++it)
        {
            if (!s.empty())
                s += " ";
            s += *it;
        }
        return s;
    }

    struct FnEmitter
    {
        Ctx &c;
        std::string fnFile;
        std::map<const Stmt *, unsigned> ids;
        std::vector<std::string> nodes;  // serialized
        std::vector<const LambdaExpr *> lambdas;

        explicit FnEmitter(Ctx &cc) : c(cc)
        {
        }

        std::string loc(SourceLocation l)
        {
            if (l.isInvalid())
                return "";
            std::string f = c.fileOf(l);
            return c.locStr(l, f != fnFile);
        }

        void declRefInfo(std::string &o, const ValueDecl *vd)
        {
            o += ",\"did\":" + std::to_string(c.did(vd));
            const char *dk = "Other";
            if (isa<ParmVarDecl>(vd))
                dk = "Parm";
            else if (auto *v = dyn_cast<VarDecl>(vd))
            {
                if (v->isLocalVarDecl())
                    dk = v->isStaticLocal() ? "StaticLocal" : "Local";
                else if (v->isStaticDataMember())
                    dk = "StaticMember";
                else
                    dk = "Global";
            }
            else if (isa<FieldDecl>(vd))
                dk = "Field";
            else if (isa<EnumConstantDecl>(vd))
                dk = "Enum";
            else if (isa<CXXMethodDecl>(vd))
                dk = "Method";
            else if (isa<FunctionDecl>(vd))
                dk = "Function";
            else if (isa<BindingDecl>(vd))
                dk = "Binding";
            o += std::string(",\"dk\":\"") + dk + "\"";
            if (vd->getDeclName().isIdentifier())
                o += ",\"name\":\"" + jesc(vd->getName()) + "\"";
            else
                o += ",\"name\":\"" + jesc(vd->getDeclName().getAsString()) + "\"";
            if (!isa<ParmVarDecl>(vd) && !(isa<VarDecl>(vd) && cast<VarDecl>(vd)->isLocalVarDecl()))
                o += ",\"q\":\"" + jesc(qname(c, vd)) + "\"";
            if (auto *ec = dyn_cast<EnumConstantDecl>(vd))
                o += ",\"v\":" + llvm::toString(ec->getInitVal(), 10);
            if (auto *fd = dyn_cast<FieldDecl>(vd))
                if (fd->isMutable())
                    o += ",\"mutable\":true";
            if (auto *v = dyn_cast<VarDecl>(vd))
            {
                if (v->getType().isConstQualified())
                    o += ",\"cq\":true";
            }
        }

        void calleeInfo(std::string &o, const FunctionDecl *fd, const Expr *callExpr)
        {
            o += ",\"callee\":\"" + jesc(qname(c, fd)) + "\"";
            o += ",\"cdid\":" + std::to_string(c.did(fd));
            o += ",\"csig\":\"" + jesc(c.ty(fd->getType())) + "\"";
            if (auto *md = dyn_cast<CXXMethodDecl>(fd))
            {
                if (md->isVirtual())
                {
                    bool devirt = false;
                    if (auto *mc = dyn_cast_or_null<CXXMemberCallExpr>(callExpr))
                        if (auto *me = dyn_cast<MemberExpr>(mc->getCallee()->IgnoreParens()))
                            devirt = me->hasQualifier();
                    o += devirt ? ",\"virt\":false" : ",\"virt\":true";
                }
                if (md->isConst())
                    o += ",\"cconst\":true";
                if (md->isStatic())
                    o += ",\"cstatic\":true";
            }
            std::string cf = c.fileOf(fd->getLocation());
            bool inRepo = c.underRoots(fd->getLocation());
            if (inRepo)
                o += ",\"crepo\":true";
            // non-const pointer/reference parameters (may-write arguments)
            std::string w;
            unsigned i = 0;
            for (auto *p : fd->parameters())
            {
                QualType t = p->getType();
                bool mayWrite = false;
                if (t->isReferenceType())
                    mayWrite = !t->getPointeeType().isConstQualified() && !t->isRValueReferenceType();
                else if (t->isPointerType())
                    mayWrite = !t->getPointeeType().isConstQualified();
                if (mayWrite)
                {
                    if (!w.empty())
                        w += ",";
                    w += std::to_string(i);
                }
                ++i;
            }
            if (!w.empty())
                o += ",\"wargs\":[" + w + "]";
        }

        unsigned emit(const Stmt *s)
        {
            if (!s)
                return 0;
            auto it = ids.find(s);
            if (it != ids.end())
                return it->second;
            unsigned id = nodes.size() + 1;
            ids[s] = id;
            nodes.emplace_back();  // reserve slot

            std::string o = "{\"id\":" + std::to_string(id) + ",\"k\":\"" + s->getStmtClassName() + "\"";
            o += ",\"loc\":\"" + jesc(loc(s->getBeginLoc())) + "\"";
            if (s->getBeginLoc().isMacroID())
                o += ",\"mac\":true";
            std::vector<unsigned> ch;
            bool childrenDone = false;

            if (auto *e = dyn_cast<Expr>(s))
            {
                o += ",\"ty\":\"" + jesc(c.ty(e->getType())) + "\"";
                if (e->isLValue())
                    o += ",\"lv\":true";
            }

            if (auto *bo = dyn_cast<BinaryOperator>(s))
                o += ",\"op\":\"" + jesc(bo->getOpcodeStr()) + "\"";
            else if (auto *uo = dyn_cast<UnaryOperator>(s))
            {
                o += ",\"op\":\"" + jesc(UnaryOperator::getOpcodeStr(uo->getOpcode())) + "\"";
                o += uo->isPostfix() ? ",\"post\":true" : "";
            }
            else if (auto *il = dyn_cast<IntegerLiteral>(s))
                o += ",\"v\":" + llvm::toString(il->getValue(), 10, il->getType()->isSignedIntegerType());
            else if (auto *fl = dyn_cast<FloatingLiteral>(s))
            {
                llvm::SmallString<32> str;
                fl->getValue().toString(str);
                o += ",\"v\":\"" + jesc(str) + "\"";
            }
            else if (auto *bl = dyn_cast<CXXBoolLiteralExpr>(s))
                o += bl->getValue() ? ",\"v\":true" : ",\"v\":false";
            else if (auto *sl = dyn_cast<StringLiteral>(s))
            {
                if (sl->isAscii())
                    o += ",\"v\":\"" + jesc(sl->getString().substr(0, 80)) + "\"";
            }
            else if (auto *cl = dyn_cast<CharacterLiteral>(s))
                o += ",\"v\":" + std::to_string(cl->getValue());
            else if (auto *dre = dyn_cast<DeclRefExpr>(s))
                declRefInfo(o, dre->getDecl());
            else if (auto *me = dyn_cast<MemberExpr>(s))
            {
                declRefInfo(o, me->getMemberDecl());
                if (me->isArrow())
                    o += ",\"arrow\":true";
            }
            else if (auto *ce = dyn_cast<CastExpr>(s))
            {
                o += std::string(",\"ck\":\"") + ce->getCastKindName() + "\"";
            }
            else if (auto *ne = dyn_cast<CXXNewExpr>(s))
            {
                o += ",\"alloc\":\"" + jesc(c.ty(ne->getAllocatedType())) + "\"";
                if (ne->isArray())
                    o += ",\"array\":true";
            }
            else if (auto *de = dyn_cast<CXXDeleteExpr>(s))
            {
                if (de->isArrayForm())
                    o += ",\"array\":true";
            }
            else if (auto *ue = dyn_cast<UnaryExprOrTypeTraitExpr>(s))
            {
                o += ",\"trait\":" + std::to_string((int)ue->getKind());
            }

            // constant value of integral/bool expressions when the front end can fold them
            if (auto *e = dyn_cast<Expr>(s))
            {
                if (!e->isValueDependent() && !isa<IntegerLiteral>(e) && !isa<CXXBoolLiteralExpr>(e) &&
                    (e->getType()->isIntegralOrEnumerationType()) && e->isPRValue())
                {
                    Expr::EvalResult r;
                    if (e->EvaluateAsInt(r, *c.ac, Expr::SE_NoSideEffects))
                        o += ",\"cv\":" + llvm::toString(r.Val.getInt(), 10);
                }
            }

            if (auto *call = dyn_cast<CallExpr>(s))
            {
                if (auto *fd = call->getDirectCallee())
                    calleeInfo(o, fd, call);
                if (auto *oc = dyn_cast<CXXOperatorCallExpr>(s))
                    o += ",\"oop\":\"" + jesc(getOperatorSpelling(oc->getOperator())) + "\"";
                if (auto *mc = dyn_cast<CXXMemberCallExpr>(s))
                {
                    // children: [object, args...]
                    const Expr *obj = mc->getImplicitObjectArgument();
                    ch.push_back(emit(obj));
                    for (auto *a : mc->arguments())
                        ch.push_back(emit(a));
                    // keep the callee MemberExpr reachable for CFG mapping
                    unsigned ce = emit(mc->getCallee());
                    o += ",\"calleex\":" + std::to_string(ce);
                    childrenDone = true;
                }
                else
                {
                    unsigned ce = emit(call->getCallee());
                    o += ",\"calleex\":" + std::to_string(ce);
                    for (auto *a : call->arguments())
                        ch.push_back(emit(a));
                    childrenDone = true;
                }
            }
            else if (auto *cc = dyn_cast<CXXConstructExpr>(s))
            {
                if (auto *cd = cc->getConstructor())
                {
                    o += ",\"ctor\":\"" + jesc(qname(c, cd->getParent())) + "\"";
                    calleeInfo(o, cd, nullptr);
                }
            }
            else if (auto *le = dyn_cast<LambdaExpr>(s))
            {
                lambdas.push_back(le);
                auto *op = le->getCallOperator();
                o += ",\"lambda\":\"" + jesc(qname(c, op)) + "\"";
                o += ",\"lloc\":\"" + jesc(c.locStr(op->getBeginLoc(), true)) + "\"";
                std::string caps;
                for (auto &cap : le->captures())
                {
                    if (!caps.empty())
                        caps += ",";
                    if (cap.capturesThis())
                        caps += "{\"this\":true}";
                    else if (cap.capturesVariable())
                        caps += "{\"did\":" + std::to_string(c.did(cap.getCapturedVar())) + ",\"name\":\"" +
                                jesc(cap.getCapturedVar()->getName()) + "\",\"byref\":" +
                                (cap.getCaptureKind() == LCK_ByRef ? "true" : "false") + "}";
                }
                o += ",\"caps\":[" + caps + "]";
                // children: capture initialisers only (body is a separate function)
                for (auto *ci : le->capture_inits())
                    if (ci)
                        ch.push_back(emit(ci));
                childrenDone = true;
            }
            else if (auto *ds = dyn_cast<DeclStmt>(s))
            {
                std::string ds_s;
                for (auto *d : ds->decls())
                {
                    if (auto *vd = dyn_cast<VarDecl>(d))
                    {
                        if (!ds_s.empty())
                            ds_s += ",";
                        ds_s += "{\"did\":" + std::to_string(c.did(vd)) + ",\"name\":\"" + jesc(vd->getName()) +
                                "\",\"ty\":\"" + jesc(c.ty(vd->getType())) + "\"";
                        if (vd->isStaticLocal())
                            ds_s += ",\"static\":true";
                        if (vd->hasInit())
                        {
                            unsigned i = emit(vd->getInit());
                            ds_s += ",\"init\":" + std::to_string(i);
                            ch.push_back(i);
                        }
                        ds_s += "}";
                        if (auto *dd = dyn_cast<DecompositionDecl>(vd))
                            for (auto *b : dd->bindings())
                                (void)c.did(b);
                    }
                }
                o += ",\"decls\":[" + ds_s + "]";
                childrenDone = true;
            }
            else if (auto *is = dyn_cast<IfStmt>(s))
            {
                unsigned init = emit(is->getInit()), cv = emit(is->getConditionVariableDeclStmt()),
                         cond = emit(is->getCond()), th = emit(is->getThen()), el = emit(is->getElse());
                o += ",\"cond\":" + std::to_string(cond) + ",\"then\":" + std::to_string(th) +
                     ",\"else\":" + std::to_string(el);
                for (unsigned x : {init, cv, cond, th, el})
                    if (x)
                        ch.push_back(x);
                childrenDone = true;
            }
            else if (auto *ws = dyn_cast<WhileStmt>(s))
            {
                unsigned cv = emit(ws->getConditionVariableDeclStmt()), cond = emit(ws->getCond()),
                         body = emit(ws->getBody());
                o += ",\"cond\":" + std::to_string(cond) + ",\"body\":" + std::to_string(body);
                for (unsigned x : {cv, cond, body})
                    if (x)
                        ch.push_back(x);
                childrenDone = true;
            }
            else if (auto *dos = dyn_cast<DoStmt>(s))
            {
                unsigned body = emit(dos->getBody()), cond = emit(dos->getCond());
                o += ",\"cond\":" + std::to_string(cond) + ",\"body\":" + std::to_string(body);
                for (unsigned x : {body, cond})
                    if (x)
                        ch.push_back(x);
                childrenDone = true;
            }
            else if (auto *fs = dyn_cast<ForStmt>(s))
            {
                unsigned init = emit(fs->getInit()), cv = emit(fs->getConditionVariableDeclStmt()),
                         cond = emit(fs->getCond()), inc = emit(fs->getInc()), body = emit(fs->getBody());
                o += ",\"init\":" + std::to_string(init) + ",\"cond\":" + std::to_string(cond) +
                     ",\"inc\":" + std::to_string(inc) + ",\"body\":" + std::to_string(body);
                for (unsigned x : {init, cv, cond, inc, body})
                    if (x)
                        ch.push_back(x);
                childrenDone = true;
            }
            else if (auto *rf = dyn_cast<CXXForRangeStmt>(s))
            {
                unsigned range = emit(rf->getRangeInit()), var = emit(rf->getLoopVarStmt()), body = emit(rf->getBody());
                // also number the implicit statements so the CFG can refer to them
                unsigned rs = emit(rf->getRangeStmt()), bs = emit(rf->getBeginStmt()), es = emit(rf->getEndStmt()),
                         cond = emit(rf->getCond()), inc = emit(rf->getInc());
                o += ",\"range\":" + std::to_string(range) + ",\"var\":" + std::to_string(var) +
                     ",\"body\":" + std::to_string(body) + ",\"cond\":" + std::to_string(cond) +
                     ",\"inc\":" + std::to_string(inc);
                o += ",\"rangety\":\"" + jesc(c.canon(rf->getRangeInit()->getType())) + "\"";
                for (unsigned x : {rs, bs, es, cond, inc, var, body})
                    if (x)
                        ch.push_back(x);
                (void)range;
                childrenDone = true;
            }
            else if (auto *co = dyn_cast<ConditionalOperator>(s))
            {
                unsigned cond = emit(co->getCond()), t = emit(co->getTrueExpr()), f = emit(co->getFalseExpr());
                o += ",\"cond\":" + std::to_string(cond) + ",\"then\":" + std::to_string(t) +
                     ",\"else\":" + std::to_string(f);
                ch = {cond, t, f};
                childrenDone = true;
            }
            else if (auto *sw = dyn_cast<SwitchStmt>(s))
            {
                unsigned init = emit(sw->getInit()), cv = emit(sw->getConditionVariableDeclStmt()),
                         cond = emit(sw->getCond()), body = emit(sw->getBody());
                o += ",\"cond\":" + std::to_string(cond) + ",\"body\":" + std::to_string(body);
                for (unsigned x : {init, cv, cond, body})
                    if (x)
                        ch.push_back(x);
                childrenDone = true;
            }
            else if (auto *cs = dyn_cast<CaseStmt>(s))
            {
                unsigned l = emit(cs->getLHS()), sub = emit(cs->getSubStmt());
                o += ",\"case\":" + std::to_string(l) + ",\"sub\":" + std::to_string(sub);
                ch = {l, sub};
                childrenDone = true;
            }
            else if (auto *ile = dyn_cast<InitListExpr>(s))
            {
                if (ile->isSemanticForm() && ile->getSyntacticForm())
                    ;  // keep semantic form children
            }

            if (!childrenDone)
                for (const Stmt *k : s->children())
                    if (k)
                        ch.push_back(emit(k));

            o += ",\"ch\":[";
            for (size_t i = 0; i < ch.size(); ++i)
            {
                if (i)
                    o += ",";
                o += std::to_string(ch[i]);
            }
            o += "]}";
            nodes[id - 1] = std::move(o);
            return id;
        }
    };

    class Visitor : public RecursiveASTVisitor<Visitor>
    {
    public:
        Ctx &c;
        llvm::raw_ostream &os;
        unsigned nfn = 0, nrec = 0, ncfgfail = 0;
        std::set<const FunctionDecl *> done;
        std::set<const CXXRecordDecl *> doneRec;

        Visitor(Ctx &cc, llvm::raw_ostream &o) : c(cc), os(o)
        {
        }
        bool shouldVisitTemplateInstantiations() const
        {
            return true;
        }
        bool shouldVisitImplicitCode() const
        {
            return false;
        }
        bool shouldVisitLambdaBody() const
        {
            return true;
        }

        void emitFunction(const FunctionDecl *fd, const std::string &lambdaOf)
        {
            if (!fd->doesThisDeclarationHaveABody())
                return;
            if (fd->isDependentContext())
                return;
            if (fd->isDefaulted() || fd->isImplicit())
            {
                if (!(isa<CXXMethodDecl>(fd) && cast<CXXMethodDecl>(fd)->getParent()->isLambda()))
                    return;
            }
            if (!done.insert(fd).second)
                return;
            const Stmt *body = fd->getBody();
            if (!body)
                return;
            if (!c.underRoots(fd->getLocation()) && !c.underRoots(body->getBeginLoc()))
                return;

            FnEmitter fe(c);
            fe.fnFile = c.fileOf(body->getBeginLoc());
            std::string o = "{\"fn\":\"" + jesc(qname(c, fd)) + "\"";
            o += ",\"sig\":\"" + jesc(c.ty(fd->getType())) + "\"";
            o += ",\"file\":\"" + jesc(fe.fnFile) + "\"";
            o += ",\"loc\":\"" + jesc(c.locStr(fd->getLocation(), true)) + "\"";
            o += ",\"line\":" + std::to_string(c.sm->getExpansionLineNumber(fd->getLocation()));
            o += ",\"endline\":" + std::to_string(c.sm->getExpansionLineNumber(body->getEndLoc()));
            o += ",\"did\":" + std::to_string(c.did(fd));
            std::string ta = tmplArgs(c, fd);
            if (!ta.empty())
                o += ",\"targs\":\"" + jesc(ta) + "\"";
            if (!lambdaOf.empty())
                o += ",\"lambda_of\":\"" + jesc(lambdaOf) + "\"";
            o += ",\"ret\":\"" + jesc(c.ty(fd->getReturnType())) + "\"";
            if (auto *md = dyn_cast<CXXMethodDecl>(fd))
            {
                o += ",\"record\":\"" + jesc(qname(c, md->getParent())) + "\"";
                if (md->isConst())
                    o += ",\"const\":true";
                if (md->isVirtual())
                    o += ",\"virtual\":true";
                if (md->isStatic())
                    o += ",\"static\":true";
                std::string ov;
                for (auto *om : md->overridden_methods())
                {
                    if (!ov.empty())
                        ov += ",";
                    ov += "\"" + jesc(qname(c, om)) + "\"";
                }
                o += ",\"overrides\":[" + ov + "]";
                if (isa<CXXConstructorDecl>(md))
                    o += ",\"kind\":\"ctor\"";
                else if (isa<CXXDestructorDecl>(md))
                    o += ",\"kind\":\"dtor\"";
            }
            std::string ps;
            for (auto *p : fd->parameters())
            {
                if (!ps.empty())
                    ps += ",";
                ps += "{\"name\":\"" + jesc(p->getName()) + "\",\"did\":" + std::to_string(c.did(p)) + ",\"ty\":\"" +
                      jesc(c.ty(p->getType())) + "\"";
                if (p->hasDefaultArg() && !p->hasUninstantiatedDefaultArg() && !p->hasUnparsedDefaultArg())
                {
                    Expr::EvalResult r;
                    const Expr *da = p->getDefaultArg();
                    if (da && !da->isValueDependent() && da->getType()->isIntegralOrEnumerationType() &&
                        da->EvaluateAsInt(r, *c.ac))
                        ps += ",\"defv\":" + llvm::toString(r.Val.getInt(), 10);
                }
                ps += "}";
            }
            o += ",\"params\":[" + ps + "]";

            // constructor initialisers as pseudo statements
            std::string inits;
            if (auto *cd = dyn_cast<CXXConstructorDecl>(fd))
            {
                for (auto *ini : cd->inits())
                {
                    if (!ini->isWritten() && !ini->isInClassMemberInitializer())
                        continue;
                    unsigned e = fe.emit(ini->getInit());
                    if (!inits.empty())
                        inits += ",";
                    inits += "{\"init\":" + std::to_string(e);
                    if (auto *m = ini->getAnyMember())
                        inits += ",\"field\":\"" + jesc(m->getName()) + "\",\"did\":" + std::to_string(c.did(m));
                    else if (ini->isBaseInitializer())
                        inits += ",\"base\":\"" + jesc(c.ty(QualType(ini->getBaseClass(), 0))) + "\"";
                    inits += "}";
                }
            }
            unsigned root = fe.emit(body);
            o += ",\"body\":" + std::to_string(root);
            if (!inits.empty())
                o += ",\"inits\":[" + inits + "]";

            // CFG
            CFG::BuildOptions bo;
            bo.setAllAlwaysAdd();
            bo.AddImplicitDtors = true;
            bo.AddInitializers = true;
            bo.AddTemporaryDtors = false;
            bo.AddEHEdges = false;
            bo.PruneTriviallyFalseEdges = true;
            std::unique_ptr<CFG> cfg = CFG::buildCFG(fd, const_cast<Stmt *>(body), c.ac, bo);
            std::string cs;
            if (cfg)
            {
                for (const CFGBlock *b : *cfg)
                {
                    if (!cs.empty())
                        cs += ",";
                    cs += "{\"id\":" + std::to_string(b->getBlockID());
                    if (b == &cfg->getEntry())
                        cs += ",\"entry\":true";
                    if (b == &cfg->getExit())
                        cs += ",\"exit\":true";
                    if (b->hasNoReturnElement())
                        cs += ",\"noreturn\":true";
                    std::string el;
                    for (const CFGElement &e : *b)
                    {
                        std::string one;
                        if (auto st = e.getAs<CFGStmt>())
                            one = std::to_string(fe.emit(st->getStmt()));
                        else if (auto ad = e.getAs<CFGAutomaticObjDtor>())
                            one = "{\"dtor\":" + std::to_string(c.did(ad->getVarDecl())) + ",\"name\":\"" +
                                  jesc(ad->getVarDecl()->getName()) + "\",\"ty\":\"" +
                                  jesc(c.canon(ad->getVarDecl()->getType())) + "\"}";
                        else if (auto in = e.getAs<CFGInitializer>())
                            one = "{\"cinit\":" + std::to_string(fe.emit(in->getInitializer()->getInit())) + "}";
                        else
                            continue;
                        if (!el.empty())
                            el += ",";
                        el += one;
                    }
                    cs += ",\"el\":[" + el + "]";
                    if (const Stmt *t = b->getTerminatorStmt())
                    {
                        cs += ",\"term\":" + std::to_string(fe.emit(t));
                        cs += std::string(",\"termk\":\"") + t->getStmtClassName() + "\"";
                    }
                    if (const Stmt *tc = b->getTerminatorCondition(false))
                        cs += ",\"cond\":" + std::to_string(fe.emit(tc));
                    if (const Stmt *lb = b->getLabel())
                        cs += ",\"label\":" + std::to_string(fe.emit(lb));
                    std::string su;
                    for (auto it = b->succ_begin(); it != b->succ_end(); ++it)
                    {
                        if (!su.empty())
                            su += ",";
                        if (const CFGBlock *r = it->getReachableBlock())
                            su += std::to_string(r->getBlockID());
                        else
                            su += "null";
                    }
                    cs += ",\"succ\":[" + su + "]}";
                }
            }
            else
                ++ncfgfail;

            std::string ns;
            for (auto &n : fe.nodes)
            {
                if (!ns.empty())
                    ns += ",";
                ns += n;
            }
            o += ",\"nodes\":[" + ns + "]";
            o += ",\"cfg\":[" + cs + "]}";
            os << o << "\n";
            ++nfn;

            std::string me = qname(c, fd);
            for (auto *le : fe.lambdas)
                emitFunction(le->getCallOperator(), me);
        }

        bool VisitFunctionDecl(FunctionDecl *fd)
        {
            if (auto *md = dyn_cast<CXXMethodDecl>(fd))
                if (md->getParent()->isLambda())
                    return true;  // emitted with their enclosing function
            emitFunction(fd, "");
            return true;
        }

        bool VisitCXXRecordDecl(CXXRecordDecl *rd)
        {
            if (!rd->isThisDeclarationADefinition() || rd->isLambda() || rd->isDependentContext())
                return true;
            if (!c.underRoots(rd->getLocation()))
                return true;
            if (!doneRec.insert(rd).second)
                return true;
            std::string o = "{\"record\":\"" + jesc(qname(c, rd)) + "\"";
            o += ",\"loc\":\"" + jesc(c.locStr(rd->getLocation(), true)) + "\"";
            if (auto *sp = dyn_cast<ClassTemplateSpecializationDecl>(rd))
            {
                std::string t;
                llvm::raw_string_ostream ts(t);
                printTemplateArgumentList(ts, sp->getTemplateArgs().asArray(), c.pp);
                o += ",\"targs\":\"" + jesc(ts.str()) + "\"";
            }
            std::string bs;
            for (auto &b : rd->bases())
            {
                if (!bs.empty())
                    bs += ",";
                std::string bn;
                if (auto *brd = b.getType()->getAsCXXRecordDecl())
                    bn = qname(c, brd);
                else
                    bn = c.ty(b.getType());
                bs += "\"" + jesc(bn) + "\"";
            }
            o += ",\"bases\":[" + bs + "]";
            std::string fs;
            for (auto *f : rd->fields())
            {
                if (!fs.empty())
                    fs += ",";
                fs += "{\"name\":\"" + jesc(f->getName()) + "\",\"did\":" + std::to_string(c.did(f)) + ",\"ty\":\"" +
                      jesc(c.ty(f->getType())) + "\",\"canon\":\"" + jesc(c.canon(f->getType())) + "\"";
                if (f->isMutable())
                    fs += ",\"mutable\":true";
                if (f->hasInClassInitializer())
                    fs += ",\"hasinit\":true";
                fs += "}";
            }
            o += ",\"fields\":[" + fs + "]";
            std::string ms;
            for (auto *m : rd->methods())
            {
                if (m->isImplicit())
                    continue;
                if (!ms.empty())
                    ms += ",";
                ms += "{\"name\":\"" + jesc(m->getNameAsString()) + "\",\"sig\":\"" + jesc(c.ty(m->getType())) + "\"";
                if (m->isVirtual())
                    ms += ",\"virtual\":true";
                if (m->isPure())
                    ms += ",\"pure\":true";
                if (m->isConst())
                    ms += ",\"const\":true";
                if (m->isStatic())
                    ms += ",\"static\":true";
                std::string ov;
                for (auto *om : m->overridden_methods())
                {
                    if (!ov.empty())
                        ov += ",";
                    ov += "\"" + jesc(qname(c, om)) + "\"";
                }
                if (!ov.empty())
                    ms += ",\"overrides\":[" + ov + "]";
                ms += "}";
            }
            o += ",\"methods\":[" + ms + "]}";
            os << o << "\n";
            ++nrec;
            return true;
        }
    };

    class Consumer : public ASTConsumer
    {
    public:
        void HandleTranslationUnit(ASTContext &ac) override
        {
            std::error_code ec;
            llvm::raw_fd_ostream os(OutFile, ec);
            if (ec)
            {
                llvm::errs() << "omplx: cannot open " << OutFile << "\n";
                exit(3);
            }
            Ctx c;
            c.ac = &ac;
            c.sm = &ac.getSourceManager();
            c.pp = PrintingPolicy(ac.getLangOpts());
            c.pp.SuppressTagKeyword = true;
            c.pp.Bool = true;
            Visitor v(c, os);
            v.TraverseDecl(ac.getTranslationUnitDecl());
            bool err = ac.getDiagnostics().hasErrorOccurred();
            os << "{\"unit\":\"" << jesc(c.sm->getFileEntryForID(c.sm->getMainFileID())->getName()) << "\",\"functions\":"
               << v.nfn << ",\"records\":" << v.nrec << ",\"cfgfail\":" << v.ncfgfail
               << ",\"errors\":" << (err ? "true" : "false") << "}\n";
        }
    };

    class Action : public ASTFrontendAction
    {
    public:
        std::unique_ptr<ASTConsumer> CreateASTConsumer(CompilerInstance &, llvm::StringRef) override
        {
            return std::make_unique<Consumer>();
        }
    };
}  // namespace

int main(int argc, const char **argv)
{
    auto op = tooling::CommonOptionsParser::create(argc, argv, Cat);
    if (!op)
    {
        llvm::errs() << llvm::toString(op.takeError()) << "\n";
        return 2;
    }
    tooling::ClangTool tool(op->getCompilations(), op->getSourcePathList());
    return tool.run(tooling::newFrontendActionFactory<Action>().get());
}
