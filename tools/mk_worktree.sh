#!/bin/bash
# mk_worktree.sh <dir> : scratch git worktree of /repo with its own build tree (ccache shared across worktrees).
# Remove with: git -C /repo worktree remove --force <dir>
WT=$1
set -e
git -C /repo worktree add --detach -f $WT HEAD > /dev/null 2>&1
export CCACHE_DIR=/tmp/ccache_ompl CCACHE_BASEDIR=$WT CCACHE_NOHASHDIR=1 CCACHE_SLOPPINESS=time_macros,include_file_mtime,include_file_ctime
cmake -G Ninja -S $WT -B $WT/_build -DCMAKE_BUILD_TYPE=RelWithDebInfo -DOMPL_BUILD_DEMOS=OFF -DOMPL_BUILD_PYBINDINGS=OFF \
  -DCMAKE_CXX_COMPILER_LAUNCHER=ccache > $WT/_configure.log 2>&1
cmake --build $WT/_build -j${JOBS:-16} > $WT/_build.log 2>&1
echo "built $WT: $(tail -1 $WT/_build.log)"
