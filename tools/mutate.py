#!/usr/bin/env python3
"""Apply one textual edit to a scratch copy of /repo/src (outside /repo and /verif), run a check on it, remove it.

  mutate.py PID FILE OLD NEW [--nth N] [--expect RULE] [--neutral]
FILE is relative to /repo. Used to test every rule both ways (fires on a behaviour-breaking seed, silent on a
neutral rewrite). The scratch tree lives under $TMPDIR (default /tmp) and is deleted afterwards.
"""
import argparse
import os
import shutil
import subprocess
import sys
import tempfile

VERIF = os.path.dirname(os.path.dirname(os.path.abspath(__file__)))


def run_mutant(pid, edits, tier='quick', keep=False):
    """edits: list of (file, old, new, nth). returns (exit code, output)"""
    root = tempfile.mkdtemp(prefix='omplmut_')
    try:
        shutil.copytree('/repo/src', os.path.join(root, 'src'))
        shutil.copy('/repo/CMakeLists.txt', root)
        for (f, old, new, nth) in edits:
            p = os.path.join(root, f)
            s = open(p).read()
            c = s.count(old)
            if c == 0:
                return 3, 'seed does not apply: %r not found in %s' % (old, f)
            if nth is None and c != 1:
                return 3, 'seed ambiguous: %r occurs %d times in %s' % (old, c, f)
            if nth is None:
                s = s.replace(old, new)
            else:
                idx = -1
                for _ in range(nth + 1):
                    idx = s.index(old, idx + 1)
                s = s[:idx] + new + s[idx + len(old):]
            open(p, 'w').write(s)
        env = dict(os.environ)
        env['OMPL_REPO'] = root
        env['VERIF_EVIDENCE_DIR'] = os.path.join(root, 'evidence')
        env['VERIF_WORK'] = os.path.join(root, 'work')
        r = subprocess.run([sys.executable, os.path.join(VERIF, 'check.py'), pid, '--tier', tier], capture_output=True,
                           text=True, env=env, cwd=VERIF)
        return r.returncode, r.stdout + r.stderr
    finally:
        if not keep:
            shutil.rmtree(root, ignore_errors=True)


if __name__ == '__main__':
    ap = argparse.ArgumentParser()
    ap.add_argument('pid')
    ap.add_argument('file')
    ap.add_argument('old')
    ap.add_argument('new')
    ap.add_argument('--nth', type=int)
    a = ap.parse_args()
    code, out = run_mutant(a.pid, [(a.file, a.old, a.new, a.nth)])
    print(out[-3000:])
    print('exit', code)
