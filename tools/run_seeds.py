#!/usr/bin/env python3
"""Run the seeded self-check: every behaviour-breaking seed must make the named rule report a violation, every neutral
rewrite must leave the check silent.  python3 tools/selfcheck.py [PID ...] [-j N]"""
import argparse
import os
import re
import sys
from concurrent.futures import ThreadPoolExecutor

VERIF = os.path.dirname(os.path.dirname(os.path.abspath(__file__)))
sys.path.insert(0, VERIF)
sys.path.insert(0, os.path.join(VERIF, 'tools'))
from mutate import run_mutant  # noqa: E402
from selfcheck.seeds import SEEDS  # noqa: E402


def one(seed):
    code, out = run_mutant(seed['pid'], seed['edits'])
    rules = set(re.findall(r'^  (R\d+\w) ', out, re.M))
    if seed.get('expect'):
        ok = code == 1 and seed['expect'] in rules
    else:
        ok = code == 0
    return seed, ok, code, sorted(rules), out


def run(pids=None, jobs=6, verbose=False):
    seeds = [s for s in SEEDS if not pids or s['pid'] in pids]
    res = []
    with ThreadPoolExecutor(max_workers=jobs) as ex:
        for seed, ok, code, rules, out in ex.map(one, seeds):
            res.append((seed, ok, code, rules))
            print('%s %-28s %-4s expect=%-7s exit=%d fired=%s' % ('ok  ' if ok else 'FAIL', seed['id'], seed['pid'],
                                                                 seed.get('expect') or 'silent', code, ','.join(rules)))
            if not ok and verbose:
                print(out[-1500:])
    return res


if __name__ == '__main__':
    ap = argparse.ArgumentParser()
    ap.add_argument('pids', nargs='*')
    ap.add_argument('-j', type=int, default=6)
    ap.add_argument('-v', action='store_true')
    a = ap.parse_args()
    r = run(a.pids, a.j, a.v)
    bad = [x for x in r if not x[1]]
    print('%d seeds, %d as expected, %d not' % (len(r), len(r) - len(bad), len(bad)))
    sys.exit(1 if bad else 0)
