#!/usr/bin/env python3
"""Run a check against a scratch copy of /repo/src with a patch applied:  try_patch.py PID patch.diff [--tier quick]"""
import os
import shutil
import subprocess
import sys
import tempfile

VERIF = os.path.dirname(os.path.dirname(os.path.abspath(__file__)))


def run(pid, patch, tier='quick'):
    root = tempfile.mkdtemp(prefix='omplpatch_')
    try:
        shutil.copytree('/repo/src', os.path.join(root, 'src'))
        shutil.copy('/repo/CMakeLists.txt', root)
        r = subprocess.run(['patch', '-p1', '-s', '-d', root, '-i', os.path.abspath(patch)], capture_output=True, text=True)
        if r.returncode != 0:
            return 3, 'patch does not apply: ' + r.stdout + r.stderr
        env = dict(os.environ)
        env['OMPL_REPO'] = root
        env['VERIF_EVIDENCE_DIR'] = os.path.join(root, 'evidence')
        env['VERIF_WORK'] = os.path.join(root, 'work')
        r = subprocess.run([sys.executable, os.path.join(VERIF, 'check.py'), pid, '--tier', tier], capture_output=True,
                           text=True, env=env, cwd=VERIF)
        return r.returncode, r.stdout + r.stderr
    finally:
        shutil.rmtree(root, ignore_errors=True)


if __name__ == '__main__':
    code, out = run(sys.argv[1], sys.argv[2])
    print(out[-2500:])
    print('exit', code)
