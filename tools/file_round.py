#!/usr/bin/env python3
"""confirm + file one seeded change of a blind round:
   file_round.py PID SRC_DIR ID WORKTREE ROUND "first-run verdict text" [extra PIDs...]
runs tools/confirm_mut.sh (apply, build, full ctest, demo fails; revert, rebuild, demo passes), then files it under
/verif/seeded/<ID>/ with meta.json (needs_to_manifest is taken from the author's README)."""
import json
import os
import re
import subprocess
import sys

VERIF = os.path.dirname(os.path.dirname(os.path.abspath(__file__)))
pid, srcdir, sid, wt, rnd, hist = sys.argv[1:7]
extra = sys.argv[7:]
env = dict(os.environ, WT=wt, JOBS=os.environ.get('JOBS', '8'))
# the demo's build script defaults to the author's worktree; WT overrides it
if not (os.environ.get('SKIP_CONFIRM') and os.path.exists(os.path.join(srcdir, 'confirm.log')) and 'RESULT' in open(os.path.join(srcdir, 'confirm.log')).read()):
    r = subprocess.run(['bash', os.path.join(VERIF, 'tools', 'confirm_mut.sh'), wt, srcdir], env=env, capture_output=True, text=True)
    print(r.stdout.strip()[-300:])
readme = open(os.path.join(srcdir, 'README.md')).read() if os.path.exists(os.path.join(srcdir, 'README.md')) else ''
paras = [p.strip() for p in re.split(r'\n\s*\n', readme) if p.strip()]
needs = [p for p in paras if re.search(r'manifest|needs|only (shows|happens)|tests (do not|never|miss)', p, re.I)]
needs = ' '.join(' '.join(needs[:3]).split())[:1200] or 'see README.md'
subprocess.run([sys.executable, os.path.join(VERIF, 'tools', 'file_seeded.py'), pid, srcdir, sid, needs] + extra)
mp = os.path.join(VERIF, 'seeded', sid, 'meta.json')
m = json.load(open(mp))
m['round'] = int(rnd)
m['history'] = hist
json.dump(m, open(mp, 'w'), indent=1)
for junk in ('demo', 'confirm_ctest.log', 'confirm_demo_mut.log', 'confirm_demo_clean.log'):
    q = os.path.join(srcdir, junk)
    if os.path.exists(q) and junk == 'demo':
        os.remove(q)
print(sid, m['confirmed_by_me']['result'], {k: (v['exit'], v['rules']) for k, v in m['detected_by'].items()})
