"""Seeded edits used to test every rule both ways (DESIGN.md section 6b).
Each seed: id, pid, edits [(file relative to /repo, old, new, nth or None)], expect (rule id) or None for a neutral
rewrite that must leave the check silent."""

PTC = 'src/ompl/base/src/PlannerTerminationCondition.cpp'
ITC = 'src/ompl/base/terminationconditions/src/IterationTerminationCondition.cpp'
CCT = 'src/ompl/base/terminationconditions/src/CostConvergenceTerminationCondition.cpp'
DMV = 'src/ompl/base/src/DiscreteMotionValidator.cpp'
DUB = 'src/ompl/base/spaces/src/DubinsStateSpace.cpp'
RS = 'src/ompl/base/spaces/src/ReedsSheppStateSpace.cpp'
D3 = 'src/ompl/base/spaces/Dubins3DMotionValidator.h'
SI = 'src/ompl/base/src/SpaceInformation.cpp'
HEAP = 'src/ompl/datastructures/BinaryHeap.h'
PLN = 'src/ompl/base/src/Planner.cpp'

SEEDS = []


def seed(id, pid, edits, expect):
    SEEDS.append({'id': id, 'pid': pid, 'edits': [e if len(e) == 4 else (e[0], e[1], e[2], None) for e in edits],
                  'expect': expect})


# ---- C05 -------------------------------------------------------------------------------------------------------
seed('c05-dubins-counter', 'C05', [(DUB, "    if (!si_->isValid(s2))\n    {\n        invalid_++;\n        return false;\n    }", "    if (!si_->isValid(s2))\n        return false;")], 'R05a')
seed('c05-rs-counter', 'C05', [(RS, "    if (!si_->isValid(s2))\n    {\n        invalid_++;\n        return false;\n    }", "    if (!si_->isValid(s2))\n        return false;")], 'R05a')
seed('c05-d3-lastvalid', 'C05', [(D3, "                lastValid.second = 0.0;\n", "")], 'R05b')
seed('c05-linear-from-2', 'C05', [(DMV, "for (int j = 1; j < nd; ++j)", "for (int j = 2; j < nd; ++j)")], 'R05c')
seed('c05-linear-short', 'C05', [(DMV, "for (int j = 1; j < nd; ++j)", "for (int j = 1; j < nd - 1; ++j)")], 'R05c')
seed('c05-child-mid+2', 'C05', [(DMV, "pos.emplace(mid + 1, x.second);", "pos.emplace(mid + 2, x.second);")], 'R05c')
seed('c05-child-guard', 'C05', [(DMV, "if (x.first < mid)", "if (x.first < mid - 1)")], 'R05c')
seed('c05-int-division', 'C05', [(DMV, "(double)mid / (double)nd", "(double)(mid / nd)")], 'R05c')
seed('c05-fraction-j', 'C05', [(DMV, "lastValid.second = (double)(j - 1) / (double)nd;", "lastValid.second = (double)j / (double)nd;")], 'R05b')
seed('c05-end-unchecked', 'C05', [(DMV, "    if (result)\n        if (!si_->isValid(s2))\n        {", "    if (false)\n        if (!si_->isValid(s2))\n        {")], 'R05c')
seed('c05-counters-swapped', 'C05', [(DMV, "    if (result)\n        valid_++;\n    else\n        invalid_++;\n\n    return result;\n}\n\nbool ompl::base::DiscreteMotionValidator::checkMotion(const State *s1, const State *s2) const", "    if (result)\n        invalid_++;\n    else\n        valid_++;\n\n    return result;\n}\n\nbool ompl::base::DiscreteMotionValidator::checkMotion(const State *s1, const State *s2) const")], 'R05a')
seed('c05-states-open-guard', 'C05', [(SI, "if (x.first < mid - 1)", "if (x.first < mid - 2)")], 'R05c')
seed('c05-failure-ignored', 'C05', [(DMV, "            if (!si_->isValid(test))\n            {\n                result = false;\n                break;\n            }\n\n            pos.pop();", "            if (!si_->isValid(test))\n            {\n                break;\n            }\n\n            pos.pop();")], 'R05c')
seed('c05-segcount-floor', 'C05', [('src/ompl/base/src/StateSpace.cpp', "(unsigned int)ceil(distance(state1, state2) / longestValidSegment_)", "(unsigned int)floor(distance(state1, state2) / longestValidSegment_)")], 'R05e')
# neutral rewrites
seed('c05-n-mid-roundup', 'C05', [(DMV, "int mid = (x.first + x.second) / 2;", "int mid = (x.first + x.second + 1) / 2;")], None)
seed('c05-n-guard-form', 'C05', [(DMV, "if (x.first < mid)", "if (x.first <= mid - 1)")], None)
seed('c05-n-nd-gt-1', 'C05', [(DMV, "if (nd >= 2)", "if (nd > 1)")], None)

# ---- C11 -------------------------------------------------------------------------------------------------------
seed('c11-removepos-noup', 'C11', [(HEAP, "                percolateUp(pos);\n                percolateDown(pos);\n            }\n            else", "                percolateDown(pos);\n            }\n            else")], 'R11a')
seed('c11-update-uponly', 'C11', [(HEAP, "            percolateUp(pos);\n            percolateDown(pos);\n        }\n\n        /** \\brief Check if the heap is empty */", "            percolateUp(pos);\n        }\n\n        /** \\brief Check if the heap is empty */")], 'R11a')
seed('c11-bulk-noup', 'C11', [(HEAP, "                vector_.push_back(element);\n                percolateUp(pos);\n                if (eventAfterInsert_)\n                    eventAfterInsert_(element, eventAfterInsertData_);\n            }", "                vector_.push_back(element);\n                if (eventAfterInsert_)\n                    eventAfterInsert_(element, eventAfterInsertData_);\n            }")], 'R11a')
seed('c11-position-missing', 'C11', [(HEAP, "                vector_[child] = vector_[parent];\n                vector_[child]->position = child;", "                vector_[child] = vector_[parent];")], 'R11b')
seed('c11-build-half', 'C11', [(HEAP, "for (int i = vector_.size() / 2 - 1; i >= 0; --i)", "for (int i = vector_.size() / 2 - 2; i >= 0; --i)")], 'R11d')
seed('c11-bigger-child', 'C11', [(HEAP, "if (lt_(vector_[child - 1]->data, vector_[child]->data))", "if (lt_(vector_[child]->data, vector_[child - 1]->data))")], 'R11d')
seed('c11-no-delete', 'C11', [(HEAP, "            delete vector_[pos];\n", "")], 'R11c')
seed('c11-n-down-then-up', 'C11', [(HEAP, "                percolateUp(pos);\n                percolateDown(pos);\n            }\n            else", "                percolateDown(pos);\n                percolateUp(pos);\n            }\n            else")], None)

# ---- C18 -------------------------------------------------------------------------------------------------------
seed('c18-or-and', 'C18', [(PTC, "return c1() || c2();", "return c1() && c2();")], 'R18b')
seed('c18-iter-ge', 'C18', [(ITC, "return (timesCalled_ > maxCalls_);", "return (timesCalled_ >= maxCalls_);")], 'R18c')
seed('c18-flag-false', 'C18', [(PTC, "                terminate_ = true;", "                terminate_ = false;")], 'R18a')
seed('c18-period-first', 'C18', [(PTC, "                if (terminate_)\n                    return true;\n                if (period_ > 0.0)\n                    return evalValue_;", "                if (period_ > 0.0)\n                    return evalValue_;\n                if (terminate_)\n                    return true;")], 'R18e')
seed('c18-now-lt-end', 'C18', [(PTC, "return std::chrono::steady_clock::now() > endTime;", "return std::chrono::steady_clock::now() < endTime;", 0)], 'R18d')
seed('c18-system-clock', 'C18', [(PTC, "const std::chrono::steady_clock::time_point endTime(std::chrono::steady_clock::now() + duration);\n    return PlannerTerminationCondition([endTime]\n                                       {\n                                           return std::chrono::steady_clock::now() > endTime;", "const time::point endTime(time::now() + duration);\n    return PlannerTerminationCondition([endTime]\n                                       {\n                                           return time::now() > endTime;")], 'R18d')
seed('c18-solve-other-duration', 'C18', [(PLN, "return solve(timedPlannerTerminationCondition(solveTime, std::min(solveTime / 100.0, 0.1)));", "return solve(timedPlannerTerminationCondition(solveTime / 100.0, std::min(solveTime / 100.0, 0.1)));")], 'R18d')
seed('c18-thresholds-late', 'C18', [(CCT, "    double costLowerThreshold = (1. - epsilon_) * averageCost_;\n    double costUpperThreshold = (1. + epsilon_) * averageCost_;\n    averageCost_ = newCost;", "    averageCost_ = newCost;\n    double costLowerThreshold = (1. - epsilon_) * averageCost_;\n    double costUpperThreshold = (1. + epsilon_) * averageCost_;")], 'R18f')
seed('c18-capture-ref', 'C18', [(PTC, "return PlannerTerminationCondition([c1, c2]\n                                       {\n                                           return c1() || c2();", "return PlannerTerminationCondition([&c1, &c2]\n                                       {\n                                           return c1() || c2();")], 'R18b')
seed('c18-exact-has-solution', 'C18', [(PTC, "return pdef->hasExactSolution();", "return pdef->hasSolution();")], 'R18e')
seed('c18-n-demorgan', 'C18', [(PTC, "return c1() || c2();", "return !(!c1() && !c2());")], None)
seed('c18-n-postinc', 'C18', [(ITC, "    ++timesCalled_;\n\n    return (timesCalled_ > maxCalls_);", "    return (timesCalled_++ >= maxCalls_);")], None)
seed('c18-n-solve-threshold', 'C18', [(PLN, "if (solveTime < 1.0)", "if (solveTime < 10.0)")], None)

# ---- C12 -------------------------------------------------------------------------------------------------------
PDF = 'src/ompl/datastructures/PDF.h'
seed('c12-index-not-updated', 'C12', [(PDF, "                data_[index]->index_ = index;\n", "")], 'R12a')
seed('c12-update-no-halving', 'C12', [(PDF, "                tree_[row][index] += weightChange;\n                index >>= 1;", "                tree_[row][index] += weightChange;")], 'R12b')
seed('c12-empty-test-removed', 'C12', [(PDF, "            if (data_.empty())\n                throw Exception(\"Cannot sample from an empty PDF\");\n", "")], 'R12b')
seed('c12-bound-guard-removed', 'C12', [(PDF, "if (r > tree_[row][node] && node + 1 < tree_[row].size())", "if (r > tree_[row][node])")], 'R12d')
seed('c12-sibling-odd', 'C12', [(PDF, "index + 2 == data_.size() && index % 2 == 0", "index + 2 == data_.size() && index % 2 == 1")], 'R12c')
seed('c12-leaf-swap-missing', 'C12', [(PDF, "                std::swap(tree_.front()[index], tree_.front().back());\n", "")], 'R12a')
seed('c12-update-from-row0', 'C12', [(PDF, "for (std::size_t row = 1; row < tree_.size(); ++row)\n            {\n                tree_[row][index] += weightChange;", "for (std::size_t row = 0; row < tree_.size(); ++row)\n            {\n                tree_[row][index] += weightChange;")], 'R12b')
seed('c12-delta-late', 'C12', [(PDF, "            const double weightChange = w - tree_.front()[index];\n            tree_.front()[index] = w;", "            tree_.front()[index] = w;\n            const double weightChange = w - tree_.front()[index];")], 'R12b')
seed('c12-leafpop-missing', 'C12', [(PDF, "            data_.pop_back();\n            tree_.front().pop_back();", "            data_.pop_back();")], 'R12c')
seed('c12-n-no-negative-check', 'C12', [(PDF, "            if (w < 0)\n                throw Exception(\"Weight argument must be a nonnegative value\");\n", "")], None)
seed('c12-n-no-range-check', 'C12', [(PDF, "            if (r < 0 || r > 1)\n                throw Exception(\"Sampling value must be between 0 and 1\");\n", "")], None)
seed('c12-n-guard-form', 'C12', [(PDF, "node + 1 < tree_[row].size()", "node + 2 <= tree_[row].size()")], None)

# ---- C19 -------------------------------------------------------------------------------------------------------
PD = 'src/ompl/base/src/ProblemDefinition.cpp'
RN = 'src/ompl/util/src/RandomNumbers.cpp'
PRRT = 'src/ompl/geometric/planners/rrt/src/pRRT.cpp'
MVH = 'src/ompl/base/MotionValidator.h'
GNAT = 'src/ompl/datastructures/NearestNeighborsGNAT.h'
CON = 'src/ompl/util/src/Console.cpp'
seed('c19-solset-nolock', 'C19', [(PD, "                std::lock_guard<std::mutex> slock(lock_);\n                int index = solutions_.size();", "                int index = solutions_.size();")], 'R19b')
seed('c19-nextseed-nolock', 'C19', [(RN, "            std::lock_guard<std::mutex> slock(rngMutex_);\n            someSeedsGenerated_ = true;", "            someSeedsGenerated_ = true;")], 'R19b')
seed('c19-prrt-add-unlocked', 'C19', [(PRRT, "            nnLock_.lock();\n            nn_->add(motion);\n            nnLock_.unlock();", "            nn_->add(motion);\n            nnLock_.lock();\n            nnLock_.unlock();")], 'R19d')
seed('c19-counter-plain', 'C19', [(MVH, "mutable std::atomic<unsigned int> valid_;", "mutable unsigned int valid_;")], 'R19a')
seed('c19-gnat-offset-plain', 'C19', [(GNAT, "mutable std::atomic<std::size_t> offset_{0};", "mutable std::size_t offset_{0};")], 'R19a')
seed('c19-terminate-plain', 'C19', [(PTC, "mutable std::atomic<bool> terminate_;", "mutable bool terminate_;")], 'R19a')
seed('c19-getoh-nolock', 'C19', [(CON, "    USE_DOH;\n    return doh->output_handler_;", "    return getDOH()->output_handler_;")], 'R19b')
seed('c19-continue-locked', 'C19', [(PRRT, "        nnLock_.lock();\n        Motion *nmotion = nn_->nearest(rmotion);\n        nnLock_.unlock();", "        nnLock_.lock();\n        Motion *nmotion = nn_->nearest(rmotion);\n        if (nmotion == nullptr)\n            continue;\n        nnLock_.unlock();")], 'R19c')
seed('c19-n-scoped-guard', 'C19', [(PRRT, "            nnLock_.lock();\n            nn_->add(motion);\n            nnLock_.unlock();", "            {\n                std::lock_guard<std::mutex> g(nnLock_);\n                nn_->add(motion);\n            }")], None)

# ---- C04 -------------------------------------------------------------------------------------------------------
OOC = 'src/ompl/base/src/OptimizationObjective.cpp'
PG = 'src/ompl/geometric/src/PathGeometric.cpp'
RRTS = 'src/ompl/geometric/planners/rrt/src/RRTstar.cpp'
PRMC = 'src/ompl/geometric/planners/prm/src/PRM.cpp'
AIT = 'src/ompl/geometric/planners/informedtrees/src/AITstar.cpp'
seed('c04-lt-difference-gt', 'C04', [(PD, "return difference_ < b.difference_;", "return difference_ > b.difference_;")], 'R04a')
seed('c04-lt-optimized-swapped', 'C04', [(PD, "    if (optimized_ && !b.optimized_)\n        return true;\n    if (!optimized_ && b.optimized_)\n        return false;", "    if (optimized_ && !b.optimized_)\n        return false;\n    if (!optimized_ && b.optimized_)\n        return true;")], 'R04a')
seed('c04-lt-le', 'C04', [(PD, "return difference_ < b.difference_;", "return difference_ <= b.difference_;")], 'R04a')
seed('c04-add-nosort', 'C04', [(PD, "                std::sort(solutions_.begin(), solutions_.end());\n", "")], 'R04a')
seed('c04-better-le', 'C04', [(OOC, "return c1.value() < c2.value();", "return c1.value() <= c2.value();")], 'R04b')
seed('c04-optimized-negated', 'C04', [(AIT, "solution.setOptimized(objective_, solutionCost_, objective_->isSatisfied(solutionCost_));", "solution.setOptimized(objective_, solutionCost_, !objective_->isSatisfied(solutionCost_));")], 'R04b')
seed('c04-optimized-other-cost', 'C04', [(AIT, "solution.setOptimized(objective_, solutionCost_, objective_->isSatisfied(solutionCost_));", "solution.setOptimized(objective_, solutionCost_, objective_->isSatisfied(approximateSolutionCost_));")], 'R04b')
seed('c04-incumbent-swapped', 'C04', [(PRMC, "if (opt_->isCostBetterThan(pathCost, bestCost_))\n                        bestCost_ = pathCost;", "if (opt_->isCostBetterThan(bestCost_, pathCost))\n                        bestCost_ = pathCost;")], 'R04c')
seed('c04-incumbent-unguarded', 'C04', [(PRMC, "if (opt_->isCostBetterThan(pathCost, bestCost_))\n                        bestCost_ = pathCost;", "bestCost_ = pathCost;")], 'R04c')
seed('c04-cost-no-terminal', 'C04', [(PG, "    cost = opt->combineCosts(cost, opt->terminalCost(states_.back()));\n", "")], 'R04d')
seed('c04-cost-from-2', 'C04', [(PG, "    for (std::size_t i = 1; i < states_.size(); ++i)\n        cost = opt->combineCosts", "    for (std::size_t i = 2; i < states_.size(); ++i)\n        cost = opt->combineCosts")], 'R04d')
seed('c04-n-lt-single-expr', 'C04', [(PD, "    if (!approximate_ && b.approximate_)\n        return true;\n    if (approximate_ && !b.approximate_)\n        return false;", "    if (approximate_ != b.approximate_)\n        return b.approximate_;")], None)

# ---- C13 -------------------------------------------------------------------------------------------------------
GRID = 'src/ompl/datastructures/Grid.h'
GRIDN = 'src/ompl/datastructures/GridN.h'
GRIDB = 'src/ompl/datastructures/GridB.h'
seed('c13-probe-plus1', 'C13', [(GRID, "                coord[i] += 2;", "                coord[i] += 1;")], 'R13a')
seed('c13-limit-gt-oneside', 'C13', [(GRIDN, "if (c->border && c->neighbors >= interiorCellNeighborsLimit_)\n                    c->border = false;", "if (c->border && c->neighbors > interiorCellNeighborsLimit_)\n                    c->border = false;")], 'R13b')
seed('c13-flip-no-move', 'C13', [(GRIDB, "                        external_.remove(reinterpret_cast<typename externalBHeap::Element *>(c->heapElement));\n                        internal_.insert(c);", "                        internal_.insert(c);")], 'R13c')
seed('c13-remove-no-pass', 'C13', [(GRIDN, "                    c->neighbors--;\n", "")], 'R13d')
seed('c13-add-wrong-heap', 'C13', [(GRIDB, "            if (cell->border)\n                external_.insert(ccell);\n            else\n                internal_.insert(ccell);", "            if (cell->border)\n                internal_.insert(ccell);\n            else\n                external_.insert(ccell);")], 'R13c')
seed('c13-n-direct-assign', 'C13', [(GRIDN, "                    c->neighbors--;\n                    if (!c->border && c->neighbors < interiorCellNeighborsLimit_)\n                        c->border = true;", "                    c->neighbors--;\n                    c->border = c->neighbors < interiorCellNeighborsLimit_;")], None)
seed('c13-n-loop-upwards', 'C13', [(GRID, "for (int i = dimension_ - 1; i >= 0; --i)\n            {\n                coord[i]--;", "for (int i = 0; i < (int)dimension_; ++i)\n            {\n                coord[i]--;")], None)

# ---- C10 -------------------------------------------------------------------------------------------------------
GNATN = 'src/ompl/datastructures/NearestNeighborsGNATNoThreadSafety.h'
SQRT = 'src/ompl/datastructures/NearestNeighborsSqrtApprox.h'
LINEAR = 'src/ompl/datastructures/NearestNeighborsLinear.h'
seed('c10-filter-dropped', 'C10', [(GNAT, "                for (const auto &d : data_)\n                    if (!gnat.isRemoved(d))\n                        insertNeighborR(nbh, r, d, gnat.distFun_(data, d));", "                for (const auto &d : data_)\n                    insertNeighborR(nbh, r, d, gnat.distFun_(data, d));")], 'R10a')
seed('c10-no-rebuild-on-pivot', 'C10', [(GNAT, "if (isPivot || removed_.size() >= removedCacheSize_)", "if (removed_.size() >= removedCacheSize_)")], 'R10b')
seed('c10-size-dec-missing', 'C10', [(GNAT, "            removed_.insert(d);\n            size_--;", "            removed_.insert(d);")], 'R10b')
seed('c10-prune-sign', 'C10', [(GNAT, "if (nodeDist.second > nodeDist.first->maxRadius_ + dist ||\n                    nodeDist.second < nodeDist.first->minRadius_ - dist)", "if (nodeDist.second > nodeDist.first->maxRadius_ - dist ||\n                    nodeDist.second < nodeDist.first->minRadius_ - dist)")], 'R10d')
seed('c10-prune-sign-nts', 'C10', [(GNATN, "if (node->distToPivot_ > node->maxRadius_ + dist || node->distToPivot_ < node->minRadius_ - dist)\n                    continue;", "if (node->distToPivot_ > node->maxRadius_ + dist || node->distToPivot_ < node->minRadius_ + dist)\n                    continue;")], 'R10d')
seed('c10-k-guard-dropped', 'C10', [(GNAT, "if (nbhQueue.size() == k && (nodeDist.second > nodeDist.first->maxRadius_ + dist ||", "if ((nodeDist.second > nodeDist.first->maxRadius_ + dist ||")], 'R10d')
seed('c10-sqrt-no-refresh', 'C10', [(SQRT, "            bool result = NearestNeighborsLinear<_T>::remove(data);\n            if (result)\n                updateCheckCount();", "            bool result = NearestNeighborsLinear<_T>::remove(data);")], 'R10e')
seed('c10-updaterange-swapped', 'C10', [(GNAT, "                if (minRange_[i] > dist)\n                    minRange_[i] = dist;", "                if (minRange_[i] < dist)\n                    minRange_[i] = dist;")], 'R10g')
seed('c10-n-rearranged', 'C10', [(GNAT, "if (nodeDist.second > nodeDist.first->maxRadius_ + dist ||\n                    nodeDist.second < nodeDist.first->minRadius_ - dist)", "if (nodeDist.second - dist > nodeDist.first->maxRadius_ ||\n                    nodeDist.second + dist < nodeDist.first->minRadius_)")], None)

# ---- C09 -------------------------------------------------------------------------------------------------------
PDS = 'src/ompl/base/src/PlannerDataStorage.cpp'
PDSH = 'src/ompl/base/PlannerDataStorage.h'
SSP = 'src/ompl/base/src/StateSpace.cpp'
SST_ = 'src/ompl/base/src/StateStorage.cpp'
PDATA = 'src/ompl/base/src/PlannerData.cpp'
seed('c09-signature-test-removed', 'C09', [(PDS, "        if (h.signature != sig)\n        {\n            OMPL_ERROR(\"Failed to load PlannerData: StateSpace signature mismatch\");\n            return false;\n        }\n", "")], 'R09a')
seed('c09-signature-inverted', 'C09', [(SST_, "        if (h.signature != sig)\n        {\n            OMPL_ERROR(\"State space signatures do not match\");", "        if (h.signature == sig)\n        {\n            OMPL_ERROR(\"State space signatures do not match\");")], 'R09a')
seed('c09-deserialize-no-advance', 'C09', [(SSP, "        components_[i]->deserialize(cstate->components[i], reinterpret_cast<const char *>(serialization) + l);\n        l += components_[i]->getSerializationLength();", "        components_[i]->deserialize(cstate->components[i], reinterpret_cast<const char *>(serialization) + l);")], 'R09c')
seed('c09-goal-to-standard', 'C09', [(PDSH, "                    else if (pd.isGoalVertex(i))\n                        vertexData.type_ = PlannerDataVertexData::GOAL;", "                    else if (pd.isGoalVertex(i))\n                        vertexData.type_ = PlannerDataVertexData::STANDARD;")], 'R09b')
seed('c09-start-goal-collapsed', 'C09', [(PDSH, "                    if (pd.isStartVertex(i) && pd.isGoalVertex(i))\n                        vertexData.type_ = PlannerDataVertexData::START_AND_GOAL;\n                    else if (pd.isStartVertex(i))", "                    if (pd.isStartVertex(i))")], 'R09b')
seed('c09-state-count-minus1', 'C09', [(SST_, "        h.state_count = states_.size();", "        h.state_count = states_.size() - 1;")], 'R09a')
seed('c09-fromreals-reverse', 'C09', [(SSP, "        *getValueAddressAtLocation(destination, locations[i]) = reals[i];", "        *getValueAddressAtLocation(destination, locations[i]) = reals[reals.size() - 1 - i];")], 'R09d')
seed('c09-goal-sort-wrong-list', 'C09', [(PDATA, "            std::sort(goalVertexIndices_.begin(), goalVertexIndices_.end());", "            std::sort(startVertexIndices_.begin(), startVertexIndices_.end());")], 'R09g')
seed('c09-n-reader-switch', 'C09', [(PDSH, "                    if (vertexData.type_ == PlannerDataVertexData::START_AND_GOAL)\n                    {\n                        pd.addStartVertex(*v);\n                        pd.markGoalState(state);\n                    }\n                    else if (vertexData.type_ == PlannerDataVertexData::START)\n                        pd.addStartVertex(*v);\n                    else if (vertexData.type_ == PlannerDataVertexData::GOAL)\n                        pd.addGoalVertex(*v);\n                    else\n                        pd.addVertex(*v);", "                    switch (vertexData.type_)\n                    {\n                        case PlannerDataVertexData::START_AND_GOAL:\n                            pd.addStartVertex(*v);\n                            pd.markGoalState(state);\n                            break;\n                        case PlannerDataVertexData::START:\n                            pd.addStartVertex(*v);\n                            break;\n                        case PlannerDataVertexData::GOAL:\n                            pd.addGoalVertex(*v);\n                            break;\n                        default:\n                            pd.addVertex(*v);\n                    }")], None)

# ---- C08 -------------------------------------------------------------------------------------------------------
RV = 'src/ompl/base/spaces/src/RealVectorStateSpace.cpp'
SO2 = 'src/ompl/base/spaces/src/SO2StateSpace.cpp'
UVS = 'src/ompl/base/samplers/src/UniformValidStateSampler.cpp'
BTS = 'src/ompl/base/samplers/src/BridgeTestValidStateSampler.cpp'
GVS = 'src/ompl/base/samplers/src/GaussianValidStateSampler.cpp'
seed('c08-gaussian-noclamp', 'C08', [(RV, "        if (v < bounds.low[i])\n            v = bounds.low[i];\n        else if (v > bounds.high[i])\n            v = bounds.high[i];\n        rstate->values[i] = v;", "        rstate->values[i] = v;")], 'R08a')
seed('c08-so2-near-noenforce', 'C08', [(SO2, "        near->as<SO2StateSpace::StateType>()->value - distance, near->as<SO2StateSpace::StateType>()->value + distance);\n    space_->enforceBounds(state);", "        near->as<SO2StateSpace::StateType>()->value - distance, near->as<SO2StateSpace::StateType>()->value + distance);")], 'R08a')
seed('c08-clamp-onesided', 'C08', [(RV, "        if (rstate->values[i] > bounds_.high[i])\n            rstate->values[i] = bounds_.high[i];\n        else if (rstate->values[i] < bounds_.low[i])\n            rstate->values[i] = bounds_.low[i];", "        if (rstate->values[i] > bounds_.high[i])\n            rstate->values[i] = bounds_.high[i];")], 'R08b')
seed('c08-valid-return-true', 'C08', [(UVS, "    } while (!valid && attempts < attempts_);\n    return valid;\n}\n\nbool ompl::base::UniformValidStateSampler::sampleNear", "    } while (!valid && attempts < attempts_);\n    return true;\n}\n\nbool ompl::base::UniformValidStateSampler::sampleNear")], 'R08c')
seed('c08-bridge-no-recheck', 'C08', [(BTS, "                si_->getStateSpace()->interpolate(endpoint, state, 0.5, state);\n                valid = si_->isValid(state);", "                si_->getStateSpace()->interpolate(endpoint, state, 0.5, state);\n                valid = true;", 0)], 'R08c')
seed('c08-gaussian-copy-wrong', 'C08', [(GVS, "            if (v2)\n                si_->copyState(state, temp);\n            result = true;", "            if (v1)\n                si_->copyState(state, temp);\n            result = true;", 0)], 'R08c')
seed('c08-n-std-clamp', 'C08', [(RV, "        if (v < bounds.low[i])\n            v = bounds.low[i];\n        else if (v > bounds.high[i])\n            v = bounds.high[i];\n        rstate->values[i] = v;", "        rstate->values[i] = std::min(std::max(v, bounds.low[i]), bounds.high[i]);")], None)

# ---- C03 -------------------------------------------------------------------------------------------------------
RRTC = 'src/ompl/geometric/planners/rrt/src/RRT.cpp'
KPI = 'src/ompl/geometric/planners/kpiece/src/KPIECE1.cpp'
LLB = 'src/ompl/geometric/planners/rrt/src/LazyLBTRRT.cpp'
PLNC = 'src/ompl/base/src/Planner.cpp'
SYC = 'src/ompl/control/planners/syclop/src/Syclop.cpp'
seed('c03-status-true-without-add', 'C03', [(RRTC, "    return {solved, approximate};", "    return {true, approximate};")], 'R03a')
seed('c03-syclop-exact-again', 'C03', [(SYC, "    return {addedSolution, !solved};", "    return addedSolution ? base::PlannerStatus::EXACT_SOLUTION : base::PlannerStatus::TIMEOUT;")], 'R03a')
seed('c03-clear-no-base', 'C03', [(RRTC, "void ompl::geometric::RRT::clear()\n{\n    Planner::clear();", "void ompl::geometric::RRT::clear()\n{")], 'R03c')
seed('c03-clear-keeps-lastgoal', 'C03', [(RRTC, "    lastGoalMotion_ = nullptr;\n}", "}")], 'R03c')
seed('c03-early-return-leak', 'C03', [(KPI, "    base::State *xstate = si_->allocState();\n", "    base::State *xstate = si_->allocState();\n    if (ptc)\n        return base::PlannerStatus::TIMEOUT;\n")], 'R03d')
seed('c03-freememory-dangling', 'C03', [(LLB, "    delete LPAstarApx_;\n    LPAstarApx_ = nullptr;", "    delete LPAstarApx_;")], 'R03g')
seed('c03-pis-clear-keeps-count', 'C03', [(PLNC, "    addedStartStates_ = 0;\n    sampledGoalsCount_ = 0;\n    pdef_.reset();", "    sampledGoalsCount_ = 0;\n    pdef_.reset();")], 'R03h')
seed('c03-nextstart-no-bounds', 'C03', [(PLNC, "        bool valid = bounds ? si_->isValid(st) : false;\n        if (bounds && valid)\n            return st;", "        bool valid = si_->isValid(st);\n        if (valid)\n            return st;")], 'R03h')
seed('c03-n-free-reordered', 'C03', [(RRTC, "    si_->freeState(xstate);\n    if (rmotion->state != nullptr)\n        si_->freeState(rmotion->state);\n    delete rmotion;", "    if (rmotion->state != nullptr)\n        si_->freeState(rmotion->state);\n    delete rmotion;\n    si_->freeState(xstate);")], None)

# ---- C01 -------------------------------------------------------------------------------------------------------
SBLC = 'src/ompl/geometric/planners/sbl/src/SBL.cpp'
PGC = 'src/ompl/geometric/src/PathGeometric.cpp'
PRMC2 = 'src/ompl/geometric/planners/prm/src/PRM.cpp'
seed('c01-rrt-guard-true', 'C01', [(RRTC, "        if (si_->checkMotion(nmotion->state, dstate))\n        {\n            if (addIntermediateStates_)", "        if (true)\n        {\n            if (addIntermediateStates_)")], 'R01a')
seed('c01-sbl-valid-without-check', 'C01', [(SBLC, "            if (si_->checkMotion(mpath[i]->parent->state, mpath[i]->state))\n                mpath[i]->valid = true;", "            if (mpath[i]->parent != nullptr)\n                mpath[i]->valid = true;")], 'R01b')
seed('c01-nextstart-no-bounds', 'C01', [(PLNC, "        bool valid = bounds ? si_->isValid(st) : false;\n        if (bounds && valid)\n            return st;", "        bool valid = si_->isValid(st);\n        if (valid)\n            return st;")], 'R01c')
seed('c01-rrt-approx-flag-false', 'C01', [(RRTC, "        pdef_->addSolutionPath(path, approximate, approxdif, getName());", "        pdef_->addSolutionPath(path, false, approxdif, getName());")], 'R01d')
seed('c01-check-short', 'C01', [(PGC, "for (int j = 0; result && j < last; ++j)", "for (int j = 0; result && j < last - 1; ++j)")], 'R01f')
seed('c01-rrt-other-node', 'C01', [(RRTC, "            if (sat)\n            {\n                approxdif = dist;\n                solution = nmotion;", "            if (sat)\n            {\n                approxdif = dist;\n                solution = nmotion->parent;")], 'R01e')
seed('c01-prm-edge-before-check', 'C01', [(PRMC2, "            if (si_->checkMotion(stateProperty_[n], stateProperty_[m]))\n            {\n                successfulConnectionAttemptsProperty_[m]++;\n                successfulConnectionAttemptsProperty_[n]++;", "            (void)si_->checkMotion(stateProperty_[n], stateProperty_[m]);\n            {\n                successfulConnectionAttemptsProperty_[m]++;\n                successfulConnectionAttemptsProperty_[n]++;")], 'R01a')
seed('c01-n-guard-in-local', 'C01', [(RRTC, "        if (si_->checkMotion(nmotion->state, dstate))\n        {\n            if (addIntermediateStates_)", "        const bool motionOk = si_->checkMotion(nmotion->state, dstate);\n        if (motionOk)\n        {\n            if (addIntermediateStates_)")], None)

# ---- C02 -------------------------------------------------------------------------------------------------------
CRRT = 'src/ompl/control/planners/rrt/src/RRT.cpp'
CSI = 'src/ompl/control/src/SpaceInformation.cpp'
CEST = 'src/ompl/control/planners/est/src/EST.cpp'
RVC = 'src/ompl/control/spaces/src/RealVectorControlSpace.cpp'
seed('c02-steps-plus1', 'C02', [(CRRT, "                motion->steps = cd;", "                motion->steps = cd + 1;")], 'R02a')
seed('c02-r-i-plus1', 'C02', [(CSI, "                r = i;\n                break;", "                r = i + 1;\n                break;")], 'R02d')
seed('c02-append-min-duration', 'C02', [(CEST, "mpath[i]->steps * siC_->getPropagationStepSize()", "siC_->getMinControlDuration() * siC_->getPropagationStepSize()")], 'R02c')
seed('c02-sampler-2high', 'C02', [(RVC, "rng_.uniformReal(bounds.low[i], bounds.high[i])", "rng_.uniformReal(bounds.low[i], 2.0 * bounds.high[i])")], 'R02e')
seed('c02-unchecked-swap', 'C02', [(CSI, "            if (isValid(temp2))\n                std::swap(temp1, temp2);\n            else", "            std::swap(temp1, temp2);\n            if (isValid(temp2))\n                ;\n            else")], 'R02d')
seed('c02-n-duration-local', 'C02', [(CEST, "                path->append(mpath[i]->state, mpath[i]->control, mpath[i]->steps * siC_->getPropagationStepSize());", "            {\n                const double dur = mpath[i]->steps * siC_->getPropagationStepSize();\n                path->append(mpath[i]->state, mpath[i]->control, dur);\n            }")], None)

# ---- C17 -------------------------------------------------------------------------------------------------------
PSC = 'src/ompl/geometric/src/PathSimplifier.cpp'
seed('c17-reduce-no-check', 'C17', [(PSC, "            if (si->checkMotion(states[p1], states[p2]))\n            {\n                if (freeStates_)\n                    for (int j = p1 + 1; j < p2; ++j)", "            if (p1 != p2)\n            {\n                if (freeStates_)\n                    for (int j = p1 + 1; j < p2; ++j)")], 'R17a')
seed('c17-free-erase-mismatch', 'C17', [(PSC, "                states.erase(states.begin() + p1 + 1, states.begin() + p2);", "                states.erase(states.begin() + p1 + 1, states.begin() + p2 + 1);", 0)], 'R17b')
seed('c17-simplify-true', 'C17', [(PSC, "    return valid || path.check();", "    return true;")], 'R17d')
seed('c17-rope-no-cost-test', 'C17', [(PSC, "                if (obj_->isCostBetterThan(shortcutCost, alongPath))\n                {", "                if (true)\n                {")], 'R17c')
seed('c17-rope-cost-swapped', 'C17', [(PSC, "                if (obj_->isCostBetterThan(shortcutCost, alongPath))\n                {", "                if (obj_->isCostBetterThan(alongPath, shortcutCost))\n                {")], 'R17c')
seed('c17-n-check-hoisted', 'C17', [(PSC, "            if (si->checkMotion(states[p1], states[p2]))\n            {\n                if (freeStates_)\n                    for (int j = p1 + 1; j < p2; ++j)", "            const bool shortcutOk = si->checkMotion(states[p1], states[p2]);\n            if (shortcutOk)\n            {\n                if (freeStates_)\n                    for (int j = p1 + 1; j < p2; ++j)")], None)

# ---- C06 -------------------------------------------------------------------------------------------------------
SSC = 'src/ompl/base/src/StateSpace.cpp'
RV = 'src/ompl/base/spaces/src/RealVectorStateSpace.cpp'
SO2C = 'src/ompl/base/spaces/src/SO2StateSpace.cpp'
SO3C = 'src/ompl/base/spaces/src/SO3StateSpace.cpp'
DUBH = 'src/ompl/base/spaces/DubinsStateSpace.h'
WRH = 'src/ompl/base/spaces/WrapperStateSpace.h'
TORC = 'src/ompl/base/spaces/special/src/TorusStateSpace.cpp'
MOBC = 'src/ompl/base/spaces/special/src/MobiusStateSpace.cpp'
seed('c06-compound-no-weight', 'C06', [(SSC, "        dist += weights_[i] * components_[i]->distance(cstate1->components[i], cstate2->components[i]);", "        dist += components_[i]->distance(cstate1->components[i], cstate2->components[i]);")], 'R06a')
seed('c06-compound-from-1', 'C06', [(SSC, "    double dist = 0.0;\n    for (unsigned int i = 0; i < componentCount_; ++i)\n        dist += weights_[i]", "    double dist = 0.0;\n    for (unsigned int i = 1; i < componentCount_; ++i)\n        dist += weights_[i]")], 'R06a')
seed('c06-compound-same-state', 'C06', [(SSC, "components_[i]->distance(cstate1->components[i], cstate2->components[i]);", "components_[i]->distance(cstate1->components[i], cstate1->components[i]);")], 'R06a')
seed('c06-compound-extent-unweighted', 'C06', [(SSC, "            e += weights_[i] * components_[i]->getMaximumExtent();", "            e += components_[i]->getMaximumExtent();")], 'R06a')
seed('c06-compound-flag-const', 'C06', [(SSC, "bool ompl::base::CompoundStateSpace::hasSymmetricDistance() const\n{\n    return std::all_of(components_.begin(), components_.end(),\n                       [](const StateSpacePtr &component) { return component->hasSymmetricDistance(); });", "bool ompl::base::CompoundStateSpace::hasSymmetricDistance() const\n{\n    return true;")], 'R06a')
seed('c06-compound-flag-wrong', 'C06', [(SSC, "[](const StateSpacePtr &component) { return component->hasSymmetricDistance(); }", "[](const StateSpacePtr &component) { return component->hasSymmetricInterpolate(); }")], 'R06a')
seed('c06-dubins-metric', 'C06', [(DUBH, "            bool isMetricSpace() const override\n            {\n                return false;", "            bool isMetricSpace() const override\n            {\n                return true;")], 'R06b')
seed('c06-dubins-claims-symmetric', 'C06', [(DUBH, "            bool hasSymmetricDistance() const override\n            {\n                return isSymmetric_;", "            bool hasSymmetricDistance() const override\n            {\n                return true;")], 'R06c')
seed('c06-wrapper-swapped', 'C06', [(WRH, "return space_->distance(state1->as<StateType>()->getState(), state2->as<StateType>()->getState());", "return space_->distance(state2->as<StateType>()->getState(), state1->as<StateType>()->getState());")], 'R06b')
seed('c06-so2-one-sided', 'C06', [(SO2C, "    double d = fabs(state1->as<StateType>()->value - state2->as<StateType>()->value);", "    double d = state1->as<StateType>()->value - state2->as<StateType>()->value;")], 'R06c')
seed('c06-rv-self-offset', 'C06', [(RV, "    return sqrt(dist);\n}\n\nbool ompl::base::RealVectorStateSpace::equalStates", "    return sqrt(dist + 1e-12);\n}\n\nbool ompl::base::RealVectorStateSpace::equalStates")], 'R06d')
seed('c06-so3-equal-componentwise', 'C06', [(SO3C, "    return arcLength(state1, state2) < std::numeric_limits<double>::epsilon();", "    const auto *q1 = static_cast<const StateType *>(state1);\n    const auto *q2 = static_cast<const StateType *>(state2);\n    return q1->x == q2->x && q1->y == q2->y && q1->z == q2->z && q1->w == q2->w;")], 'R06e')
seed('c06-torus-ignores-second', 'C06', [(TORC, "    return std::sqrt(x * x + y * y);", "    return std::sqrt(x * x);")], 'R06e')
seed('c06-mobius-seam-asym', 'C06', [(MOBC, "        r2 = -r2;\n\n        dist += std::sqrt((r2 - r1) * (r2 - r1));", "        dist += std::sqrt((r2 - 2.0 * r1) * (r2 - 2.0 * r1));")], 'R06c')
# neutral rewrites
seed('c06-n-so3-equal-dot', 'C06', [(SO3C, "    return arcLength(state1, state2) < std::numeric_limits<double>::epsilon();", "    const auto *q1 = static_cast<const StateType *>(state1);\n    const auto *q2 = static_cast<const StateType *>(state2);\n    return fabs(q1->x * q2->x + q1->y * q2->y + q1->z * q2->z + q1->w * q2->w) > 1.0 - 1e-15;")], None)
seed('c06-n-rv-indexed', 'C06', [(RV, "        double diff = (*s1++) - (*s2++);\n        dist += diff * diff;", "        double diff = s2[i] - s1[i];\n        dist += diff * diff;")], None)
seed('c06-n-so2-swapped-operands', 'C06', [(SO2C, "    double d = fabs(state1->as<StateType>()->value - state2->as<StateType>()->value);", "    double d = fabs(state2->as<StateType>()->value - state1->as<StateType>()->value);")], None)
seed('c06-n-compound-commuted', 'C06', [(SSC, "        dist += weights_[i] * components_[i]->distance(cstate1->components[i], cstate2->components[i]);", "        dist = dist + components_[i]->distance(cstate1->components[i], cstate2->components[i]) * weights_[i];")], None)

# ---- C07 -------------------------------------------------------------------------------------------------------
TIMC = 'src/ompl/base/spaces/src/TimeStateSpace.cpp'
DISC = 'src/ompl/base/spaces/src/DiscreteStateSpace.cpp'
seed('c07-compound-t-squared', 'C07', [(SSC, "        components_[i]->interpolate(cfrom->components[i], cto->components[i], t, cstate->components[i]);", "        components_[i]->interpolate(cfrom->components[i], cto->components[i], t * t, cstate->components[i]);")], 'R07a')
seed('c07-compound-skip-last', 'C07', [(SSC, "    auto *cstate = static_cast<CompoundState *>(state);\n    for (unsigned int i = 0; i < componentCount_; ++i)\n        components_[i]->interpolate(", "    auto *cstate = static_cast<CompoundState *>(state);\n    for (unsigned int i = 0; i < componentCount_ - 1; ++i)\n        components_[i]->interpolate(")], 'R07a')
seed('c07-compound-from-to-swapped', 'C07', [(SSC, "components_[i]->interpolate(cfrom->components[i], cto->components[i], t, cstate->components[i]);", "components_[i]->interpolate(cto->components[i], cfrom->components[i], t, cstate->components[i]);")], 'R07a')
seed('c07-wrapper-from-twice', 'C07', [(WRH, "                return space_->interpolate(from->as<StateType>()->getState(), to->as<StateType>()->getState(), t,", "                return space_->interpolate(from->as<StateType>()->getState(), from->as<StateType>()->getState(), t,")], 'R07a')
seed('c07-rv-alias-two-step', 'C07', [(RV, "        rstate->values[i] = rfrom->values[i] + (rto->values[i] - rfrom->values[i]) * t;", "    {\n        rstate->values[i] = rfrom->values[i];\n        rstate->values[i] += (rto->values[i] - rfrom->values[i]) * t;\n    }")], 'R07b')
seed('c07-time-alias-two-step', 'C07', [(TIMC, "    state->as<StateType>()->position =\n        from->as<StateType>()->position + (to->as<StateType>()->position - from->as<StateType>()->position) * t;", "    state->as<StateType>()->position = to->as<StateType>()->position * t;\n    state->as<StateType>()->position += from->as<StateType>()->position * (1.0 - t);")], 'R07b')
seed('c07-so3-alias-reads-after-write', 'C07', [(SO3C, "        qr->y = (qs1->y * s0 + qs2->y * s1) * d;", "        qr->y = (qs1->y * s0 + qs2->y * s1) * d + 0.0 * qr->x * qs1->x;")], None)
seed('c07-so3-alias-x-reused', 'C07', [(SO3C, "        qr->w = (qs1->w * s0 + qs2->w * s1) * d;", "        qr->w = (qs1->w * s0 + qs2->w * s1) * d + (qs1->x - qs1->x);\n        if (dq > 2.0)\n            qr->w = qs1->x;")], 'R07b')
seed('c07-rv-endpoint-bias', 'C07', [(RV, "        rstate->values[i] = rfrom->values[i] + (rto->values[i] - rfrom->values[i]) * t;", "        rstate->values[i] = rfrom->values[i] + (rto->values[i] - rfrom->values[i]) * t * (2.0 - t) * 0.5 * 2.0 * 0.5;")], 'R07c')
seed('c07-so2-long-way-from-to', 'C07', [(SO2C, "        v = from->as<StateType>()->value - diff * t;", "        v = to->as<StateType>()->value - diff * t;")], 'R07c')
seed('c07-so2-no-lower-rewrap', 'C07', [(SO2C, "        if (v > pi)\n            v -= 2.0 * pi;\n        else if (v < -pi)\n            v += 2.0 * pi;\n    }\n}\n\nompl::base::StateSamplerPtr ompl::base::SO2StateSpace::allocDefaultStateSampler", "        if (v > pi)\n            v -= 2.0 * pi;\n    }\n}\n\nompl::base::StateSamplerPtr ompl::base::SO2StateSpace::allocDefaultStateSampler")], 'R07d')
seed('c07-so3-no-long-way-flip', 'C07', [(SO3C, "        if (dq < 0)  // Take care of long angle case see http://en.wikipedia.org/wiki/Slerp\n            s1 = -s1;\n", "")], 'R07e')
seed('c07-discrete-no-rounding-offset', 'C07', [(DISC, "(to->as<StateType>()->value - from->as<StateType>()->value) * t + 0.5);", "(to->as<StateType>()->value - from->as<StateType>()->value) * t + 1.0);")], 'R07c')
seed('c07-dubins-shortcut-swapped', 'C07', [(DUB, "        if (t >= 1.)\n        {\n            if (to != state)\n                copyState(state, to);\n            return;\n        }\n        if (t <= 0.)\n        {\n            if (from != state)\n                copyState(state, from);", "        if (t >= 1.)\n        {\n            if (from != state)\n                copyState(state, from);\n            return;\n        }\n        if (t <= 0.)\n        {\n            if (to != state)\n                copyState(state, to);")], 'R07c')
seed('c07-rs-flag-before-path', 'C07', [(RS, "        path = reedsShepp(from, to);\n        firstTime = false;\n    }\n    interpolate(from, path, t, state);", "        firstTime = false;\n        if (t > 0.999)\n            return;\n        path = reedsShepp(from, to);\n    }\n    interpolate(from, path, t, state);")], 'R07g')
# neutral rewrites
seed('c07-n-rv-lerp-form', 'C07', [(RV, "        rstate->values[i] = rfrom->values[i] + (rto->values[i] - rfrom->values[i]) * t;", "        rstate->values[i] = (1.0 - t) * rfrom->values[i] + t * rto->values[i];")], None)
seed('c07-n-time-local', 'C07', [(TIMC, "    state->as<StateType>()->position =\n        from->as<StateType>()->position + (to->as<StateType>()->position - from->as<StateType>()->position) * t;", "    const double a = from->as<StateType>()->position, b = to->as<StateType>()->position;\n    state->as<StateType>()->position = a + (b - a) * t;")], None)
seed('c07-n-so2-rewrap-reordered', 'C07', [(SO2C, "        if (v > pi)\n            v -= 2.0 * pi;\n        else if (v < -pi)\n            v += 2.0 * pi;\n    }\n}\n\nompl::base::StateSamplerPtr ompl::base::SO2StateSpace::allocDefaultStateSampler", "        if (v < -pi)\n            v += 2.0 * pi;\n        else if (v > pi)\n            v -= 2.0 * pi;\n    }\n}\n\nompl::base::StateSamplerPtr ompl::base::SO2StateSpace::allocDefaultStateSampler")], None)
seed('c07-n-so2-rewrap-upper-inclusive', 'C07', [(SO2C, "        if (v > pi)\n            v -= 2.0 * pi;\n        else if (v < -pi)", "        if (v >= pi)\n            v -= 2.0 * pi;\n        else if (v < -pi)")], None)
seed('c07-so2-rewrap-lower-inclusive', 'C07', [(SO2C, "        else if (v < -pi)\n            v += 2.0 * pi;\n    }\n}\n\nompl::base::StateSamplerPtr ompl::base::SO2StateSpace::allocDefaultStateSampler", "        else if (v <= -pi)\n            v += 2.0 * pi;\n    }\n}\n\nompl::base::StateSamplerPtr ompl::base::SO2StateSpace::allocDefaultStateSampler")], 'R07c')
seed('c07-n-rs-flag-order', 'C07', [(RS, "        path = reedsShepp(from, to);\n        firstTime = false;\n    }\n    interpolate(from, path, t, state);", "        firstTime = false;\n        path = reedsShepp(from, to);\n    }\n    interpolate(from, path, t, state);")], None)

# ---- C14 -------------------------------------------------------------------------------------------------------
seed('c14-exhaustive-skips-lrl', 'C14', [(DUB, "        tmp = dubinsLRL(d, alpha, beta);\n        if ((len = tmp.length()) < minLength)\n            path = tmp;\n        return path;", "        return path;")], 'R14a')
seed('c14-exhaustive-keeps-longer', 'C14', [(DUB, "        tmp = dubinsRSL(d, alpha, beta);\n        if ((len = tmp.length()) < minLength)\n        {", "        tmp = dubinsRSL(d, alpha, beta);\n        if ((len = tmp.length()) > minLength)\n        {")], 'R14a')
seed('c14-exhaustive-min-not-updated', 'C14', [(DUB, "        if ((len = tmp.length()) < minLength)\n        {\n            minLength = len;\n            path = tmp;\n        }\n        tmp = dubinsRSL(d, alpha, beta);", "        if ((len = tmp.length()) < minLength)\n        {\n            path = tmp;\n        }\n        tmp = dubinsRSL(d, alpha, beta);")], 'R14a')
seed('c14-solver-wrong-row', 'C14', [(DUB, "            return DubinsStateSpace::DubinsPath(DubinsStateSpace::dubinsPathType()[2], t, p, q);", "            return DubinsStateSpace::DubinsPath(DubinsStateSpace::dubinsPathType()[3], t, p, q);")], 'R14b')
seed('c14-table-row-swapped', 'C14', [(DUB, "        {{DUBINS_RIGHT, DUBINS_STRAIGHT, DUBINS_LEFT}},\n        {{DUBINS_LEFT, DUBINS_STRAIGHT, DUBINS_RIGHT}},", "        {{DUBINS_LEFT, DUBINS_STRAIGHT, DUBINS_RIGHT}},\n        {{DUBINS_RIGHT, DUBINS_STRAIGHT, DUBINS_LEFT}},")], 'R14b')
seed('c14-symmetric-no-reverse-mark', 'C14', [(DUB, "                path2.reverse_ = true;\n", "")], 'R14c')
seed('c14-symmetric-picks-longer', 'C14', [(DUB, "            if (path2.length() < path.length())\n            {\n                path2.reverse_ = true;", "            if (path2.length() > path.length())\n            {\n                path2.reverse_ = true;")], 'R14c')
seed('c14-rs-interpolate-swapped', 'C14', [(RS, "        path = reedsShepp(from, to);", "        path = reedsShepp(to, from);")], 'R14c')
seed('c14-reverse-right-sign', 'C14', [(DUB, "                    s->setXY(s->getX() - sin(phi + v) + sin(phi), s->getY() + cos(phi + v) - cos(phi));\n                    s->setYaw(phi + v);", "                    s->setXY(s->getX() - sin(phi + v) + sin(phi), s->getY() + cos(phi + v) - cos(phi));\n                    s->setYaw(phi - v);")], 'R14k')
seed('c14-straight-sin-cos-swapped', 'C14', [(RS, "                s->setXY(s->getX() + v * cos(phi), s->getY() + v * sin(phi));", "                s->setXY(s->getX() + v * sin(phi), s->getY() + v * cos(phi));")], 'R14k')
seed('c14-left-arc-chord', 'C14', [(RS, "                s->setXY(s->getX() + sin(phi + v) - sin(phi), s->getY() - cos(phi + v) + cos(phi));\n                s->setYaw(phi + v);", "                s->setXY(s->getX() + v * cos(phi + .5 * v), s->getY() + v * sin(phi + .5 * v));\n                s->setYaw(phi + v);")], 'R14k')
seed('c14-no-radius-scale', 'C14', [(RS, "    state->as<StateType>()->setY(s->getY() * rho_ + from->as<StateType>()->getY());", "    state->as<StateType>()->setY(s->getY() + from->as<StateType>()->getY());")], 'R14k')
seed('c14-rs-no-nop-case', 'C14', [(RS, "            case RS_NOP:\n                break;\n", "")], 'R14d')
seed('c14-helper-sign', 'C14', [(DUB, "        const double theta = atan2f(cb - ca, d + sa - sb);\n        return mod2pi(-alpha + theta);  // t", "        const double theta = atan2f(cb - ca, d - sa + sb);\n        return mod2pi(-alpha + theta);  // t")], 'R14h')
seed('c14-solver-rsr-q', 'C14', [(DUB, "            double q = mod2pi(-beta + theta);\n            assert(fabs(p * cos(alpha - t) + sa - sb - d) < (1 + p) * DUBINS_EPS);", "            double q = mod2pi(beta - theta);\n            assert(fabs(p * cos(alpha - t) + sa - sb - d) < (1 + p) * DUBINS_EPS);")], 'R14m')
seed('c14-cell-a13-word', 'C14', [(DUB, "                if (s_13(d, alpha, beta) < 0.0)\n                {\n                    path = dubinsRSR(d, alpha, beta);\n                }\n                else\n                {\n                    path = dubinsLSR(d, alpha, beta);\n                }", "                if (s_13(d, alpha, beta) < 0.0)\n                {\n                    path = dubinsRSR(d, alpha, beta);\n                }\n                else\n                {\n                    path = dubinsRSL(d, alpha, beta);\n                }")], 'R14m')
seed('c14-cell-a24-test', 'C14', [(DUB, "                if (s_24(d, alpha, beta) < 0.0)\n                {\n                    path = dubinsRSR(d, alpha, beta);\n                }\n                else\n                {\n                    path = dubinsRSL(d, alpha, beta);", "                if (s_14_1(d, alpha, beta) < 0.0)\n                {\n                    path = dubinsRSR(d, alpha, beta);\n                }\n                else\n                {\n                    path = dubinsRSL(d, alpha, beta);")], 'R14m')
seed('c14-rs-timeflip-sign', 'C14', [(RS, "            path = ReedsSheppStateSpace::ReedsSheppPath(ReedsSheppStateSpace::reedsSheppPathType[14], -t, -u, -v);", "            path = ReedsSheppStateSpace::ReedsSheppPath(ReedsSheppStateSpace::reedsSheppPathType[14], -t, u, -v);")], 'R14e')
seed('c14-rs-reflect-row', 'C14', [(RS, "            path = ReedsSheppStateSpace::ReedsSheppPath(ReedsSheppStateSpace::reedsSheppPathType[15], t, u, v);", "            path = ReedsSheppStateSpace::ReedsSheppPath(ReedsSheppStateSpace::reedsSheppPathType[14], t, u, v);")], 'R14e')
seed('c14-rs-reflect-args', 'C14', [(RS, "        if (LpSpLp(x, -y, -phi, t, u, v) && Lmin > (L = fabs(t) + fabs(u) + fabs(v)))  // reflect", "        if (LpSpLp(x, -y, phi, t, u, v) && Lmin > (L = fabs(t) + fabs(u) + fabs(v)))  // reflect")], 'R14e')
seed('c14-rs-total-length-signed', 'C14', [(RS, "    totalLength_ = fabs(t) + fabs(u) + fabs(v) + fabs(w) + fabs(x);", "    totalLength_ = fabs(t) + fabs(u) + fabs(v) + fabs(w) + x;")], 'R14f')
# neutral rewrites
seed('c14-n-exhaustive-le', 'C14', [(DUB, "        tmp = dubinsRLR(d, alpha, beta);\n        if ((len = tmp.length()) < minLength)", "        tmp = dubinsRLR(d, alpha, beta);\n        if ((len = tmp.length()) <= minLength)")], None)
seed('c14-n-straight-commuted', 'C14', [(RS, "                s->setXY(s->getX() + v * cos(phi), s->getY() + v * sin(phi));", "                s->setXY(cos(phi) * v + s->getX(), sin(phi) * v + s->getY());")], None)
seed('c14-n-helper-reordered', 'C14', [(DUB, "        const double theta = atan2f(cb - ca, d + sa - sb);\n        return mod2pi(-alpha + theta);  // t", "        const double theta = atan2f(-ca + cb, sa + d - sb);\n        return mod2pi(theta - alpha);  // t")], None)
seed('c14-n-cell-a13-flipped', 'C14', [(DUB, "                if (s_13(d, alpha, beta) < 0.0)\n                {\n                    path = dubinsRSR(d, alpha, beta);\n                }\n                else\n                {\n                    path = dubinsLSR(d, alpha, beta);\n                }", "                if (s_13(d, alpha, beta) >= 0.0)\n                {\n                    path = dubinsLSR(d, alpha, beta);\n                }\n                else\n                {\n                    path = dubinsRSR(d, alpha, beta);\n                }")], None)

# ---- C15 -------------------------------------------------------------------------------------------------------
PLDC = 'src/ompl/base/samplers/informed/src/PathLengthDirectInfSampler.cpp'
REJC = 'src/ompl/base/samplers/informed/src/RejectionInfSampler.cpp'
ORDC = 'src/ompl/base/samplers/informed/src/OrderedInfSampler.cpp'
INFC = 'src/ompl/base/samplers/src/InformedStateSampler.cpp'
PHSC = 'src/ompl/util/src/ProlateHyperspheroid.cpp'
GEOC = 'src/ompl/util/src/GeometricEquations.cpp'
RNGC = 'src/ompl/util/src/RandomNumbers.cpp'
seed('c15-phs-no-bounds-test', 'C15', [(PLDC, "                    foundSample = InformedSampler::space_->satisfiesBounds(statePtr);\n", "")], 'R15a')
seed('c15-bounds-test-before-write', 'C15', [(PLDC, "                    // Turn into a state of our full space\n                    createFullState(statePtr, informedVector);\n\n                    // Return if the resulting state is in the problem:\n                    foundSample = InformedSampler::space_->satisfiesBounds(statePtr);", "                    foundSample = InformedSampler::space_->satisfiesBounds(statePtr);\n                    createFullState(statePtr, informedVector);")], 'R15a')
seed('c15-base-no-phs-test', 'C15', [(PLDC, "                foundSample = isInAnyPhs(informedVector);\n", "                foundSample = true;\n")], 'R15a')
seed('c15-base-stale-substate', 'C15', [(PLDC, "                // Generate a random sample\n                baseSampler_->sampleUniform(statePtr);\n\n                // The informed substate\n                std::vector<double> informedVector = getInformedSubstate(statePtr);", "                std::vector<double> informedVector = getInformedSubstate(statePtr);\n                baseSampler_->sampleUniform(statePtr);")], 'R15a')
seed('c15-min-bound-dropped', 'C15', [(PLDC, "                    foundSample = InformedSampler::opt_->isCostEquivalentTo(minCost, sampledCost) ||\n                                  InformedSampler::opt_->isCostBetterThan(minCost, sampledCost);", "                    foundSample = InformedSampler::opt_->isCostBetterThan(sampledCost, maxCost);")], 'R15a')
seed('c15-rejection-wrong-bound', 'C15', [(REJC, "                    foundSample = InformedSampler::opt_->isCostEquivalentTo(minCost, sampledCost) ||\n                                  InformedSampler::opt_->isCostBetterThan(minCost, sampledCost);", "                    foundSample = InformedSampler::opt_->isCostEquivalentTo(maxCost, sampledCost) ||\n                                  InformedSampler::opt_->isCostBetterThan(maxCost, sampledCost);")], 'R15a')
seed('c15-ordered-no-cost-test', 'C15', [(ORDC, "                if (InformedSampler::opt_->isCostBetterThan(InformedSampler::heuristicSolnCost(orderedSamples_.top()),\n                                                            maxCost))", "                if (!orderedSamples_.empty())")], 'R15a')
seed('c15-ordered-queue-failed', 'C15', [(ORDC, "                if (infSampler_->sampleUniform(newStatePtr, maxCost))\n                {", "                infSampler_->sampleUniform(newStatePtr, maxCost);\n                {"), (ORDC, "                else\n                {\n                    InformedSampler::space_->freeState(newStatePtr);\n                }\n", "")], 'R15a')
seed('c15-keep-inverted', 'C15', [(PLDC, "                keep = (randDbl <= 1.0 / static_cast<double>(numIn));", "                keep = (randDbl >= 1.0 / static_cast<double>(numIn));")], 'R15b')
seed('c15-keep-count-not-inverse', 'C15', [(PLDC, "                keep = (randDbl <= 1.0 / static_cast<double>(numIn));", "                keep = (randDbl <= 1.0 / static_cast<double>(listPhsPtrs_.size()));")], 'R15b')
seed('c15-measure-first-phs-only', 'C15', [(PLDC, "                    informedMeasure = informedMeasure + phsPtr->getPhsMeasure(currentCost.value());", "                    informedMeasure = listPhsPtrs_.front()->getPhsMeasure(currentCost.value());")], 'R15c')
seed('c15-inclusions-break', 'C15', [(PLDC, "                    ++numInclusions;\n                }", "                    ++numInclusions;\n                    break;\n                }")], 'R15c')
seed('c15-phs-measure-exponent', 'C15', [(GEOC, "    for (unsigned int i = 1u; i < N; ++i)\n    {\n        lmeas = lmeas * conjugateDiameter / 2.0;", "    for (unsigned int i = 0u; i < N; ++i)\n    {\n        lmeas = lmeas * conjugateDiameter / 2.0;")], 'R15d')
seed('c15-conjugate-sum', 'C15', [(PHSC, "    conjugateDiamater = std::sqrt(dataPtr_->transverseDiameter_ * dataPtr_->transverseDiameter_ -\n                                  dataPtr_->minTransverseDiameter_ * dataPtr_->minTransverseDiameter_);", "    conjugateDiamater = std::sqrt(dataPtr_->transverseDiameter_ * dataPtr_->transverseDiameter_ +\n                                  dataPtr_->minTransverseDiameter_ * dataPtr_->minTransverseDiameter_);")], 'R15d')
seed('c15-first-radius-full-diameter', 'C15', [(PHSC, "    diagAsVector(0) = 0.5 * dataPtr_->transverseDiameter_;", "    diagAsVector(0) = dataPtr_->transverseDiameter_;")], 'R15d')
seed('c15-measure-args-swapped', 'C15', [(PHSC, "    return prolateHyperspheroidMeasure(dataPtr_->dim_, dataPtr_->minTransverseDiameter_, tranDiam);", "    return prolateHyperspheroidMeasure(dataPtr_->dim_, tranDiam, dataPtr_->minTransverseDiameter_);")], 'R15d')
seed('c15-in-phs-nonstrict', 'C15', [(PHSC, "    return (getPathLength(point) < dataPtr_->transverseDiameter_);", "    return (getPathLength(point) <= dataPtr_->transverseDiameter_);")], 'R15e')
seed('c15-pathlength-one-focus', 'C15', [(PHSC, "           (Eigen::Map<const Eigen::VectorXd>(point, dataPtr_->dim_) - dataPtr_->xFocus2_).norm();", "           (Eigen::Map<const Eigen::VectorXd>(point, dataPtr_->dim_) - dataPtr_->xFocus1_).norm();")], 'R15e')
seed('c15-flag-before-transform', 'C15', [(PHSC, "    // Calculate the transformation matrix\n    dataPtr_->transformationWorldFromEllipse_ = dataPtr_->rotationWorldFromEllipse_ * diagAsVector.asDiagonal();", "    dataPtr_->isTransformUpToDate_ = true;\n    if (dataPtr_->dim_ == 0u)\n        return;\n    dataPtr_->transformationWorldFromEllipse_ = dataPtr_->rotationWorldFromEllipse_ * diagAsVector.asDiagonal();")], 'R15f')
seed('c15-diameter-without-update', 'C15', [(PHSC, "        // Update the transform\n        updateTransformation();\n", "")], 'R15f')
seed('c15-ball-radius-linear', 'C15', [(RNGC, "    double radiusScale = r * std::pow(uniformReal(0.0, 1.0), 1.0 / static_cast<double>(v.size()));", "    double radiusScale = r * uniformReal(0.0, 1.0);")], 'R15g')
seed('c15-phs-from-surface', 'C15', [(RNGC, "    // Get a random point in the sphere\n    uniformInBall(1.0, sphere);", "    // Get a random point in the sphere\n    uniformNormalVector(sphere);")], 'R15g')
# neutral rewrites
seed('c15-n-phs-test-local', 'C15', [(PLDC, "                    foundSample = InformedSampler::space_->satisfiesBounds(statePtr);\n", "                    const bool inside = InformedSampler::space_->satisfiesBounds(statePtr);\n                    foundSample = inside;\n")], None)
seed('c15-n-measure-commuted', 'C15', [(GEOC, "    lmeas = dTransverse / 2.0;", "    lmeas = 0.5 * dTransverse;")], None)
seed('c15-n-keep-gt', 'C15', [(PLDC, "                keep = (randDbl <= 1.0 / static_cast<double>(numIn));", "                keep = !(randDbl > 1.0 / static_cast<double>(numIn));")], None)

# ---- C16 -------------------------------------------------------------------------------------------------------
PSS = 'src/ompl/base/spaces/constraint/src/ProjectedStateSpace.cpp'
ASS = 'src/ompl/base/spaces/constraint/src/AtlasStateSpace.cpp'
CSS = 'src/ompl/base/spaces/constraint/src/ConstrainedStateSpace.cpp'
TBS = 'src/ompl/base/spaces/constraint/src/TangentBundleStateSpace.cpp'
ACH = 'src/ompl/base/spaces/constraint/src/AtlasChart.cpp'
CON = 'src/ompl/base/src/Constraint.cpp'
seed('c16-projected-no-project', 'C16', [(PSS, "        if (!constraint_->project(scratch)                  // not on manifold\n            || !(interpolate || svc->isValid(scratch))      // not valid", "        if (!(interpolate || svc->isValid(scratch))      // not valid")], 'R16a')
seed('c16-projected-verdict-ignored', 'C16', [(PSS, "        if (!constraint_->project(scratch)                  // not on manifold\n            || !(interpolate || svc->isValid(scratch))      // not valid", "        constraint_->project(scratch);\n        if (!(interpolate || svc->isValid(scratch))      // not valid")], 'R16a')
seed('c16-projected-no-step-bound', 'C16', [(PSS, "            || (step = distance(previous, scratch)) > lambda_ * delta_)  // deviated\n            break;", "            )\n            break;\n        step = distance(previous, scratch);")], 'R16a')
seed('c16-atlas-push-temp-after-phi', 'C16', [(ASS, "        if (geodesic != nullptr)\n            geodesic->push_back(cloneState(scratch));\n\n    } while (!done);", "        if (geodesic != nullptr)\n            geodesic->push_back(cloneState(temp));\n\n    } while (!done);")], 'R16a')
seed('c16-atlas-step-not-tested', 'C16', [(ASS, "        if (exceedStepSize)\n        {\n            factor *= backoff_;\n            continue;\n        }", "        if (exceedStepSize && factor > 2.0)\n        {\n            factor *= backoff_;\n            continue;\n        }")], 'R16a')
seed('c16-projected-success-lambda', 'C16', [(PSS, "    return dist <= tolerance;\n}", "    return dist <= lambda_;\n}")], 'R16a')
seed('c16-validator-no-satisfied', 'C16', [(CSS, "    return ss_.getConstraint()->isSatisfied(s2) && ss_.discreteGeodesic(s1, s2, false);", "    return ss_.discreteGeodesic(s1, s2, false);")], 'R16b')
seed('c16-validator-or', 'C16', [(CSS, "    return ss_.getConstraint()->isSatisfied(s2) && reached;", "    return ss_.getConstraint()->isSatisfied(s2) || reached;")], 'R16b')
seed('c16-interpolate-ignores-failure', 'C16', [(CSS, "    if (discreteGeodesic(from, to, true, &geodesic))\n        temp = geodesicInterpolate(geodesic, t);", "    discreteGeodesic(from, to, true, &geodesic);\n    if (!geodesic.empty())\n        temp = geodesicInterpolate(geodesic, t);")], 'R16c')
seed('c16-interpolate-defaults-to', 'C16', [(CSS, "    auto temp = from;\n    if (discreteGeodesic(from, to, true, &geodesic))", "    auto temp = to;\n    if (discreteGeodesic(from, to, true, &geodesic))")], 'R16c')
seed('c16-tb-returns-unprojected', 'C16', [(TBS, "    if (!project(state))\n        return geodesic[0];\n\n    return state;", "    project(state);\n    return state;")], 'R16c')
seed('c16-atlas-near-no-fallback', 'C16', [(ASS, "                  \"Took too long; returning initial point.\");\n        atlas_->copyState(state, near);", "                  \"Took too long; returning initial point.\");")], 'R16d')
seed('c16-atlas-gaussian-tries-1', 'C16', [(ASS, "    if (tries == 0)\n    {\n        OMPL_WARN(\"ompl::base::AtlasStateSpace::sampleUniforGaussian(): \"", "    if (tries == 1)\n    {\n        OMPL_WARN(\"ompl::base::AtlasStateSpace::sampleUniforGaussian(): \"")], 'R16d')
seed('c16-atlas-uniform-predec', 'C16', [(ASS, "        } while (tries-- > 0 && !c->inPolytope(ru));\n\n        // Project. Will need to try again if this fails.\n    } while (tries > 0 && !c->psi(ru, *astate));", "        } while (tries-- > 0 && !c->inPolytope(ru));\n\n        // Project. Will need to try again if this fails.\n    } while (tries >= 0 && tries < 1000 && !c->psi(ru, *astate));")], 'R16d')
seed('c16-projected-sampler-no-project', 'C16', [(PSS, "    WrapperStateSampler::sampleUniform(state);\n    constraint_->project(state);", "    WrapperStateSampler::sampleUniform(state);")], 'R16d')
seed('c16-satisfied-unsquared', 'C16', [(CON, "    return f.allFinite() && f.squaredNorm() <= tolerance_ * tolerance_;", "    return f.allFinite() && f.squaredNorm() <= tolerance_;")], 'R16e')
seed('c16-project-norm-vs-squared', 'C16', [(CON, "    while ((norm = f.squaredNorm()) > squaredTolerance && iter++ < maxIterations_)", "    while ((norm = f.norm()) > squaredTolerance && iter++ < maxIterations_)")], 'R16e')
seed('c16-project-no-reevaluation', 'C16', [(CON, "        x -= j.jacobiSvd(Eigen::ComputeThinU | Eigen::ComputeThinV).solve(f);\n        function(x, f);\n    }", "        x -= j.jacobiSvd(Eigen::ComputeThinU | Eigen::ComputeThinV).solve(f);\n        if (iter >= maxIterations_)\n            break;\n        function(x, f);\n    }")], 'R16f')
seed('c16-psi-update-after-norm', 'C16', [(ACH, "    return norm < squaredTolerance;\n}", "    out -= 0.5 * (out - x0);\n    return norm < squaredTolerance;\n}")], 'R16f')
# neutral rewrites
seed('c16-n-projected-named-verdict', 'C16', [(PSS, "        if (!constraint_->project(scratch)                  // not on manifold\n            || !(interpolate || svc->isValid(scratch))      // not valid", "        const bool onManifold = constraint_->project(scratch);\n        if (!onManifold                  // not on manifold\n            || !(interpolate || svc->isValid(scratch))      // not valid")], None)
seed('c16-n-validator-commuted', 'C16', [(CSS, "    return ss_.getConstraint()->isSatisfied(s2) && reached;", "    return reached && ss_.getConstraint()->isSatisfied(s2);")], None)
seed('c16-n-satisfied-local-square', 'C16', [(CON, "    return f.allFinite() && f.squaredNorm() <= tolerance_ * tolerance_;", "    const double squaredTolerance = tolerance_ * tolerance_;\n    return f.allFinite() && f.squaredNorm() <= squaredTolerance;")], None)

# ---- C20 -------------------------------------------------------------------------------------------------------
RRTC = 'src/ompl/geometric/planners/rrt/src/RRT.cpp'
ESTC = 'src/ompl/geometric/planners/est/src/EST.cpp'
KPH = 'src/ompl/control/planners/kpiece/KPIECE1.h'
seed('c20-second-entropy-source', 'C20', [(RNGC, "ompl::RNG::RNG(std::uint_fast32_t localSeed)\n  : localSeed_(localSeed), generator_(localSeed_)", "ompl::RNG::RNG(std::uint_fast32_t localSeed)\n  : localSeed_(localSeed), generator_(localSeed_ + std::random_device()())")], 'R20a')
seed('c20-planner-reseeds-from-clock', 'C20', [(RRTC, "    sampler_.reset();\n", "    sampler_.reset();\n    rng_.setLocalSeed(std::chrono::steady_clock::now().time_since_epoch().count());\n", 0)], 'R20a')
seed('c20-rng-default-fixed-seed', 'C20', [(RNGC, "  : localSeed_(getRNGSeedGenerator().nextSeed())", "  : localSeed_(getRNGSeedGenerator().firstSeed())")], 'R20b')
seed('c20-nextseed-no-mark', 'C20', [(RNGC, "            someSeedsGenerated_ = true;\n", "")], 'R20b')
seed('c20-setseed-always-first', 'C20', [(RNGC, "                else\n                {\n                    // In this case, since no seeds have been generated yet, so we remember this seed as the first one.\n                    firstSeed_ = seed;\n                }", "                firstSeed_ = seed;")], 'R20b')
seed('c20-setseed-no-lock', 'C20', [(RNGC, "        void setSeed(std::uint_fast32_t seed)\n        {\n            std::lock_guard<std::mutex> slock(rngMutex_);", "        void setSeed(std::uint_fast32_t seed)\n        {")], 'R20b')
seed('c20-localseed-no-reseed', 'C20', [(RNGC, "    // Change the generator's seed\n    generator_.seed(localSeed_);\n", "")], 'R20b')
seed('c20-localseed-no-spherical-reset', 'C20', [(RNGC, "    normalDist_.reset();\n    sphericalDataPtr_->reset();", "    normalDist_.reset();")], 'R20b')
seed('c20-zero-seed-from-clock', 'C20', [(RNGC, "                OMPL_WARN(\"Random generator seed cannot be 0. Using 1 instead.\");\n                seed = 1;", "                OMPL_WARN(\"Random generator seed cannot be 0. Using the clock instead.\");\n                seed = firstSeed_;")], 'R20b')
seed('c20-rrt-time-budgeted-bias', 'C20', [(RRTC, "    while (!ptc)\n    {\n        /* sample random state (with goal biasing) */", "    const time::point t0 = time::now();\n    while (!ptc)\n    {\n        if (time::seconds(time::now() - t0) > 0.25)\n            goalBias_ = 0.5;\n        /* sample random state (with goal biasing) */")], 'R20c')
seed('c20-est-inner-timed-ptc', 'C20', [(ESTC, "    while (!ptc)\n    {", "    const base::PlannerTerminationCondition slice = base::timedPlannerTerminationCondition(0.05);\n    while (!ptc && !slice)\n    {", 0)], 'R20c')
seed('c20-kpiece-importance-uninit', 'C20', [(KPH, "                double importance{0.0};", "                double importance;")], 'R20e')
# neutral rewrites
seed('c20-n-rrt-timing-log', 'C20', [(RRTC, "    while (!ptc)\n    {\n        /* sample random state (with goal biasing) */", "    const time::point t0 = time::now();\n    OMPL_DEBUG(\"%s: entering the main loop after %f s\", getName().c_str(), time::seconds(time::now() - t0));\n    while (!ptc)\n    {\n        /* sample random state (with goal biasing) */")], None)
seed('c20-n-localseed-order', 'C20', [(RNGC, "    uniDist_.reset();\n    normalDist_.reset();\n    sphericalDataPtr_->reset();", "    sphericalDataPtr_->reset();\n    normalDist_.reset();\n    uniDist_.reset();")], None)

# ---- added after the blind round 2 ---------------------------------------------------------------------------------
seed('c15-bounds-draw-thinned', 'C15', [(PLDC, "                foundSample = isInAnyPhs(informedVector);\n", "                foundSample = isInAnyPhs(informedVector) && keepSample(informedVector);\n")], 'R15a')
seed('c15-phs-draw-not-thinned', 'C15', [(PLDC, "                foundSample = keepSample(informedVector);\n", "                foundSample = true;\n")], 'R15a')
seed('c15-diameter-tolerance', 'C15', [(PHSC, "    if (dataPtr_->transverseDiameter_ != transverseDiameter)", "    if (std::abs(dataPtr_->transverseDiameter_ - transverseDiameter) > 1E-9)")], 'R15f')
seed('c15-n-diameter-negated-eq', 'C15', [(PHSC, "    if (dataPtr_->transverseDiameter_ != transverseDiameter)", "    if (!(dataPtr_->transverseDiameter_ == transverseDiameter))")], None)
seed('c17-perturb-loop-start-unconditional', 'C17', [(PSC, "        int posTemp = (index_before >= 0) ? index_before : pos_before + 1;", "        int posTemp = pos_before;")], 'R17f')
seed('c06-so2-extent-half', 'C06', [(SO2C, "double ompl::base::SO2StateSpace::getMaximumExtent() const\n{\n    return pi;", "double ompl::base::SO2StateSpace::getMaximumExtent() const\n{\n    return .5 * pi;")], 'R06g')
seed('c06-discrete-extent-off-by-one', 'C06', [('src/ompl/base/spaces/src/DiscreteStateSpace.cpp', "    return upperBound_ - lowerBound_;\n}\n\ndouble ompl::base::DiscreteStateSpace::getMeasure", "    return upperBound_ - lowerBound_ - 1;\n}\n\ndouble ompl::base::DiscreteStateSpace::getMeasure")], 'R06g')
seed('c06-so3-extent-quarter', 'C06', [(SO3C, "    return .5 * pi;\n}", "    return .25 * pi;\n}")], 'R06g')
seed('c06-so2-no-wrap', 'C06', [(SO2C, "    return (d > pi) ? 2.0 * pi - d : d;", "    return d;")], 'R06g')
seed('c06-n-so2-extent-expr', 'C06', [(SO2C, "double ompl::base::SO2StateSpace::getMaximumExtent() const\n{\n    return pi;", "double ompl::base::SO2StateSpace::getMaximumExtent() const\n{\n    return 2.0 * pi / 2.0;")], None)
seed('c06-n-time-extent-larger', 'C06', [('src/ompl/base/spaces/src/TimeStateSpace.cpp', "    return bounded_ ? maxTime_ - minTime_ : 1.0;", "    return bounded_ ? 2.0 * (maxTime_ - minTime_) : 1.0;")], None)
seed('c06-time-bounded-extent-half', 'C06', [('src/ompl/base/spaces/src/TimeStateSpace.cpp', "    return bounded_ ? maxTime_ - minTime_ : 1.0;", "    return bounded_ ? 0.5 * (maxTime_ - minTime_) : 1.0;")], 'R06g')
RRTS = 'src/ompl/geometric/planners/rrt/src/RRTstar.cpp'
RRTCC = 'src/ompl/geometric/planners/rrt/src/RRTConnect.cpp'
BITRRT = 'src/ompl/geometric/planners/rrt/src/BiTRRT.cpp'
seed('c04-rrtstar-rewire-inccost-lost', 'C04', [(RRTS, "                            nbh[i]->incCost = nbhIncCost;\n", "")], 'R04f')
seed('c04-rrtstar-delaycc-cost-lost', 'C04', [(RRTS, "                        motion->cost = costs[*i];\n", "")], 'R04f')
seed('c04-n-rrtstar-triple-reordered', 'C04', [(RRTS, "                            nbh[i]->parent = motion;\n                            nbh[i]->incCost = nbhIncCost;\n                            nbh[i]->cost = nbhNewCost;", "                            nbh[i]->incCost = nbhIncCost;\n                            nbh[i]->cost = nbhNewCost;\n                            nbh[i]->parent = motion;")], None)
seed('c01-bitrrt-no-reload', 'C01', [(BITRRT, "            nearest = next;\n\n            // xmotion may get trashed during extension, so we reload it here\n            si_->copyState(xmotion->state,\n                           nmotion->state);  // xmotion may get trashed during extension, so we reload it here", "            nearest = next;")], 'R01j')
seed('c01-n-bitrrt-reload-at-top', 'C01', [(BITRRT, "        // This function MAY trash xmotion\n        result = extendTree(nearest, tree, xmotion, next);", "        si_->copyState(xmotion->state, nmotion->state);\n        result = extendTree(nearest, tree, xmotion, next);")], None)
seed('c01-rrtconnect-flip-dropped', 'C01', [(RRTCC, "            if (gsc == TRAPPED)\n                tgi.start = !tgi.start;\n", "")], 'R01k')
seed('c01-rrtconnect-flip-on-advanced', 'C01', [(RRTCC, "            if (gsc == TRAPPED)\n                tgi.start = !tgi.start;\n", "            if (gsc == ADVANCED)\n                tgi.start = !tgi.start;\n")], 'R01k')
seed('c01-n-rrtconnect-named-trapped', 'C01', [(RRTCC, "            if (gsc == TRAPPED)\n                tgi.start = !tgi.start;\n", "            const bool trapped = (gsc == TRAPPED);\n            if (trapped)\n                tgi.start = !tgi.start;\n")], None)
seed('c03-rrtstar-prune-chains-dropped', 'C03', [(RRTS, "        for (const auto &r : chainsToRecheck)\n            // Add the motion back to the NN struct:\n            nn_->add(r);\n", "")], 'R03j')
seed('c03-n-rrtstar-prune-chains-while', 'C03', [(RRTS, "        for (const auto &r : chainsToRecheck)\n            // Add the motion back to the NN struct:\n            nn_->add(r);\n", "        while (!chainsToRecheck.empty())\n        {\n            nn_->add(chainsToRecheck.front());\n            chainsToRecheck.pop_front();\n        }\n")], None)
seed('c03-rrtconnect-flip-dropped', 'C03', [(RRTCC, "            if (gsc == TRAPPED)\n                tgi.start = !tgi.start;\n", "")], 'R03k')
seed('c04-rrtstar-rewire-no-child-push', 'C04', [(RRTS, "                            nbh[i]->parent->children.push_back(nbh[i]);\n", "")], 'R04g')
seed('c04-rrtstar-rewire-no-detach', 'C04', [(RRTS, "                            // Remove this node from its parent list\n                            removeFromParent(nbh[i]);\n", "")], 'R04g')

# ---- round-3 batch B rules ----------------------------------------------------------------------------------------
SBLC = 'src/ompl/geometric/planners/sbl/src/SBL.cpp'
APSC = 'src/ompl/geometric/planners/AnytimePathShortening.cpp'
RRTX = 'src/ompl/geometric/planners/rrt/src/RRTXstatic.cpp'
EITC = 'src/ompl/geometric/planners/informedtrees/src/EITstar.cpp'
AITC = 'src/ompl/geometric/planners/informedtrees/src/AITstar.cpp'
PDFH = 'src/ompl/datastructures/PDF.h'
GRIDB = 'src/ompl/datastructures/GridB.h'
seed('c01-sbl-junction-not-validated', 'C01', [(SBLC, "if (isPathValid(tree, connect) && isPathValid(otherTree, connectOther))", "if (isPathValid(tree, motion) && isPathValid(otherTree, connectOther))")], 'R01l')
seed('c01-n-sbl-junction-order', 'C01', [(SBLC, "if (isPathValid(tree, connect) && isPathValid(otherTree, connectOther))", "if (isPathValid(otherTree, connectOther) && isPathValid(tree, connect))")], None)
seed('c01-aps-status-bool', 'C01', [(APSC, "if (status == base::PlannerStatus::EXACT_SOLUTION)", "if (status)")], 'R01m')
seed('c01-n-aps-status-yoda', 'C01', [(APSC, "if (status == base::PlannerStatus::EXACT_SOLUTION)", "if (base::PlannerStatus::EXACT_SOLUTION == status)")], None)
seed('c04-rrtx-select-vs-incumbent', 'C04', [(RRTX, "opt_->isCostBetterThan(goalMotion->cost, solution->cost)", "opt_->isCostBetterThan(goalMotion->cost, bestCost_)")], 'R04h')
seed('c04-n-rrtstar-select-reordered', 'C04', [(RRTS, "                            bestGoalMotion_ = goalMotion;\n                            bestCost_ = bestGoalMotion_->cost;", "                            bestCost_ = goalMotion->cost;\n                            bestGoalMotion_ = goalMotion;")], None)
seed('c04-eit-edge-best-estimate', 'C04', [(EITC, "const auto edgeCost = objective_->motionCost(edge.source->raw(), edge.target->raw());", "const auto edgeCost = objective_->motionCostBestEstimate(edge.source->raw(), edge.target->raw());")], 'R04i')
seed('c04-ait-edge-heuristic', 'C04', [(AITC, "const auto edgeCost = objective_->motionCost(parent->getState(), child->getState());", "const auto edgeCost = objective_->motionCostHeuristic(parent->getState(), child->getState());")], 'R04i')
seed('c04-rrtstar-inccosts-heuristic', 'C04', [(RRTS, "incCosts[i] = opt_->motionCost(nbh[i]->state, motion->state);", "incCosts[i] = opt_->motionCostHeuristic(nbh[i]->state, motion->state);", 0)], 'R04i')
seed('c04-n-eit-edge-via-local', 'C04', [(EITC, "const auto edgeCost = objective_->motionCost(edge.source->raw(), edge.target->raw());", "const auto trueCost = objective_->motionCost(edge.source->raw(), edge.target->raw());\n                const auto edgeCost = trueCost;")], None)
seed('c18-window-average-unwindowed', 'C18', [(CCT, "double newCost = ((solutions - 1) * averageCost_ + solutionCost.value()) / solutions;", "double newCost = ((solutions_ - 1) * averageCost_ + solutionCost.value()) / solutions_;")], 'R18g')
seed('c18-n-window-average-commuted', 'C18', [(CCT, "double newCost = ((solutions - 1) * averageCost_ + solutionCost.value()) / solutions;", "double newCost = (solutionCost.value() + averageCost_ * (solutions - 1)) / solutions;")], None)
seed('c19-period-first', 'C19', [(PTC, "                if (terminate_)\n                    return true;\n                if (period_ > 0.0)\n                    return evalValue_;", "                if (period_ > 0.0)\n                    return evalValue_;\n                if (terminate_)\n                    return true;")], 'R19f')
seed('c12-sibling-parity-lost', 'C12', [(PDFH, "if (index + 2 == data_.size() && index % 2 == 0)", "if (index + 2 == data_.size())")], 'R12c')
seed('c13-border-by-maxneighbors', 'C13', [(GRIDB, "if (!c->border && c->neighbors < GridN<_T>::interiorCellNeighborsLimit_)", "if (!c->border && c->neighbors < GridN<_T>::maxNeighbors_)")], 'R13b')
PRMC = 'src/ompl/geometric/planners/prm/src/PRM.cpp'
FMTC = 'src/ompl/geometric/planners/fmt/src/FMT.cpp'
GSST = 'src/ompl/geometric/planners/sst/src/SST.cpp'
seed('c04-prm-argmin-bound-not-updated', 'C04', [(PRMC, "                        solution = p;\n                        sol_cost = pathCost;\n", "                        solution = p;\n")], 'R04e')
seed('c04-fmt-bestparent-heuristic', 'C04', [(FMTC, "const base::Cost dist = opt_->motionCost(s, m->getState());", "const base::Cost dist = opt_->motionCostHeuristic(s, m->getState());")], 'R04i')
seed('c04-sst-inccost-heuristic', 'C04', [(GSST, "base::Cost incCost = opt_->motionCost(nmotion->state_, rstate);", "base::Cost incCost = opt_->motionCostHeuristic(nmotion->state_, rstate);")], 'R04i')
VFRC = 'src/ompl/geometric/planners/rrt/src/VFRRT.cpp'
seed('c03-rrtconnect-clear-keeps-tree-distance', 'C03', [(RRTCC, "    distanceBetweenTrees_ = std::numeric_limits<double>::infinity();\n}\n\nompl::geometric::RRTConnect::GrowState", "}\n\nompl::geometric::RRTConnect::GrowState")], 'R03l')
seed('c03-fmt-clear-keeps-open-set', 'C03', [(FMTC, "    Open_.clear();\n    neighborhoods_.clear();\n\n    collisionChecks_ = 0;", "    neighborhoods_.clear();\n\n    collisionChecks_ = 0;")], 'R03l')
seed('c03-vfrrt-clear-keeps-lambda', 'C03', [(VFRC, "    lambda_ = initialLambda_;\n", "")], 'R03l')
seed('c03-n-vfrrt-clear-reordered', 'C03', [(VFRC, "    lambda_ = initialLambda_;\n    step_ = 0;\n", "    step_ = 0;\n    lambda_ = initialLambda_;\n")], None)

# ---- round-4 rules ------------------------------------------------------------------------------------------------
LBTC = 'src/ompl/geometric/planners/rrt/src/LBTRRT.cpp'
PLNC = 'src/ompl/base/src/Planner.cpp'
GPDST = 'src/ompl/geometric/planners/pdst/src/PDST.cpp'
AITG = 'src/ompl/geometric/planners/informedtrees/aitstar/src/ImplicitGraph.cpp'
EITG = 'src/ompl/geometric/planners/informedtrees/eitstar/src/RandomGeometricGraph.cpp'
BITC = 'src/ompl/geometric/planners/informedtrees/src/BITstar.cpp'
PCC = 'src/ompl/control/src/PathControl.cpp'
CSI = 'src/ompl/control/src/SpaceInformation.cpp'
PGC = 'src/ompl/geometric/src/PathGeometric.cpp'
PSC = 'src/ompl/geometric/src/PathSimplifier.cpp'
seed('c01-lbtrrt-checks-other-pair', 'C01', [(LBTC, "            if (checkMotion(potential_parent, motion))", "            if (checkMotion(parent, motion))")], 'R01n')
seed('c01-prm-walk-keeps-start-vertex', 'C01', [(PRMC, "                nn_->add(m);\n                v = m;\n", "                nn_->add(m);\n")], 'R01o')
seed('c02-interpolate-truncates-steps', 'C02', [(PCC, "auto steps = (int)floor(0.5 + controlDurations_[i] / res);", "auto steps = (int)(controlDurations_[i] / res);")], 'R02h')
seed('c02-propagate-one-long-step', 'C02', [(CSI, "        statePropagator_->propagate(state, control, signedStepSize, result);\n        for (int i = 1; i < steps; ++i)\n            statePropagator_->propagate(result, control, signedStepSize, result);", "        statePropagator_->propagate(state, control, steps * signedStepSize, result);")], 'R02i')
seed('c03-nextgoal-inner-loop-ignores-ptc', 'C03', [(PLNC, "} while (!ptc && sampledGoalsCount_ < goal->maxSampleCount() && goal->canSample());", "} while (sampledGoalsCount_ < goal->maxSampleCount() && goal->canSample());")], 'R03m')
seed('c03-pdst-remeasure-wrong-variable', 'C03', [(GPDST, "!goal->isSatisfied(lastGoalMotion_->endState_, &closestDistanceToGoal);", "!goal->isSatisfied(lastGoalMotion_->endState_, &distanceToGoal);")], 'R03n')
seed('c03-ait-graph-clear-keeps-pruned-goals', 'C03', [(AITG, "                prunedGoalVertices_.clear();\n                numSampledStates_ = 0u;", "                numSampledStates_ = 0u;")], 'R03o')
seed('c03-ait-graph-clear-keeps-batch', 'C03', [(AITG, "                vertices_.clear();\n                newSamples_.clear();\n", "                vertices_.clear();\n")], 'R03o')
seed('c03-eit-invalid-sample-kept-on-interrupt', 'C03', [(EITG, "                    if (!foundValidSample)\n                    {\n                        return nullptr;\n                    }\n", "")], 'R03p')
seed('c03-n-eit-reject-loop-positive-test', 'C03', [(EITG, "                    if (!foundValidSample)\n                    {\n                        return nullptr;\n                    }\n", "                    if (foundValidSample == false)\n                    {\n                        return nullptr;\n                    }\n")], None)
seed('c04-bitstar-cost-without-goal', 'C04', [(BITC, "                                // It is! Save this as a better goal:\n                                goalUpdated = true;\n                                newBestGoal = *it;\n                                newCost = newBestGoal->getCost();", "                                // It is! Save this as a better goal:\n                                goalUpdated = true;\n                                newCost = (*it)->getCost();")], 'R04j')
seed('c04-lbtrrt-apx-from-lb', 'C04', [(LBTC, "    child->costApx_ = parent->costApx_ + dist;", "    child->costApx_ = parent->costLb_ + dist;")], 'R04k')
seed('c17-repair-accepts-without-outgoing-check', 'C17', [(PGC, "                    if (si_->checkMotion(states_[i - 1], states_[i]) &&\n                        // the penultimate state needs an additional check\n                        // (see comment at the top of outermost for-loop)\n                        (i < n1 - 1 || si_->checkMotion(states_[i], states_[i + 1])))", "                    if (si_->checkMotion(states_[i - 1], states_[i]))")], 'R17i')
seed('c17-n-repair-acceptance-demorgan', 'C17', [(PGC, "                    if (si_->checkMotion(states_[i - 1], states_[i]) &&\n                        // the penultimate state needs an additional check\n                        // (see comment at the top of outermost for-loop)\n                        (i < n1 - 1 || si_->checkMotion(states_[i], states_[i + 1])))", "                    if (!(!si_->checkMotion(states_[i - 1], states_[i]) ||\n                          (i == n1 - 1 && !si_->checkMotion(states_[i], states_[i + 1]))))")], None)
seed('c17-partial-shortcut-opening-piece-reversed', 'C17', [(PSC, "obj_->motionCost(s0, states[pos0 + 1]);", "obj_->motionCost(states[pos0], s0);")], 'R17f')
seed('c05-dubins3d-scratch-in-caller-storage', 'C05', [(D3, "                State *test = si_->allocState();\n\n                for (int j = 1; j < nd; ++j)", "                State *test = (lastValid.first != nullptr) ? lastValid.first : si_->allocState();\n\n                for (int j = 1; j < nd; ++j)")], 'R05b')
GNATH = 'src/ompl/datastructures/NearestNeighborsGNAT.h'
GNATN = 'src/ompl/datastructures/NearestNeighborsGNATNoThreadSafety.h'
seed('c10-gnat-leaf-reserve-capacity-only', 'C10', [(GNATH, "data_.reserve(std::max((unsigned int)capacity, degree_) + 1);", "data_.reserve(capacity + 1);")], 'R10h')
seed('c10-gnatnts-child-reserve-dropped', 'C10', [(GNATN, "                    child->data_.reserve(std::max(gnat.maxNumPtsPerLeaf_, child->degree_) + 1);\n", "")], 'R10h')
seed('c10-n-gnat-leaf-reserve-commuted', 'C10', [(GNATH, "data_.reserve(std::max((unsigned int)capacity, degree_) + 1);", "data_.reserve(std::max(degree_, (unsigned int)capacity) + 1);")], None)

# ---- round-4 rules --------------------------------------------------------------------------------------------------
# R01q: EIT* multi-resolution check interpreted over a finite domain
seed('c01-eit-skip-guard-ge', 'C01', [(EITC, "                if (currentCheck > performedChecks)", "                if (currentCheck >= performedChecks + 2u)")], 'R01q')
seed('c01-eit-levelup-double', 'C01', [(EITC, "numSparseCollisionChecksCurrentLevel_ = (2u * numSparseCollisionChecksPreviousLevel_) + 1u;", "numSparseCollisionChecksCurrentLevel_ = (2u * numSparseCollisionChecksPreviousLevel_) + 2u;")], 'R01q')
seed('c01-eit-whitelist-always', 'C01', [(EITC, "            if (segmentCount == fullSegmentCount)\n            {\n                ++numCollisionCheckedEdges_;", "            if (segmentCount <= fullSegmentCount)\n            {\n                ++numCollisionCheckedEdges_;")], 'R01q')
seed('c01-eit-stored-resolution-plus-one', 'C01', [(EITC, "            edge.source->setIncomingCollisionCheckResolution(edge.target, currentCheck - 1u);\n            edge.target->setIncomingCollisionCheckResolution(edge.source, currentCheck - 1u);", "            edge.source->setIncomingCollisionCheckResolution(edge.target, currentCheck + 1u);\n            edge.target->setIncomingCollisionCheckResolution(edge.source, currentCheck + 1u);")], 'R01q')
seed('c01-eit-invalid-not-blacklisted-back', 'C01', [(EITC, "                        edge.source->blacklist(edge.target);\n                        edge.target->blacklist(edge.source);\n", "                        edge.source->blacklist(edge.target);\n")], 'R01q')
seed('c01-eit-setter-identity', 'C01', [(EITC, "            initialNumSparseCollisionChecks_ = nestedNumChecks;\n            numSparseCollisionChecksCurrentLevel_ = nestedNumChecks;", "            initialNumSparseCollisionChecks_ = numChecks;\n            numSparseCollisionChecksCurrentLevel_ = numChecks;")], 'R01q')
seed('c01-n-eit-mid-roundup-free', 'C01', [(EITC, "                if (currentCheck > performedChecks)", "                if (performedChecks < currentCheck)")], None)
# R01p: informed-tree admission
seed('c01-bit-addedge-before-check', 'C01', [(BITC, "                            if (this->checkEdge(edge))\n                            {", "                            if (this->checkEdge(edge) || edge.first->isRoot())\n                            {")], 'R01p')
seed('c01-ait-link-without-verdict', 'C01', [(AITC, "                if (parent->isWhitelistedAsChild(child) ||\n                    motionValidator_->checkMotion(parent->getState(), child->getState()))", "                if (parent->isWhitelistedAsChild(child) || child->isWhitelistedAsChild(parent) ||\n                    motionValidator_->checkMotion(parent->getState(), child->getState()))")], 'R01p')
seed('c01-eit-link-before-isvalid', 'C01', [(EITC, "            if (isValid(edge))\n            {\n                // Compute the true edge cost and the target cost through this edge.", "            if (isValid(edge) || couldBeValid(edge))\n            {\n                // Compute the true edge cost and the target cost through this edge.")], 'R01p')
# R01r: validated-prefix target
seed('c01-kpiece-prefix-target-other', 'C01', [(KPI, "        std::pair<base::State *, double> fail(xstate, 0.0);", "        std::pair<base::State *, double> fail(existing->state, 0.0);")], 'R01r')
seed('c01-n-bounce-target-via-local', 'C01', [(SI, "        lastValid.first = states[j];\n", "        State *candidate = states[j];\n        lastValid.first = states[j];\n        (void)candidate;\n")], None)
# R01s / R04j generalised
seed('c04-prm-approx-flag-dropped', 'C04', [(PRMC, "                closestVal = heuristicCost;\n                approxPathJustStart = true;", "                closestVal = heuristicCost;")], 'R04j')
# R03q
seed('c03-thunder-repair-not-cleared', 'C03', [('src/ompl/geometric/planners/experience/src/ThunderRetrieveRepair.cpp', "            repairProblemDef_->clearSolutionPaths();\n", "")], 'R03q')
# R04l / R04m
seed('c04-rrtstar-rewire-inccost-reversed', 'C04', [(RRTS, "                            nbh[i]->incCost = nbhIncCost;", "                            nbh[i]->incCost = incCosts[i];")], 'R04l')
seed('c04-n-rrtstar-inccost-via-local', 'C04', [(RRTS, "                            nbh[i]->incCost = nbhIncCost;", "                            const base::Cost edgeInc = nbhIncCost;\n                            nbh[i]->incCost = edgeInc;")], None)
seed('c04-ait-rewire-on-heuristic', 'C04', [(AITC, "                    if (objective_->isCostBetterThan(\n                            objective_->combineCosts(parent->getCostToComeFromStart(), edgeCost),\n                            child->getCostToComeFromStart()))", "                    if (objective_->isCostBetterThan(\n                            objective_->combineCosts(parent->getCostToComeFromStart(), objective_->motionCostHeuristic(parent->getState(), child->getState())),\n                            child->getCostToComeFromStart()))")], 'R04m')
# R08e
seed('c08-so3-identity-then-rescaled', 'C08', [(SO3C, "        if (nrmsq < 1e-6)\n            qstate->setIdentity();\n        else\n        {\n            double scale = 1.0 / std::sqrt(nrmsq);", "        if (nrmsq < 1e-6)\n            qstate->setIdentity();\n        {\n            double scale = 1.0 / std::sqrt(nrmsq);")], 'R08e')
seed('c08-so3-w-not-scaled', 'C08', [(SO3C, "            double scale = 1.0 / std::sqrt(nrmsq);\n            qstate->x *= scale;\n            qstate->y *= scale;\n            qstate->z *= scale;\n            qstate->w *= scale;", "            double scale = 1.0 / std::sqrt(nrmsq);\n            qstate->x *= scale;\n            qstate->y *= scale;\n            qstate->z *= scale;")], 'R08e')
# R09j
seed('c09-substate-comparator-type-tiebreak', 'C09', [(SSP, "                return a.space->getName() > b.space->getName();", "                return a.space->getType() > b.space->getType();")], 'R09j')
seed('c09-n-substate-comparator-name-ascending', 'C09', [(SSP, "                return a.space->getName() > b.space->getName();", "                return b.space->getName() < a.space->getName();")], None)
# R10j
seed('c10-gnat-metric-after-rebuild', 'C10', [(GNATH, "            pivotSelector_.setDistanceFunction(distFun);\n            if (tree_)\n                rebuildDataStructure();", "            if (tree_)\n                rebuildDataStructure();\n            pivotSelector_.setDistanceFunction(distFun);")], 'R10j')
# R13e
seed('c13-components-no-step-back', 'C13', [(GRID, "                            --index;\n                            q.erase(q.begin() + index);", "                            q.erase(q.begin() + index - 1);")], 'R13e')
seed('c13-n-components-predecrement-inline', 'C13', [(GRID, "                            --index;\n                            q.erase(q.begin() + index);", "                            index -= 1;\n                            q.erase(q.begin() + index);")], None)
# R15h
seed('c15-phs-erase-then-increment', 'C15', [(PLDC, "                    phsIter = listPhsPtrs_.erase(phsIter);\n", "                    phsIter = listPhsPtrs_.erase(phsIter);\n                    ++phsIter;\n")], 'R15h')
# R18h
seed('c18-polling-latches', 'C18', [(PTC, "                while (!terminate_ && !signalThreadStop_)\n                {\n                    evalValue_ = fn_();", "                while (!terminate_ && !signalThreadStop_ && !evalValue_)\n                {\n                    evalValue_ = fn_();")], 'R18h')
seed('c18-n-polling-demorgan', 'C18', [(PTC, "                while (!terminate_ && !signalThreadStop_)\n                {\n                    evalValue_ = fn_();", "                while (!(terminate_ || signalThreadStop_))\n                {\n                    evalValue_ = fn_();")], None)
# R19a through a local reference
seed('c19-gnat-scratch-through-reference', 'C19', [(GNATH, "        mutable std::atomic<std::size_t> offset_{0};", "        mutable std::atomic<std::size_t> offset_{0};\n        mutable std::vector<double> scratch_;"), (GNATH, "                    std::vector<double> distToPivot(sz);\n                    std::vector<int> permutation(sz);\n                    for (unsigned int i = 0; i < sz; ++i)\n                        permutation[i] = (i + offset) % sz;\n\n                    for (unsigned int i = 0; i < sz; ++i)\n                        if (permutation[i] >= 0)", "                    std::vector<double> &distToPivot = gnat.scratch_;\n                    distToPivot.resize(sz);\n                    std::vector<int> permutation(sz);\n                    for (unsigned int i = 0; i < sz; ++i)\n                        permutation[i] = (i + offset) % sz;\n\n                    for (unsigned int i = 0; i < sz; ++i)\n                        if (permutation[i] >= 0)")], 'R19a')
# R01t: multilevel admission
BSG = 'src/ompl/multilevel/datastructures/src/BundleSpaceGraph.cpp'
GEOP = 'src/ompl/multilevel/datastructures/propagators/src/Geometric.cpp'
QMPC = 'src/ompl/multilevel/planners/qmp/src/QMPImpl.cpp'
PSEC = 'src/ompl/multilevel/datastructures/pathrestriction/src/PathSection.cpp'
seed('c01-ml-connect-unguarded', 'C01', [(BSG, "    if (!propagator_->steer(from, to, xRandom_))\n    {\n        return false;\n    }\n\n    addBundleEdge(from, to);", "    propagator_->steer(from, to, xRandom_);\n\n    addBundleEdge(from, to);")], 'R01t')
seed('c01-ml-steer-returns-true', 'C01', [(GEOP, "    bool val = bundleSpaceGraph_->checkMotion(from, result);\n    return val;", "    bool val = bundleSpaceGraph_->checkMotion(from, result);\n    (void)val;\n    return true;")], 'R01t')
seed('c01-ml-steer-checks-to', 'C01', [(GEOP, "    bool val = bundleSpaceGraph_->checkMotion(from, result);", "    bool val = bundleSpaceGraph_->checkMotion(from, to);")], 'R01t')
seed('c01-ml-qmp-walk-star', 'C01', [(QMPC, "            ompl::multilevel::BundleSpaceGraph::addEdge(prev->index, tmp->index);\n            prev = tmp;", "            ompl::multilevel::BundleSpaceGraph::addEdge(q->index, tmp->index);\n            prev = tmp;")], 'R01t')
seed('c01-ml-graph-check-swapped-state', 'C01', [(BSG, "    return getBundle()->checkMotion(a->state, b->state);", "    return getBundle()->checkMotion(a->state, a->state);")], 'R01t')
seed('c01-n-ml-connect-verdict-in-local', 'C01', [(BSG, "    if (!propagator_->steer(from, to, xRandom_))\n    {\n        return false;\n    }\n\n    addBundleEdge(from, to);", "    const bool reached = propagator_->steer(from, to, xRandom_);\n    if (!reached)\n    {\n        return false;\n    }\n\n    addBundleEdge(from, to);")], None)
# R01u: goal classes
GRC = 'src/ompl/base/goals/src/GoalRegion.cpp'
GSC = 'src/ompl/base/goals/src/GoalState.cpp'
GSSC = 'src/ompl/base/goals/src/GoalStates.cpp'
seed('c01-goalregion-distance-only-when-satisfied', 'C01', [(GRC, "    if (distance != nullptr)\n        *distance = d2g;\n    return d2g < threshold_;", "    if (distance != nullptr && d2g < threshold_)\n        *distance = d2g;\n    return d2g < threshold_;")], 'R01u')
seed('c01-goalregion-inverted', 'C01', [(GRC, "    return d2g < threshold_;", "    return threshold_ < d2g;")], 'R01u')
seed('c01-goalstates-first-only', 'C01', [(GSSC, "        if (d < dist)\n            dist = d;\n    }\n    return dist;", "        if (d < dist)\n            dist = d;\n        break;\n    }\n    return dist;")], 'R01u')
seed('c01-goalstates-max', 'C01', [(GSSC, "        if (d < dist)\n            dist = d;", "        if (d < dist || dist == std::numeric_limits<double>::infinity())\n            dist = d;\n        else if (d > dist)\n            dist = d;")], 'R01u')
seed('c01-n-goalregion-local-verdict', 'C01', [(GRC, "    if (distance != nullptr)\n        *distance = d2g;\n    return d2g < threshold_;", "    const bool inside = d2g < threshold_;\n    if (distance != nullptr)\n        *distance = d2g;\n    return inside;")], None)
seed('c01-n-goalstates-min-call', 'C01', [(GSSC, "        if (d < dist)\n            dist = d;", "        dist = std::min(dist, d);")], None)
# R04n: registration round trip of ProblemDefinition
PDH = 'src/ompl/base/ProblemDefinition.h'
seed('c04-addsolution-flag-inverted', 'C04', [(PD, "    if (approximate)\n        sol.setApproximate(difference);", "    if (!approximate)\n        sol.setApproximate(difference);")], 'R04n')
seed('c04-setapproximate-forgets-flag', 'C04', [(PDH, "                approximate_ = true;\n                difference_ = difference;", "                difference_ = difference;")], 'R04n')
seed('c04-getdifference-reads-last', 'C04', [(PD, "                    diff = solutions_[0].difference_;", "                    diff = solutions_.back().difference_;")], 'R04a')
seed('c04-isapproximate-reads-optimized', 'C04', [(PD, "                    result = solutions_[0].approximate_;", "                    result = solutions_[0].optimized_;")], 'R04n')
seed('c04-clear-keeps-solutions', 'C04', [(PD, "void ompl::base::ProblemDefinition::clearSolutionPaths() const\n{\n    solutions_->clear();", "void ompl::base::ProblemDefinition::clearSolutionPaths() const\n{\n    solutions_->getSolutionCount();")], 'R04n')
seed('c04-n-isapproximate-front', 'C04', [(PD, "                    result = solutions_[0].approximate_;", "                    result = solutions_.front().approximate_;")], None)
# R08f / R08g: RNG primitives
RNH = 'src/ompl/util/RandomNumbers.h'
seed('c08-quaternion-radius-plus', 'C08', [(RNGC, "    double r1 = sqrt(1.0 - x0), r2 = sqrt(x0);", "    double r1 = sqrt(1.0 + x0), r2 = sqrt(x0);")], 'R08f')
seed('c08-quaternion-mixed-angle', 'C08', [(RNGC, "    value[1] = c1 * r1;", "    value[1] = c2 * r1;")], 'R08f')
seed('c08-n-quaternion-order', 'C08', [(RNGC, "    value[0] = s1 * r1;\n    value[1] = c1 * r1;", "    value[1] = c1 * r1;\n    value[0] = r1 * s1;")], None)
seed('c08-uniformreal-scaled-by-upper', 'C08', [(RNH, "            return (upper_bound - lower_bound) * uniDist_(generator_) + lower_bound;", "            return upper_bound * uniDist_(generator_) + lower_bound;")], 'R08g')
seed('c08-uniformint-no-plus-one', 'C08', [(RNH, "            auto r = (int)floor(uniformReal((double)lower_bound, (double)(upper_bound) + 1.0));", "            auto r = (int)floor(uniformReal((double)lower_bound, (double)(upper_bound)));")], 'R08g')
seed('c08-n-uniformreal-commuted', 'C08', [(RNH, "            return (upper_bound - lower_bound) * uniDist_(generator_) + lower_bound;", "            return lower_bound + uniDist_(generator_) * (upper_bound - lower_bound);")], None)
# R02j: control PDST split / duration bookkeeping
CPDST = 'src/ompl/control/planners/pdst/src/PDST.cpp'
seed('c02-pdst-split-duration-not-reduced', 'C02', [(CPDST, "            motion->controlDuration_ -= duration;\n", "")], 'R02j')
seed('c02-pdst-split-counter-not-reset', 'C02', [(CPDST, "            motion->parent_ = newMotion;\n            duration = 0;", "            motion->parent_ = newMotion;")], 'R02j')
seed('c02-pdst-split-parent-not-relinked', 'C02', [(CPDST, "            motion->parent_ = newMotion;\n            duration = 0;", "            duration = 0;")], 'R02j')
seed('c02-pdst-ancestor-duration-not-accumulated', 'C02', [(CPDST, "            ancestor = ancestor->parent_;\n            duration += ancestor->controlDuration_;", "            ancestor = ancestor->parent_;")], 'R02j')
seed('c02-pdst-split-start-from-prev-start', 'C02', [(CPDST, "            motion->startState_ = newMotion->endState_;", "            motion->startState_ = newMotion->startState_;")], 'R02j')
seed('c02-n-pdst-split-statements-reordered', 'C02', [(CPDST, "            motion->startState_ = newMotion->endState_;\n            motion->controlDuration_ -= duration;", "            motion->controlDuration_ -= duration;\n            motion->startState_ = newMotion->endState_;")], None)
# R10k: k-centres postcondition
GKC = 'src/ompl/datastructures/GreedyKCenters.h'
seed('c10-kcenters-last-column-missing', 'C10', [(GKC, "            for (unsigned j = 0; j < data.size(); ++j)\n                dists(j, i) = distFun_(data[j], center);", "            for (unsigned j = 1; j < data.size(); ++j)\n                dists(j, i) = distFun_(data[j], center);")], 'R10k')
seed('c10-kcenters-column-shifted', 'C10', [(GKC, "                    if ((dists(j, i - 1) = distFun_(data[j], center)) < minDist[j])\n                        minDist[j] = dists(j, i - 1);", "                    if ((dists(j, i) = distFun_(data[j], center)) < minDist[j])\n                        minDist[j] = dists(j, i);")], 'R10k')
seed('c10-kcenters-duplicate-centres', 'C10', [(GKC, "                if (maxDist < std::numeric_limits<double>::epsilon())\n                    break;", "                if (maxDist < -1.0)\n                    break;")], 'R10k')
seed('c10-n-kcenters-mindist-two-steps', 'C10', [(GKC, "                    if ((dists(j, i - 1) = distFun_(data[j], center)) < minDist[j])\n                        minDist[j] = dists(j, i - 1);", "                    dists(j, i - 1) = distFun_(data[j], center);\n                    if (dists(j, i - 1) < minDist[j])\n                        minDist[j] = dists(j, i - 1);")], None)
# R04o: objective algebra
SCIO = 'src/ompl/base/objectives/src/StateCostIntegralObjective.cpp'
MMO = 'src/ompl/base/objectives/src/MinimaxObjective.cpp'
PLO = 'src/ompl/base/objectives/src/PathLengthOptimizationObjective.cpp'
SCIH = 'src/ompl/base/objectives/StateCostIntegralObjective.h'
seed('c04-sci-last-segment-from-s1', 'C04', [(SCIO, "                         this->trapezoid(prevStateCost, this->stateCost(s2), si_->distance(test1, s2)).value());", "                         this->trapezoid(prevStateCost, this->stateCost(s2), si_->distance(s1, s2)).value());")], 'R04o')
seed('c04-sci-prevcost-not-advanced', 'C04', [(SCIO, "                std::swap(test1, test2);\n                prevStateCost = nextStateCost;", "                std::swap(test1, test2);")], 'R04o')
seed('c04-sci-trapezoid-no-half', 'C04', [(SCIH, "                return Cost(0.5 * dist * (c1.value() + c2.value()));", "                return Cost(dist * (c1.value() + c2.value()));")], 'R04o')
seed('c04-minimax-skips-end-state', 'C04', [(MMO, "    if (this->isCostBetterThan(worstCost, lastCost))\n        worstCost = lastCost;", "    if (this->isCostBetterThan(lastCost, worstCost))\n        worstCost = lastCost;")], 'R04o')
seed('c04-minimax-combine-better', 'C04', [(MMO, "    return this->isCostBetterThan(c1, c2) ? c2 : c1;", "    return this->isCostBetterThan(c1, c2) ? c1 : c2;")], 'R04o')
seed('c04-pathlength-heuristic-doubled', 'C04', [(PLO, "    return motionCost(s1, s2);\n}\n\nompl::base::Cost ompl::base::PathLengthOptimizationObjective::motionCostBestEstimate", "    return Cost(2.0 * motionCost(s1, s2).value());\n}\n\nompl::base::Cost ompl::base::PathLengthOptimizationObjective::motionCostBestEstimate")], 'R04o')
seed('c04-n-sci-total-via-local', 'C04', [(SCIO, "                std::swap(test1, test2);\n                prevStateCost = nextStateCost;", "                prevStateCost = nextStateCost;\n                std::swap(test1, test2);")], None)
# R17e: hybridization
PHYB = 'src/ompl/geometric/src/PathHybridization.cpp'
seed('c17-hybrid-chain-skips-first-edge', 'C17', [(PHYB, "    for (std::size_t j = 1; j < pi.states_.size(); ++j)\n    {\n        Vertex v1 = boost::add_vertex(g_);", "    for (std::size_t j = 2; j < pi.states_.size(); ++j)\n    {\n        Vertex v1 = boost::add_vertex(g_);")], 'R17e')
seed('c17-hybrid-weight-from-first-state', 'C17', [(PHYB, "        base::Cost weight = obj_->motionCost(pi.states_[j - 1], pi.states_[j]);", "        base::Cost weight = obj_->motionCost(pi.states_[0], pi.states_[j]);")], 'R17e')
seed('c17-hybrid-chain-not-advanced', 'C17', [(PHYB, "        pi.vertices_.push_back(v1);\n        v0 = v1;", "        pi.vertices_.push_back(v1);")], 'R17e')
seed('c17-hybrid-no-goal-edge', 'C17', [(PHYB, "    boost::add_edge(v0, goal_, prop0, g_);\n    pi.cost_ = cost;", "    pi.cost_ = cost;")], 'R17e')
seed('c17-hybrid-cross-edge-unchecked', 'C17', [(PHYB, "    if (si_->checkMotion(p.states_[indexP], q.states_[indexQ]))\n    {", "    if (si_->checkMotion(p.states_[indexP], q.states_[indexQ]) || indexP == indexQ)\n    {")], 'R17e')
seed('c17-hybrid-cross-edge-wrong-vertex', 'C17', [(PHYB, "        boost::add_edge(p.vertices_[indexP], q.vertices_[indexQ], properties, g_);", "        boost::add_edge(p.vertices_[indexQ], q.vertices_[indexQ], properties, g_);")], 'R17e')
seed('c17-hybrid-search-from-goal', 'C17', [(PHYB, "        g_, root_,\n        boost::predecessor_map(prev)", "        g_, goal_,\n        boost::predecessor_map(prev)")], 'R17e')
seed('c17-n-hybrid-cost-fold-reordered', 'C17', [(PHYB, "        boost::add_edge(v0, v1, properties, g_);\n        cost = obj_->combineCosts(cost, weight);", "        cost = obj_->combineCosts(cost, weight);\n        boost::add_edge(v0, v1, properties, g_);")], None)
seed('c13-n-components-swap-and-pop-with-step-back', 'C13', [(GRID, "                            --index;\n                            q.erase(q.begin() + index);", "                            --index;\n                            q[index] = q.back();\n                            q.pop_back();")], None)
seed('c13-components-swap-and-pop-no-step-back', 'C13', [(GRID, "                            --index;\n                            q.erase(q.begin() + index);", "                            q[index - 1] = q.back();\n                            q.pop_back();")], 'R13e')
seed('c12-update-epsilon-shortcut', 'C12', [(PDFH, "            const double weightChange = w - tree_.front()[index];\n", "            const double weightChange = w - tree_.front()[index];\n            if (weightChange < 1e-12 && weightChange > -1e-12)\n                return;\n")], 'R12e')
seed('c12-n-update-exact-unchanged-shortcut', 'C12', [(PDFH, "            const double weightChange = w - tree_.front()[index];\n", "            const double weightChange = w - tree_.front()[index];\n            if (weightChange == 0.0)\n                return;\n")], None)

# ---- round-5 rules ------------------------------------------------------------------------------------------------
seed('c03-lbtrrt-refuses-resume', 'C03', [(LBTC, "    if (pdef_->getStartStateCount() > 1)", "    if (nn_->size() > 1)")], 'R03r')
seed('c03-rrt-refusal-not-one', 'C03', [(RRTC, "    if (nn_->size() == 0)\n    {\n        OMPL_ERROR(\"%s: There are no valid initial states!\"", "    if (nn_->size() != 1)\n    {\n        OMPL_ERROR(\"%s: There are no valid initial states!\"")], 'R03r')
seed('c03-n-rrt-refusal-lt-one', 'C03', [(RRTC, "    if (nn_->size() == 0)\n    {\n        OMPL_ERROR(\"%s: There are no valid initial states!\"", "    if (nn_->size() < 1)\n    {\n        OMPL_ERROR(\"%s: There are no valid initial states!\"")], None)
BIESTC = 'src/ompl/geometric/planners/est/src/BiEST.cpp'
CRRT = 'src/ompl/control/planners/rrt/src/RRT.cpp'
seed('c01-rrt-path-assembled-leaf-first', 'C01', [(RRTC, "        for (int i = mpath.size() - 1; i >= 0; --i)\n            path->append(mpath[i]->state);", "        for (std::size_t i = 0; i < mpath.size(); ++i)\n            path->append(mpath[i]->state);")], 'R01w')
seed('c01-biest-goal-half-root-first', 'C01', [(BIESTC, "                    for (auto &i : mpath2)\n                        path->append(i->state);", "                    for (int i = mpath2.size() - 1; i >= 0; --i)\n                        path->append(mpath2[i]->state);")], 'R01w')
seed('c01-prm-solution-not-reversed', 'C01', [(PRMC, "    p->append(stateProperty_[start]);\n    p->reverse();\n\n    return p;", "    p->append(stateProperty_[start]);\n\n    return p;")], 'R01w')
seed('c01-n-rrt-path-reverse-iterator', 'C01', [(RRTC, "        for (int i = mpath.size() - 1; i >= 0; --i)\n            path->append(mpath[i]->state);", "        for (auto it = mpath.rbegin(); it != mpath.rend(); ++it)\n            path->append((*it)->state);")], None)
seed('c01-n-rrt-list-reversed-then-forward', 'C01', [(RRTC, "        for (int i = mpath.size() - 1; i >= 0; --i)\n            path->append(mpath[i]->state);", "        std::reverse(mpath.begin(), mpath.end());\n        for (auto &m : mpath)\n            path->append(m->state);")], None)
seed('c02-rrt-path-assembled-leaf-first', 'C02', [(CRRT, "        for (int i = mpath.size() - 1; i >= 0; --i)\n            if (mpath[i]->parent)", "        for (std::size_t i = 0; i < mpath.size(); ++i)\n            if (mpath[i]->parent)")], 'R02k')
STRC = 'src/ompl/geometric/planners/rrt/src/STRRTstar.cpp'
RRTCC5 = 'src/ompl/geometric/planners/rrt/src/RRTConnect.cpp'
CONSTR = 'src/ompl/base/src/Constraint.cpp'
GRIDH = 'src/ompl/datastructures/Grid.h'
seed('c03-strrtstar-prune-leaks-scratch', 'C03', [(STRC, "                        si_->freeState(tgi.xstate);\n                    }\n                }\n                // Free motion and state", "                    }\n                }\n                // Free motion and state")], 'R03d')
seed('c03-rrtconnect-early-return-leaks-field-temp', 'C03', [(RRTCC5, "            if (tGoal_->size() == 0)\n            {\n", "            if (tGoal_->size() == 0)\n            {\n                if (ptc)\n                    return base::PlannerStatus::TIMEOUT;\n")], 'R03d')
seed('c03-pdst-resume-one-arg-goal-test', 'C03', [(GPDST, "!goal->isSatisfied(lastGoalMotion_->endState_, &closestDistanceToGoal);", "!goal->isSatisfied(lastGoalMotion_->endState_);")], 'R03n')
seed('c16-project-success-by-failed-test', 'C16', [(CONSTR, "    return norm < squaredTolerance;\n}\n\ndouble ompl::base::Constraint::distance", "    return !(norm > squaredTolerance);\n}\n\ndouble ompl::base::Constraint::distance")], 'R16f')
seed('c16-n-project-verdict-if-form', 'C16', [(CONSTR, "    return norm < squaredTolerance;\n}\n\ndouble ompl::base::Constraint::distance", "    if (norm < squaredTolerance)\n        return true;\n    return false;\n}\n\ndouble ompl::base::Constraint::distance")], None)
seed('c13-components-swap-pop-no-step-back', 'C13', [(GRIDH, "                            --index;\n                            q.erase(q.begin() + index);", "                            std::swap(q[index - 1], q.back());\n                            q.pop_back();")], 'R13e')
seed('c13-n-components-swap-pop-step-back', 'C13', [(GRIDH, "                            --index;\n                            q.erase(q.begin() + index);", "                            --index;\n                            std::swap(q[index], q.back());\n                            q.pop_back();")], None)
seed('c12-sibling-guard-shift-form-odd-size', 'C12', [(PDFH, "if (index + 2 == data_.size() && index % 2 == 0)", "if ((index >> 1) == (data_.size() >> 1) - 1)")], 'R12c')
seed('c12-n-sibling-guard-parent-form', 'C12', [(PDFH, "if (index + 2 == data_.size() && index % 2 == 0)", "if ((index >> 1) == ((data_.size() - 1) >> 1))")], None)
seed('c12-n-sibling-guard-bit-test', 'C12', [(PDFH, "if (index + 2 == data_.size() && index % 2 == 0)", "if (index + 2 == data_.size() && (index & 1) == 0)")], None)
INFS = 'src/ompl/base/samplers/src/InformedStateSampler.cpp'
seed('c15-n-heuristic-seeded-with-start-zero', 'C15', [(INFS, "            Cost bestCost = opt_->infiniteCost();\n\n            // Iterate over each start and store the best\n            for (unsigned int i = 0u; i < probDefn_->getStartStateCount(); ++i)", "            Cost bestCost = opt_->combineCosts(opt_->motionCostHeuristic(probDefn_->getStartState(0u), statePtr),\n                                               opt_->costToGo(statePtr, probDefn_->getGoal().get()));\n\n            // Iterate over the other starts and store the best\n            for (unsigned int i = 1u; i < probDefn_->getStartStateCount(); ++i)")], None)
PDC = 'src/ompl/base/src/PlannerData.cpp'
SCOPED = 'src/ompl/base/ScopedState.h'
LINH = 'src/ompl/datastructures/NearestNeighborsLinear.h'
RNC = 'src/ompl/util/src/RandomNumbers.cpp'
PLDC = 'src/ompl/base/samplers/informed/src/PathLengthDirectInfSampler.cpp'
AITC = 'src/ompl/geometric/planners/informedtrees/src/AITstar.cpp'
LPRMC = 'src/ompl/geometric/planners/prm/src/LazyPRM.cpp'
LRRTC = 'src/ompl/geometric/planners/rrt/src/LazyRRT.cpp'
RSTARC = 'src/ompl/geometric/planners/rrt/src/RRTstar.cpp'
CPDST = 'src/ompl/control/planners/pdst/src/PDST.cpp'
seed('c09-plannerdata-clear-keeps-marks', 'C09', [(PDC, "    decoupledStates_.clear();\n    stateIndexMap_.clear();\n    startVertexIndices_.clear();\n    goalVertexIndices_.clear();\n}", "    decoupledStates_.clear();\n    stateIndexMap_.clear();\n}")], 'R09m')
seed('c09-extract-storage-metadata-by-vertex-index', 'C09', [(PDC, "store->getMetadata(it.second);", "store->getMetadata(it.first);")], 'R09l')
seed('c09-scopedstate-reals-through-table', 'C09', [(SCOPED, "                std::vector<double> r;\n                unsigned int index = 0;\n                while (double *va = space_->getValueAddressAtIndex(state_, index++))\n                    r.push_back(*va);\n                return r;", "                std::vector<double> r;\n                space_->copyToReals(r, state_);\n                return r;")], 'R09k')
seed('c10-linear-remove-all-equal', 'C10', [(LINH, "            if (!data_.empty())\n                for (int i = data_.size() - 1; i >= 0; --i)\n                    if (data_[i] == data)\n                    {\n                        data_.erase(data_.begin() + i);\n                        return true;\n                    }\n            return false;", "            auto last = std::remove(data_.begin(), data_.end(), data);\n            if (last == data_.end())\n                return false;\n            data_.erase(last, data_.end());\n            return true;")], 'R10l')
seed('c10-n-linear-remove-forward-scan', 'C10', [(LINH, "                for (int i = data_.size() - 1; i >= 0; --i)\n                    if (data_[i] == data)", "                for (std::size_t i = 0; i < data_.size(); ++i)\n                    if (data_[i] == data)")], None)
seed('c20-setlocalseed-same-seed-early-return', 'C20', [(RNC, "    // Store the seed\n    localSeed_ = localSeed;\n\n    // Change the generator's seed\n    generator_.seed(localSeed_);\n", "    generator_.seed(localSeed);\n    if (localSeed == localSeed_)\n        return;\n    localSeed_ = localSeed;\n")], 'R20b')
seed('c15-lower-bound-base-heuristic', 'C15', [(PLDC, "Cost sampledCost = heuristicSolnCost(statePtr);", "Cost sampledCost = InformedSampler::heuristicSolnCost(statePtr);")], 'R15i')
seed('c15-measure-clamped-by-subspace', 'C15', [(PLDC, "return std::min(InformedSampler::space_->getMeasure(), informedMeasure);", "return std::min(informedSubSpace_->getMeasure(), informedMeasure);")], 'R15i')
seed('c15-n-measure-clamp-args-swapped', 'C15', [(PLDC, "return std::min(InformedSampler::space_->getMeasure(), informedMeasure);", "return std::min(informedMeasure, InformedSampler::space_->getMeasure());")], None)
seed('c04-aitstar-registry-flag-hoisted', 'C04', [(AITC, "            // Check if any of the goals have a cost to come less than the current solution cost.\n            for (const auto &goal : graph_.getGoalVertices())\n            {", "            const bool removed = !pdef_->hasExactSolution();\n            for (const auto &goal : graph_.getGoalVertices())\n            {", 0), (AITC, "                    (!pdef_->hasExactSolution() && objective_->isFinite(goal->getCostToComeFromStart())))", "                    (removed && objective_->isFinite(goal->getCostToComeFromStart())))", 0)], 'R04q')
seed('c01-lazyprm-imported-edges-valid', 'C01', [(LPRMC, "                edgeValidityProperty_[edge] = VALIDITY_UNKNOWN;", "                edgeValidityProperty_[edge] = VALIDITY_TRUE;")], 'R01b')
seed('c01-lazyrrt-validation-interruptible', 'C01', [(LRRTC, "i >= 0 && solutionFound; --i)", "i >= 0 && solutionFound && !ptc; --i)")], 'R01b')
seed('c03-lazyrrt-validation-interruptible', 'C03', [(LRRTC, "i >= 0 && solutionFound; --i)", "i >= 0 && solutionFound && !ptc; --i)")], 'R03s')
seed('c01-rrtstar-valid-cache-position', 'C01', [(RSTARC, "                        valid[*i] = 1;\n                        break;", "                        valid[i - sortedCostIndices.begin()] = 1;\n                        break;")], 'R01x')
seed('c01-n-rrtstar-valid-cache-parenthesised', 'C01', [(RSTARC, "                        valid[*i] = 1;\n                        break;", "                        valid[(*i)] = 1;\n                        break;")], None)
seed('c02-pdst-closest-before-solved', 'C02', [(CPDST, "        if (hasSolution)\n        {\n            closestDistanceToGoal = distanceToGoal;\n            lastGoalMotion_ = newMotion;\n            isApproximate = false;\n            break;\n        }\n        else if (distanceToGoal < closestDistanceToGoal)\n        {\n            closestDistanceToGoal = distanceToGoal;\n            lastGoalMotion_ = newMotion;\n        }", "        if (distanceToGoal < closestDistanceToGoal)\n        {\n            closestDistanceToGoal = distanceToGoal;\n            lastGoalMotion_ = newMotion;\n        }\n        if (hasSolution)\n        {\n            isApproximate = false;\n            break;\n        }")], 'R02f')
seed('c05-discrete-scratch-copied-unwritten', 'C05', [(DMV, "    if (nd > 1)\n    {\n        /* temporary storage for the checked state */\n        State *test = si_->allocState();\n\n        for (int j = 1; j < nd; ++j)\n        {\n            stateSpace_->interpolate(s1, s2, (double)j / (double)nd, test);\n            if (!si_->isValid(test))\n            {\n                lastValid.second = (double)(j - 1) / (double)nd;\n                if (lastValid.first != nullptr)\n                    stateSpace_->interpolate(s1, s2, lastValid.second, lastValid.first);\n                result = false;\n                break;\n            }\n        }\n        si_->freeState(test);\n    }\n\n    if (result)\n        if (!si_->isValid(s2))\n        {\n            lastValid.second = (double)(nd - 1) / (double)nd;\n            if (lastValid.first != nullptr)\n                stateSpace_->interpolate(s1, s2, lastValid.second, lastValid.first);\n            result = false;\n        }\n", "    State *test = si_->allocState();\n    if (nd > 1)\n    {\n        for (int j = 1; j < nd; ++j)\n        {\n            stateSpace_->interpolate(s1, s2, (double)j / (double)nd, test);\n            if (!si_->isValid(test))\n            {\n                lastValid.second = (double)(j - 1) / (double)nd;\n                if (lastValid.first != nullptr)\n                    stateSpace_->interpolate(s1, s2, lastValid.second, lastValid.first);\n                result = false;\n                break;\n            }\n        }\n    }\n\n    if (result)\n        if (!si_->isValid(s2))\n        {\n            lastValid.second = (double)(nd - 1) / (double)nd;\n            if (lastValid.first != nullptr)\n                si_->copyState(lastValid.first, test);\n            result = false;\n        }\n    si_->freeState(test);\n")], 'R05f')
seed('c14-dubins-reverse-loop-skips-first-segment', 'C14', [(DUB, "        for (unsigned int i = 0; i < 3 && seg > 0; ++i)\n        {\n            v = std::min(seg, path.length_[2 - i]);\n            phi = s->getYaw();\n            seg -= v;\n            switch (path.type_->at(2 - i))", "        for (unsigned int i = 2; i > 0 && seg > 0; --i)\n        {\n            v = std::min(seg, path.length_[i]);\n            phi = s->getYaw();\n            seg -= v;\n            switch (path.type_->at(i))")], 'R14d')
seed('c14-n-dubins-reverse-loop-counts-down', 'C14', [(DUB, "        for (unsigned int i = 0; i < 3 && seg > 0; ++i)\n        {\n            v = std::min(seg, path.length_[2 - i]);\n            phi = s->getYaw();\n            seg -= v;\n            switch (path.type_->at(2 - i))", "        for (unsigned int i = 3; i > 0 && seg > 0; --i)\n        {\n            v = std::min(seg, path.length_[i - 1]);\n            phi = s->getYaw();\n            seg -= v;\n            switch (path.type_->at(i - 1))")], None)
seed('c04-n-aitstar-registry-before-snapshot', 'C04', [(AITC, "                    // Remember the incumbent cost.\n                    solutionCost_ = goal->getCostToComeFromStart();", "                    // Remember the incumbent cost.\n                    const bool hadExact = pdef_->hasExactSolution();\n                    solutionCost_ = goal->getCostToComeFromStart();\n                    if (!hadExact)\n                        OMPL_DEBUG(\"first exact solution\");", 0)], None)
seed('c03-lbtrrt-preserves-approximate-node', 'C03', [(LBTC, "        if (!approximate)\n            lastGoalMotion_ = solution;\n", "        lastGoalMotion_ = solution;\n")], 'R03t')
# ---- round-6 rules ------------------------------------------------------------------------------------------------
ATLC = 'src/ompl/base/spaces/constraint/src/AtlasStateSpace.cpp'
APSC = 'src/ompl/geometric/planners/AnytimePathShortening.cpp'
GSTC = 'src/ompl/base/goals/src/GoalStates.cpp'
EITC = 'src/ompl/geometric/planners/informedtrees/src/EITstar.cpp'
RNRM = 'src/ompl/multilevel/datastructures/projections/src/RN_RM.cpp'
GSSTC = 'src/ompl/geometric/planners/sst/src/SST.cpp'
CPDC = 'src/ompl/control/src/PlannerData.cpp'
seed('c05-dubins-validators-precompute-path', 'C05', [(DUB, "    bool result = true, firstTime = true;\n    DubinsStateSpace::DubinsPath path;\n    int nd = stateSpace_->validSegmentCount(s1, s2);\n\n    if (nd > 1)", "    bool result = true, firstTime = false;\n    DubinsStateSpace::DubinsPath path = stateSpace_->dubins(s1, s2);\n    int nd = stateSpace_->validSegmentCount(s1, s2);\n\n    if (nd > 1)"), (DUB, "    bool result = true, firstTime = true;\n    DubinsStateSpace::DubinsPath path;\n    int nd = stateSpace_->validSegmentCount(s1, s2);\n\n    /* initialize the queue of test positions */", "    bool result = true, firstTime = false;\n    DubinsStateSpace::DubinsPath path = stateSpace_->dubins(s1, s2);\n    int nd = stateSpace_->validSegmentCount(s1, s2);\n\n    /* initialize the queue of test positions */")], 'R05d')
seed('c16-atlas-geodesic-verdict-without-flag', 'C16', [(ATLC, "    const bool ret = done && distance(to, scratch) <= delta_;", "    const bool ret = distance(to, scratch) <= delta_;")], 'R16g')
seed('c16-n-atlas-geodesic-verdict-if-form', 'C16', [(ATLC, "    const bool ret = done && distance(to, scratch) <= delta_;", "    bool ret = false;\n    if (done)\n        ret = distance(to, scratch) <= delta_;")], None)
seed('c19-aps-worker-clears-shared-registry', 'C19', [(APSC, "            planner->clear();\n            pdef->clearSolutionPaths();\n            break;", "            planner->clear();\n            pdef_->clearSolutionPaths();\n            break;")], 'R19g')
seed('c03-goalstates-position-wrapped-eagerly', 'C03', [(GSTC, "    samplePosition_++;\n}", "    samplePosition_ = (samplePosition_ + 1) % states_.size();\n}")], 'R03x')
seed('c03-n-goalstates-position-plus-one', 'C03', [(GSTC, "    samplePosition_++;\n}", "    samplePosition_ = samplePosition_ + 1;\n}")], None)
seed('c03-prm-clearquery-update-only', 'C03', [(PRMC, "    goalM_.clear();\n    pis_.restart();\n}\n\nvoid ompl::geometric::PRM::clear()", "    goalM_.clear();\n    pis_.update();\n}\n\nvoid ompl::geometric::PRM::clear()")], 'R03v')
seed('c03-eitstar-clearquery-keeps-queues', 'C03', [(EITC, "            if (setup_)\n            {\n                forwardQueue_->clear();\n                reverseQueue_->clear();\n                startVertices_.clear();\n                goalVertices_.clear();\n                graph_.clearQuery();", "            if (setup_)\n            {\n                startVertices_.clear();\n                goalVertices_.clear();\n                graph_.clearQuery();")], 'R03v')
seed('c01-aitstar-reregister-folds-incumbent', 'C01', [(AITC, "                    solutionCost_ = goal->getCostToComeFromStart();", "                    solutionCost_ = objective_->betterCost(solutionCost_, goal->getCostToComeFromStart());", 0)], 'R01y')
seed('c01-rnrm-fiber-bounds-offset', 'C01', [(RNRM, "        Fiber_bounds.setLow(k, Bundle_bounds.low.at(k + N0));\n        Fiber_bounds.setHigh(k, Bundle_bounds.high.at(k + N0));", "        Fiber_bounds.setLow(k, Bundle_bounds.low.at(k + NX));\n        Fiber_bounds.setHigh(k, Bundle_bounds.high.at(k + NX));")], 'R01z')
seed('c01-n-rnrm-fiber-bounds-offset-spelled-out', 'C01', [(RNRM, "        Fiber_bounds.setLow(k, Bundle_bounds.low.at(k + N0));\n        Fiber_bounds.setHigh(k, Bundle_bounds.high.at(k + N0));", "        Fiber_bounds.setLow(k, Bundle_bounds.low.at(getBaseDimension() + k));\n        Fiber_bounds.setHigh(k, Bundle_bounds.high.at(getBaseDimension() + k));")], None)
seed('c01-sst-approx-path-kept-from-exact', 'C01', [(GSSTC, "                    approxdif = dist;\n                    approxsol = motion;\n\n                    for (auto &i : prevSolution_)", "                    approxdif = dist;\n                    approxsol = motion;\n                }\n                if (approxsol == motion && !opt_->isFinite(prevSolutionCost_))\n                {\n                    for (auto &i : prevSolution_)")], 'R01A')
seed('c02-plannerdata-decouple-early-return', 'C02', [(CPDC, "    ompl::base::PlannerData::decoupleFromPlanner();\n", "    ompl::base::PlannerData::decoupleFromPlanner();\n    if (decoupledControls_.size() == numEdges())\n        return;\n")], 'R02m')
seed('c09-decouple-erases-clone-key', 'C09', [(PDC, "            stateIndexMap_.erase(oldState);", "            stateIndexMap_.erase(vtx.getState());")], 'R09n')
seed('c15-phs-chosen-once-per-call', 'C15', [(PLDC, "            while (!foundSample && *iters < InformedSampler::numIters_)\n            {\n                // Variables\n                // The informed subset of the sample as a vector\n                std::vector<double> informedVector(informedSubSpace_->getDimension());\n                // The random PHS in use for this sample.\n                ProlateHyperspheroidCPtr phsCPtr = randomPhsPtr();\n", "            std::vector<double> informedVector(informedSubSpace_->getDimension());\n            ProlateHyperspheroidCPtr phsCPtr = randomPhsPtr();\n            while (!foundSample && *iters < InformedSampler::numIters_)\n            {\n")], 'R15j')
seed('c20-spherical-engine-by-value', 'C20', [(RNC, "using variate_generator_t = boost::variate_generator<std::mt19937 *, spherical_dist_t>;", "using variate_generator_t = boost::variate_generator<std::mt19937, spherical_dist_t>;"), (RNC, "std::make_shared<variate_generator_t>(generatorPtr_, *dimVector_.at(dim).first);", "std::make_shared<variate_generator_t>(*generatorPtr_, *dimVector_.at(dim).first);")], 'R20f')
seed('c17-better-goal-double-snap-swaps', 'C17', [(PSC, "            unsigned int startIndex = start - dists.begin();\n            unsigned int endIndex = end - dists.begin();\n\n            // Snap the random point to the nearest vertex, if within the threshold\n            if (t - (*start) < threshold)  // snap to the starting waypoint\n                endIndex = startIndex;\n            if ((*end) - t < threshold)  // snap to the ending waypoint\n                startIndex = endIndex;", "            const bool snapToStart = t - (*start) < threshold;\n            const bool snapToEnd = (*end) - t < threshold;\n            unsigned int startIndex = (snapToEnd ? end : start) - dists.begin();\n            unsigned int endIndex = (snapToStart ? start : end) - dists.begin();")], 'R17j')
seed('c17-n-better-goal-snap-else-if', 'C17', [(PSC, "            if (t - (*start) < threshold)  // snap to the starting waypoint\n                endIndex = startIndex;\n            if ((*end) - t < threshold)  // snap to the ending waypoint\n                startIndex = endIndex;", "            if (t - (*start) < threshold)  // snap to the starting waypoint\n                endIndex = startIndex;\n            else if ((*end) - t < threshold)  // snap to the ending waypoint\n                startIndex = endIndex;")], None)
MWH = 'src/ompl/base/objectives/MechanicalWorkOptimizationObjective.h'
MWC = 'src/ompl/base/objectives/src/MechanicalWorkOptimizationObjective.cpp'
seed('c04-mechanical-work-claims-symmetry', 'C04', [(MWH, "            bool isSymmetric() const override\n            {\n                return false;\n            }\n", "")], 'R04s')
seed('c04-n-mechanical-work-operands-commuted', 'C04', [(MWC, "return Cost(positiveCostAccrued + pathLengthWeight_ * si_->distance(s1, s2));", "return Cost(si_->distance(s1, s2) * pathLengthWeight_ + positiveCostAccrued);")], None)
OOC = 'src/ompl/base/src/OptimizationObjective.cpp'
seed('c04-multi-objective-ignores-components-symmetry', 'C04', [(OOC, "    for (const auto &component : components_)\n        if (!component.objective->isSymmetric())\n            return false;\n    return OptimizationObjective::isSymmetric();", "    return OptimizationObjective::isSymmetric();")], 'R04s')
