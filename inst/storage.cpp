// Instantiation unit for the header-only part of the state storage: the metadata-carrying storage is a template that the
// library itself never instantiates.  Only parsed by the extractor, never compiled to code or run.
#include "ompl/base/StateStorage.h"
#include <vector>

template class ompl::base::StateStorageWithMetadata<std::vector<std::size_t>>;
