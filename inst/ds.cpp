// Instantiation unit for OMPL's header-only data structures: includes the repository's *current* headers and
// explicitly instantiates them so that every member function has a resolved (non-dependent) body and CFG.
// Only parsed (-fsyntax-only through the extractor), never compiled to code or run.
#include "ompl/datastructures/BinaryHeap.h"
#include "ompl/datastructures/PDF.h"
#include "ompl/datastructures/Grid.h"
#include "ompl/datastructures/GridN.h"
#include "ompl/datastructures/GridB.h"
#include "ompl/datastructures/NearestNeighborsGNAT.h"
#include "ompl/datastructures/NearestNeighborsGNATNoThreadSafety.h"
#include "ompl/datastructures/NearestNeighborsLinear.h"
#include "ompl/datastructures/NearestNeighborsSqrtApprox.h"
#include "ompl/datastructures/GreedyKCenters.h"

template class ompl::BinaryHeap<int>;
template class ompl::PDF<int>;
template class ompl::Grid<int>;
template class ompl::GridN<int>;
template class ompl::GridB<int>;
template class ompl::NearestNeighborsGNAT<int>;
template class ompl::NearestNeighborsGNATNoThreadSafety<int>;
template class ompl::NearestNeighborsLinear<int>;
template class ompl::NearestNeighborsSqrtApprox<int>;
template class ompl::GreedyKCenters<int>;
