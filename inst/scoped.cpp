// Instantiation unit for ScopedState<>: a header-only template whose member functions the library instantiates only piecemeal.
// Only parsed by the extractor, never compiled to code or run.
#include "ompl/base/ScopedState.h"
#include "ompl/base/spaces/SE3StateSpace.h"

template class ompl::base::ScopedState<>;
