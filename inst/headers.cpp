// Instantiation unit for header-only (inline) classes that no library unit includes, so that their member
// functions are parsed with resolved bodies. Only parsed, never compiled to code or run.
#include "ompl/base/ConstrainedSpaceInformation.h"
