// Replay for C09 / R09m: PlannerData::clear() frees the graph but keeps stateIndexMap_, startVertexIndices_ and goalVertexIndices_.
// PlannerDataStorage::load() starts with pd.clear(), so loading a stored graph into a PlannerData object that was used before
// gives a graph with the previous graph's start / goal marks on top of the stored ones.
// Build: see README.md (+ -lboost_serialization). Exit 0 = the loaded graph has the marks of the stored one; exit 1 = it does not.
#include <ompl/base/PlannerData.h>
#include <ompl/base/PlannerDataStorage.h>
#include <ompl/base/SpaceInformation.h>
#include <ompl/base/ScopedState.h>
#include <ompl/base/spaces/RealVectorStateSpace.h>
#include <iostream>
#include <sstream>
namespace ob = ompl::base;
int main()
{
    ompl::msg::setLogLevel(ompl::msg::LOG_NONE);
    auto space = std::make_shared<ob::RealVectorStateSpace>(2);
    space->setBounds(-1, 1);
    auto si = std::make_shared<ob::SpaceInformation>(space);
    si->setStateValidityChecker([](const ob::State *) { return true; });
    si->setup();
    std::vector<ob::ScopedState<>> st;
    for (int i = 0; i < 6; ++i) { st.emplace_back(space); st.back()[0] = 0.1 * i; st.back()[1] = -0.1 * i; }

    // the graph that is stored: 3 vertices, vertex 0 is the only start, vertex 2 the only goal
    ob::PlannerData stored(si);
    stored.addStartVertex(ob::PlannerDataVertex(st[0].get()));
    stored.addVertex(ob::PlannerDataVertex(st[1].get()));
    stored.addGoalVertex(ob::PlannerDataVertex(st[2].get()));
    stored.addEdge(0, 1); stored.addEdge(1, 2);
    std::stringstream ss;
    ob::PlannerDataStorage storage;
    storage.store(stored, ss);

    // a PlannerData object that held another graph before: starts at vertices 1 and 2, goal at vertex 0
    ob::PlannerData used(si);
    used.addGoalVertex(ob::PlannerDataVertex(st[3].get()));
    used.addStartVertex(ob::PlannerDataVertex(st[4].get()));
    used.addStartVertex(ob::PlannerDataVertex(st[5].get()));
    storage.load(ss, used);

    std::cout << "stored: " << stored.numVertices() << " vertices, " << stored.numStartVertices() << " start, " << stored.numGoalVertices() << " goal\n";
    std::cout << "loaded: " << used.numVertices() << " vertices, " << used.numStartVertices() << " start, " << used.numGoalVertices() << " goal";
    std::cout << "; start marks at:";
    for (unsigned i = 0; i < used.numVertices(); ++i) if (used.isStartVertex(i)) std::cout << ' ' << i;
    std::cout << "; goal marks at:";
    for (unsigned i = 0; i < used.numVertices(); ++i) if (used.isGoalVertex(i)) std::cout << ' ' << i;
    std::cout << std::endl;
    bool same = used.numVertices() == 3 && used.numStartVertices() == 1 && used.numGoalVertices() == 1 && used.isStartVertex(0) &&
                used.isGoalVertex(2) && !used.isGoalVertex(0) && !used.isStartVertex(1) && !used.isStartVertex(2);
    if (!same) { std::cout << "VIOLATION: the loaded graph carries marks of the graph the object held before" << std::endl; return 1; }
    return 0;
}
