// Concurrent use of the documented thread-safe surface (C19); build against a TSan-instrumented libompl.
#include "ompl/base/SpaceInformation.h"
#include "ompl/base/spaces/RealVectorStateSpace.h"
#include "ompl/base/PlannerTerminationCondition.h"
#include "ompl/datastructures/NearestNeighborsGNAT.h"
#include "ompl/util/Console.h"
#include "ompl/base/ScopedState.h"
#include <thread>
#include <vector>
#include <cstdio>
#include <cstring>
namespace ob=ompl::base;
int main(int argc,char**argv){
  const char*what = argc>1?argv[1]:"all";
  ompl::msg::setLogLevel(ompl::msg::LOG_NONE);
  auto space=std::make_shared<ob::RealVectorStateSpace>(2); space->setBounds(0,1);
  auto si=std::make_shared<ob::SpaceInformation>(space); si->setStateValidityChecker([](const ob::State*){return true;}); si->setup();
  const int T=4, N=20000;
  if(!strcmp(what,"counters")||!strcmp(what,"all")){
    ob::ScopedState<> a(space),b(space); a[0]=.1;a[1]=.1;b[0]=.9;b[1]=.9;
    std::vector<std::thread> th; for(int t=0;t<T;++t) th.emplace_back([&]{ for(int i=0;i<N;++i) si->checkMotion(a.get(),b.get()); });
    for(auto&t:th) t.join();
    printf("checkMotion calls=%d  getCheckedMotionCount()=%u\n", T*N, si->getMotionValidator()->getCheckedMotionCount());
  }
  if(!strcmp(what,"gnat")||!strcmp(what,"all")){
    ompl::NearestNeighborsGNAT<int> nn(4,2,6,5); nn.setDistanceFunction([](const int&x,const int&y){return (double)std::abs(x-y);});
    for(int i=0;i<500;++i) nn.add(i*7%501);
    std::vector<std::thread> th; for(int t=0;t<T;++t) th.emplace_back([&,t]{ std::vector<int> out; for(int i=0;i<2000;++i){ nn.nearestK((i*13+t)%500,5,out); } });
    for(auto&t:th) t.join(); printf("gnat queries done\n");
  }
  if(!strcmp(what,"ptc")||!strcmp(what,"all")){
    ob::PlannerTerminationCondition ptc([]{return false;}, 0.001);
    std::thread th([&]{ std::this_thread::sleep_for(std::chrono::milliseconds(20)); ptc.terminate(); });
    unsigned long n=0; while(!ptc()) ++n; th.join(); printf("ptc terminated after %lu evals\n", n);
  }
  if(!strcmp(what,"console")||!strcmp(what,"all")){
    ompl::msg::OutputHandlerSTD h;
    std::thread t1([&]{ for(int i=0;i<20000;++i){ ompl::msg::useOutputHandler(&h); ompl::msg::restorePreviousOutputHandler(); } });
    std::thread t2([&]{ volatile void*p; for(int i=0;i<20000;++i) p=ompl::msg::getOutputHandler(); (void)p; });
    t1.join(); t2.join(); printf("console done\n");
  }
}
