// Replay for C03 / R03d: STRRTstar::pruneGoalTree() allocates a scratch state for every descendant of a pruned goal it tries to
// re-wire (TreeGrowingInfo tgi{}; tgi.xstate = si_->allocState();) and never frees it: the aggregate goes out of scope with the
// state still allocated. Every improvement of the solution time that prunes a goal with descendants leaks states; nothing owns
// them, so neither clear() nor the destructor releases them.
// Build: see README.md. Exit 0 = every state allocated through the space was freed once planner, problem and paths are gone;
// exit 1 = states are still allocated.
#include <ompl/base/SpaceInformation.h>
#include <ompl/base/ProblemDefinition.h>
#include <ompl/base/ScopedState.h>
#include <ompl/base/spaces/SpaceTimeStateSpace.h>
#include <ompl/base/spaces/RealVectorStateSpace.h>
#include <ompl/base/terminationconditions/IterationTerminationCondition.h>
#include <ompl/geometric/planners/rrt/STRRTstar.h>
#include <ompl/util/RandomNumbers.h>
#include <iostream>
namespace ob = ompl::base;
namespace og = ompl::geometric;

static long live = 0, allocated = 0;
class CountingSpaceTime : public ob::SpaceTimeStateSpace
{
public:
    using ob::SpaceTimeStateSpace::SpaceTimeStateSpace;
    ob::State *allocState() const override { ++live; ++allocated; return ob::SpaceTimeStateSpace::allocState(); }
    void freeState(ob::State *s) const override { --live; ob::SpaceTimeStateSpace::freeState(s); }
};

class SpeedLimit : public ob::MotionValidator
{
public:
    explicit SpeedLimit(const ob::SpaceInformationPtr &si) : ob::MotionValidator(si) {}
    bool checkMotion(const ob::State *s1, const ob::State *s2) const override
    {
        if (!si_->isValid(s2)) return false;
        auto *space = si_->getStateSpace()->as<ob::SpaceTimeStateSpace>();
        double dp = space->distanceSpace(s1, s2);
        double dt = s2->as<ob::CompoundState>()->as<ob::TimeStateSpace::StateType>(1)->position -
                    s1->as<ob::CompoundState>()->as<ob::TimeStateSpace::StateType>(1)->position;
        return dt > 0 && dp / dt <= space->getVMax();
    }
    bool checkMotion(const ob::State *, const ob::State *, std::pair<ob::State *, double> &) const override { return false; }
};

int main(int argc, char **argv)
{
    ompl::msg::setLogLevel(ompl::msg::LOG_NONE);
    ompl::RNG::setSeed(argc > 1 ? atoi(argv[1]) : 1);
    long pruned_runs = 0;
    {
        auto vec = std::make_shared<ob::RealVectorStateSpace>(1);
        ob::RealVectorBounds b(1); b.setLow(-1.0); b.setHigh(1.0); vec->setBounds(b);
        auto space = std::make_shared<CountingSpaceTime>(vec, 0.2);
        space->setTimeBounds(0.0, 30.0);
        auto si = std::make_shared<ob::SpaceInformation>(space);
        // a moving obstacle: the direct route is blocked for a while, so early solutions are slow and later ones improve
        si->setStateValidityChecker([](const ob::State *s) {
            double x = s->as<ob::CompoundState>()->as<ob::RealVectorStateSpace::StateType>(0)->values[0];
            double t = s->as<ob::CompoundState>()->as<ob::TimeStateSpace::StateType>(1)->position;
            return !(x > -0.1 && x < 0.1 && t > 2.0 && t < 6.0);
        });
        si->setMotionValidator(std::make_shared<SpeedLimit>(si));
        si->setup();
        {
            auto pdef = std::make_shared<ob::ProblemDefinition>(si);
            ob::ScopedState<> start(space), goal(space);
            start[0] = -0.8; goal[0] = 0.8;
            pdef->setStartAndGoalStates(start, goal);
            og::STRRTstar planner(si);
            planner.setRange(0.2);
            planner.setProblemDefinition(pdef);
            planner.setup();
            planner.solve(ob::IterationTerminationCondition(4000));
            std::cout << "solved: " << pdef->hasSolution() << ", states allocated so far: " << allocated << std::endl;
            planner.clear();
        }   // planner, problem definition, paths and scoped states are destroyed here
        std::cout << "states still allocated after everything was destroyed: " << live << std::endl;
    }
    (void)pruned_runs;
    if (live != 0) { std::cout << "VIOLATION: " << live << " states were never freed" << std::endl; return 1; }
    return 0;
}
