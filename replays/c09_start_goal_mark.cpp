#include "ompl/base/PlannerData.h"
#include "ompl/base/PlannerDataStorage.h"
#include "ompl/base/spaces/RealVectorStateSpace.h"
#include "ompl/base/SpaceInformation.h"
#include "ompl/base/ScopedState.h"
#include <sstream>
#include <cstdio>
namespace ob=ompl::base;
int main(){
  ompl::msg::setLogLevel(ompl::msg::LOG_NONE);
  auto space=std::make_shared<ob::RealVectorStateSpace>(2); space->setBounds(0,1);
  auto si=std::make_shared<ob::SpaceInformation>(space); si->setup();
  ob::ScopedState<> a(space), b(space); a[0]=0.1;a[1]=0.1;b[0]=0.9;b[1]=0.9;
  ob::PlannerData pd(si);
  unsigned i=pd.addStartVertex(ob::PlannerDataVertex(a.get()));
  pd.markGoalState(a.get());           // the start is also a goal
  pd.addVertex(ob::PlannerDataVertex(b.get()));
  printf("before: v%u start=%d goal=%d  starts=%u goals=%u\n", i, pd.isStartVertex(i), pd.isGoalVertex(i), pd.numStartVertices(), pd.numGoalVertices());
  std::stringstream ss; ob::PlannerDataStorage st; st.store(pd, ss);
  ob::PlannerData pd2(si); bool ok=st.load(ss, pd2);
  printf("after : load=%d v0 start=%d goal=%d  starts=%u goals=%u\n", ok, pd2.isStartVertex(0), pd2.isGoalVertex(0), pd2.numStartVertices(), pd2.numGoalVertices());
}
