// Replay for C03, C01 / R03t: LBTRRT::solve() seeds its exact-solution variable from lastGoalMotion_ (Motion *solution =
// lastGoalMotion_;) and stores lastGoalMotion_ = solution AFTER the fall-back "solution = approxSol; approximate = true".
// When a first solve() ends with an approximate solution only, the next solve() on the same query starts with the approximate
// node as its exact solution: it returns EXACT_SOLUTION and registers, as exact, a path whose last state is outside the goal.
// Build: see README.md. Exit 0 = every status agrees with the path it registered; exit 1 = an exact status for a path that ends
// outside the goal region.
#include <ompl/geometric/planners/rrt/LBTRRT.h>
#include <ompl/geometric/PathGeometric.h>
#include <ompl/base/spaces/RealVectorStateSpace.h>
#include <ompl/base/goals/GoalState.h>
#include <ompl/base/ScopedState.h>
#include <ompl/base/terminationconditions/IterationTerminationCondition.h>
#include <ompl/util/RandomNumbers.h>
#include <iostream>
namespace ob = ompl::base;
namespace og = ompl::geometric;
int main()
{
    ompl::msg::setLogLevel(ompl::msg::LOG_NONE);
    ompl::RNG::setSeed(1);
    auto space = std::make_shared<ob::RealVectorStateSpace>(2);
    space->setBounds(0, 1);
    auto si = std::make_shared<ob::SpaceInformation>(space);
    // the goal (0.9, 0.5) is valid but walled in: no exact solution exists
    si->setStateValidityChecker([](const ob::State *s) {
        const double x = s->as<ob::RealVectorStateSpace::StateType>()->values[0], y = s->as<ob::RealVectorStateSpace::StateType>()->values[1];
        const double dx = x - 0.9, dy = y - 0.5, r = std::sqrt(dx * dx + dy * dy);
        return !(r > 0.05 && r < 0.09);
    });
    si->setStateValidityCheckingResolution(0.005);
    si->setup();
    auto pdef = std::make_shared<ob::ProblemDefinition>(si);
    ob::ScopedState<> start(space), goal(space);
    start[0] = 0.1; start[1] = 0.5; goal[0] = 0.9; goal[1] = 0.5;
    pdef->setStartAndGoalStates(start, goal, 0.01);
    og::LBTRRT planner(si);
    planner.setProblemDefinition(pdef);
    planner.setup();
    int bad = 0;
    for (int call = 1; call <= 3; ++call)
    {
        pdef->clearSolutionPaths();
        ob::PlannerStatus st = planner.solve(ob::IterationTerminationCondition(call == 1 ? 400 : 5));
        double d = -1;
        bool inGoal = false;
        if (pdef->hasSolution())
        {
            auto &p = *pdef->getSolutionPath()->as<og::PathGeometric>();
            inGoal = pdef->getGoal()->isSatisfied(p.getState(p.getStateCount() - 1), &d);
        }
        std::cout << "solve #" << call << ": " << st.asString() << "; approximate flag " << pdef->hasApproximateSolution()
                  << "; last state " << (inGoal ? "in" : "outside") << " the goal region (distance " << d << ")" << std::endl;
        if (st == ob::PlannerStatus::EXACT_SOLUTION && !inGoal)
            ++bad;
    }
    if (bad) { std::cout << "VIOLATION: an exact status for a path that ends outside the goal" << std::endl; return 1; }
    return 0;
}
