#include "ompl/base/spaces/constraint/ProjectedStateSpace.h"
#include "ompl/base/spaces/RealVectorStateSpace.h"
#include "ompl/base/ConstrainedSpaceInformation.h"
#include "ompl/base/Constraint.h"
#include <cstdio>
namespace ob=ompl::base;
// torus: (sqrt(x^2+y^2)-R)^2 + z^2 - r^2 = 0
struct Torus : ob::Constraint { Torus():ob::Constraint(3,1){}
  void function(const Eigen::Ref<const Eigen::VectorXd>&x, Eigen::Ref<Eigen::VectorXd> out) const override { double q=std::sqrt(x[0]*x[0]+x[1]*x[1]); out[0]=(q-2.0)*(q-2.0)+x[2]*x[2]-0.25; } };
struct Sphere : ob::Constraint { Sphere():ob::Constraint(3,1){}
  void function(const Eigen::Ref<const Eigen::VectorXd>&x, Eigen::Ref<Eigen::VectorXd> out) const override { out[0]=x.norm()-1; } };
template<class C> void run(const char*n, double lo, double hi){
  ompl::msg::setLogLevel(ompl::msg::LOG_NONE);
  auto rv=std::make_shared<ob::RealVectorStateSpace>(3); rv->setBounds(lo,hi);
  auto c=std::make_shared<C>();
  auto css=std::make_shared<ob::ProjectedStateSpace>(rv,c);
  auto csi=std::make_shared<ob::ConstrainedSpaceInformation>(css);
  csi->setStateValidityChecker([](const ob::State*){return true;}); csi->setup();
  auto s=css->allocStateSampler(); ob::State*st=css->allocState(); int bad=0,oob=0,N=20000; double worst=0;
  for(int i=0;i<N;++i){ s->sampleUniform(st); if(!c->isSatisfied(st)){++bad; worst=std::max(worst,c->distance(st));} if(!css->satisfiesBounds(st)) ++oob; }
  printf("%s bounds[%g,%g]: %d / %d uniform samples violate the constraint (worst |f|=%g), %d out of bounds\n", n, lo,hi,bad,N,worst,oob);
  css->freeState(st);
}
int main(){ run<Sphere>("sphere",-2,2); run<Sphere>("sphere",-0.9,0.9); run<Torus>("torus",-3,3); run<Torus>("torus",-2.2,2.2); }
