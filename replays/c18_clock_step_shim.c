#define _GNU_SOURCE
#include <time.h>
#include <dlfcn.h>
#include <stdlib.h>
static long offset_s = 0;
void step_wall_clock(long s){ offset_s += s; }
int clock_gettime(clockid_t id, struct timespec *ts){
  static int (*real)(clockid_t, struct timespec*) = 0;
  if(!real) real = dlsym(RTLD_NEXT, "clock_gettime");
  int r = real(id, ts);
  if(id==CLOCK_REALTIME) ts->tv_sec += offset_s;
  return r;
}
