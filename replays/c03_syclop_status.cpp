#include "ompl/control/SpaceInformation.h"
#include "ompl/control/spaces/RealVectorControlSpace.h"
#include "ompl/base/spaces/RealVectorStateSpace.h"
#include "ompl/control/planners/syclop/SyclopRRT.h"
#include "ompl/control/planners/syclop/GridDecomposition.h"
#include "ompl/base/goals/GoalState.h"
#include "ompl/base/terminationconditions/IterationTerminationCondition.h"
#include "ompl/base/ScopedState.h"
#include <cstdio>
namespace ob=ompl::base; namespace oc=ompl::control;
struct Dec : oc::GridDecomposition {
  Dec(const ob::RealVectorBounds&b):oc::GridDecomposition(4,2,b){}
  void project(const ob::State*s, std::vector<double>&c) const override { c.resize(2); c[0]=s->as<ob::RealVectorStateSpace::StateType>()->values[0]; c[1]=s->as<ob::RealVectorStateSpace::StateType>()->values[1]; }
  void sampleFullState(const ob::StateSamplerPtr &sampler, const std::vector<double>&c, ob::State*s) const override { sampler->sampleUniform(s); s->as<ob::RealVectorStateSpace::StateType>()->values[0]=c[0]; s->as<ob::RealVectorStateSpace::StateType>()->values[1]=c[1]; }
};
int main(){
  ompl::msg::setLogLevel(ompl::msg::LOG_NONE);
  auto space=std::make_shared<ob::RealVectorStateSpace>(2); ob::RealVectorBounds b(2); b.setLow(0); b.setHigh(10); space->setBounds(b);
  auto cs=std::make_shared<oc::RealVectorControlSpace>(space,2); ob::RealVectorBounds cb(2); cb.setLow(-1); cb.setHigh(1); cs->setBounds(cb);
  auto si=std::make_shared<oc::SpaceInformation>(space,cs);
  si->setStateValidityChecker([&](const ob::State*s){return space->satisfiesBounds(s);});
  si->setStatePropagator([](const ob::State*s,const oc::Control*c,double d,ob::State*r){ auto*v=s->as<ob::RealVectorStateSpace::StateType>()->values; auto*u=c->as<oc::RealVectorControlSpace::ControlType>()->values; auto*o=r->as<ob::RealVectorStateSpace::StateType>()->values; o[0]=v[0]+d*u[0]; o[1]=v[1]+d*u[1];});
  si->setPropagationStepSize(0.05); si->setMinMaxControlDuration(1,5); si->setup();
  auto pdef=std::make_shared<ob::ProblemDefinition>(si);
  ob::ScopedState<> st(space), g(space); st[0]=1; st[1]=1; g[0]=9; g[1]=9;
  pdef->setStartAndGoalStates(st,g,0.01);
  auto planner=std::make_shared<oc::SyclopRRT>(si, std::make_shared<Dec>(b));
  planner->setProblemDefinition(pdef); planner->setup();
  ob::IterationTerminationCondition itc(30);
  ob::PlannerStatus s=planner->solve(itc);
  printf("status=%s  pdef.hasSolution=%d hasApproximateSolution=%d hasExactSolution=%d difference=%g\n", s.asString().c_str(), pdef->hasSolution(), pdef->hasApproximateSolution(), pdef->hasExactSolution(), pdef->getSolutionDifference());
}
