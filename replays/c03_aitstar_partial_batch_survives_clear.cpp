// Replay for C03 / R03o: aitstar::ImplicitGraph::clear() empties vertices_, start/goal lists and counters but not newSamples_, the
// partially drawn batch kept when the termination condition fires in the middle of addSamples().  After AITstar::clear() the next
// query completes that batch: states sampled (and goal-labelled) for the previous query become vertices of the new one.
// Build: g++ -std=c++17 -I/repo/src -I/repo/_build/src -I/usr/include/eigen3 this.cpp -L/repo/_build/src/ompl -lompl
// Exit 0 = no vertex of the second query was drawn during the first; exit 1 = stale states found.
#include <ompl/geometric/planners/informedtrees/AITstar.h>
#include <ompl/base/spaces/RealVectorStateSpace.h>
#include <ompl/base/ScopedState.h>
#include <ompl/base/PlannerData.h>
#include <ompl/base/objectives/PathLengthOptimizationObjective.h>
#include <iostream>
#include <set>
namespace ob = ompl::base;
namespace og = ompl::geometric;
int main()
{
    ompl::msg::setLogLevel(ompl::msg::LOG_NONE);
    auto space = std::make_shared<ob::RealVectorStateSpace>(2);
    space->setBounds(0, 1);
    auto si = std::make_shared<ob::SpaceInformation>(space);
    int phase = 1;
    unsigned long checks = 0;
    std::set<std::pair<double, double>> seen[3];
    si->setStateValidityChecker([&](const ob::State *s) {
        const auto *r = s->as<ob::RealVectorStateSpace::StateType>();
        seen[phase].insert({r->values[0], r->values[1]});
        ++checks;
        return true;
    });
    si->setStateValidityCheckingResolution(0.25);   // few checks per motion, so the interrupt falls into the sampling of a batch
    si->setup();
    auto mk = [&](double sx, double sy, double gx, double gy) {
        auto pdef = std::make_shared<ob::ProblemDefinition>(si);
        ob::ScopedState<> s(space), g(space);
        s[0] = sx; s[1] = sy; g[0] = gx; g[1] = gy;
        pdef->setStartAndGoalStates(s, g, 0.05);
        pdef->setOptimizationObjective(std::make_shared<ob::PathLengthOptimizationObjective>(si));
        return pdef;
    };
    og::AITstar p(si);
    p.setProblemDefinition(mk(0.1, 0.1, 0.9, 0.9));
    p.setup();
    // first query: interrupted in the middle of the first batch (default batch size 100)
    p.solve(ob::PlannerTerminationCondition([&] { return checks >= 40; }));
    std::cout << "checks after first solve " << checks << ", seen " << seen[1].size() << std::endl;
    p.clear();
    phase = 2;
    const unsigned long before = checks;
    p.setProblemDefinition(mk(0.2, 0.8, 0.8, 0.2));
    p.setup();
    p.solve(ob::PlannerTerminationCondition([&] { return checks >= before + 400; }));
    ob::PlannerData data(si);
    p.getPlannerData(data);
    unsigned stale = 0;
    for (unsigned i = 0; i < data.numVertices(); ++i)
    {
        const auto *r = data.getVertex(i).getState()->as<ob::RealVectorStateSpace::StateType>();
        std::pair<double, double> k{r->values[0], r->values[1]};
        if (seen[1].count(k) && !seen[2].count(k))
        {
            if (stale < 3)
                std::cout << "vertex (" << k.first << ", " << k.second << ") of the second query was sampled for the first one" << std::endl;
            ++stale;
        }
    }
    std::cout << data.numVertices() << " vertices after the second query, " << stale << " drawn during the first" << std::endl;
    if (stale) { std::cout << "VIOLATION: clear() did not forget the partially sampled batch" << std::endl; return 1; }
    return 0;
}
