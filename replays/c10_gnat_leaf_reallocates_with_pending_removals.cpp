// Replay for C10 / R10h: a GNAT leaf is split only when it holds more than maxNumPtsPerLeaf AND more than degree_ elements, but
// its storage was reserved for maxNumPtsPerLeaf + 1.  With degree > leaf size (a legal parameterisation) a leaf outgrows the
// reservation, std::vector reallocates, and the removal cache -- which stores pointers into the leaf -- dangles: the removed
// element is listed and returned by queries again.
// Build: g++ -std=c++17 -I/repo/src -I/repo/_build/src -I/usr/include/eigen3 this.cpp -L/repo/_build/src/ompl -lompl
// Exit 0 = removed element stays removed in both GNAT variants; 1 = it came back.
#include <ompl/datastructures/NearestNeighborsGNAT.h>
#include <ompl/datastructures/NearestNeighborsGNATNoThreadSafety.h>
#include <cmath>
#include <cstdio>
template <class NN>
int run(const char *name)
{
    NN nn(8, 4, 12, 5, 500);   // degree 8, min 4, max 12, at most 5 points per leaf, removal cache 500
    nn.setDistanceFunction([](const double &a, const double &b) { return std::fabs(a - b); });
    for (int i = 0; i < 7; ++i)
        nn.add(10. * i);
    bool ok = nn.remove(30.);
    nn.add(70.);
    std::vector<double> l;
    nn.list(l);
    std::vector<double> nb;
    nn.nearestK(31., 1, nb);
    bool listed = false;
    for (double d : l)
        listed = listed || d == 30.;
    std::printf("%s: remove(30) = %d, size() = %zu, list() has %zu elements%s, nearest to 31 = %g\n", name, ok, nn.size(), l.size(),
                listed ? " INCLUDING 30" : "", nb[0]);
    return (listed || nb[0] == 30. || l.size() != nn.size()) ? 1 : 0;
}
int main()
{
    int bad = run<ompl::NearestNeighborsGNAT<double>>("GNAT") + run<ompl::NearestNeighborsGNATNoThreadSafety<double>>("GNATNoThreadSafety");
    if (bad)
        std::printf("VIOLATION: a removed element is returned again\n");
    return bad ? 1 : 0;
}
