// C19 / R19a: concurrent SpaceInformation::checkMotion (const, documented thread safe) on a shared space information
// whose space is an AtlasStateSpace: the const geodesic traversal creates charts in mutable members without
// synchronisation. Build against a TSan-instrumented libompl (see README.md).
#include "ompl/base/Constraint.h"
#include "ompl/base/ConstrainedSpaceInformation.h"
#include "ompl/base/spaces/RealVectorStateSpace.h"
#include "ompl/base/spaces/constraint/AtlasStateSpace.h"
#include "ompl/util/Console.h"
#include <thread>
#include <vector>
#include <cstdio>
namespace ob = ompl::base;
struct Sphere : ob::Constraint
{
    Sphere() : ob::Constraint(3, 1) {}
    void function(const Eigen::Ref<const Eigen::VectorXd> &x, Eigen::Ref<Eigen::VectorXd> out) const override
    {
        out[0] = x.norm() - 1;
    }
    void jacobian(const Eigen::Ref<const Eigen::VectorXd> &x, Eigen::Ref<Eigen::MatrixXd> out) const override
    {
        out = x.transpose().normalized();
    }
};
int main()
{
    ompl::msg::setLogLevel(ompl::msg::LOG_NONE);
    auto rv = std::make_shared<ob::RealVectorStateSpace>(3);
    rv->setBounds(-2, 2);
    auto con = std::make_shared<Sphere>();
    auto css = std::make_shared<ob::AtlasStateSpace>(rv, con);
    auto csi = std::make_shared<ob::ConstrainedSpaceInformation>(css);
    css->setSpaceInformation(csi.get());
    csi->setStateValidityChecker([](const ob::State *) { return true; });
    csi->setup();
    Eigen::VectorXd a(3), b(3);
    a << 0, 0, -1;
    b << 0, 0, 1;
    {
        ob::State *anchor = css->allocState();
        anchor->as<ob::AtlasStateSpace::StateType>()->copy(a);
        css->anchorChart(anchor);
    }
    const int T = 4;
    std::vector<std::thread> th;
    for (int t = 0; t < T; ++t)
        th.emplace_back([&, t] {
            ob::State *s1 = css->allocState(), *s2 = css->allocState();
            for (int i = 0; i < 200; ++i)
            {
                Eigen::VectorXd p(3), q(3);
                double u = 0.1 * (i + 1) + t, v = 0.37 * (i + 3) + 2 * t;
                p << cos(u) * sin(v), sin(u) * sin(v), cos(v);
                q << cos(v) * sin(u), sin(v) * sin(u), cos(u);
                s1->as<ob::AtlasStateSpace::StateType>()->copy(p);
                s2->as<ob::AtlasStateSpace::StateType>()->copy(q);
                csi->checkMotion(s1, s2);
            }
        });
    for (auto &t : th)
        t.join();
    printf("charts: %u\n", (unsigned)css->getChartCount());
}
