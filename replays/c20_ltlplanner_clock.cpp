// C20 / R20c: control::LTLPlanner::explore() runs for exploreTime_ (0.5) seconds of wall-clock time per lead, whatever
// termination condition the caller passes.  With a fixed seed and a termination condition that only counts evaluations
// the planner therefore does a machine- and load-dependent amount of work: status / path differ between runs.
// Usage: c20_ltlplanner_clock <leads> [busy]   -- prints a hash of (status, lower solution path); run it twice, once with
// the argument `busy` (which steals CPU in a background thread), and compare.
#include <ompl/control/SpaceInformation.h>
#include <ompl/base/spaces/SE2StateSpace.h>
#include <ompl/control/spaces/RealVectorControlSpace.h>
#include <ompl/control/planners/syclop/GridDecomposition.h>
#include <ompl/control/planners/ltl/PropositionalDecomposition.h>
#include <ompl/control/planners/ltl/Automaton.h>
#include <ompl/control/planners/ltl/ProductGraph.h>
#include <ompl/control/planners/ltl/LTLPlanner.h>
#include <ompl/control/planners/ltl/LTLProblemDefinition.h>
#include <ompl/control/planners/ltl/LTLSpaceInformation.h>
#include <ompl/control/PathControl.h>
#include <ompl/base/ScopedState.h>
#include <atomic>
#include <thread>
#include <cstdio>
#include <cstring>
#include <cmath>
namespace ob = ompl::base;
namespace oc = ompl::control;
struct Grid : oc::GridDecomposition
{
    Grid(const ob::RealVectorBounds &b) : oc::GridDecomposition(8, 2, b) {}
    void project(const ob::State *s, std::vector<double> &c) const override
    {
        c.resize(2);
        c[0] = s->as<ob::SE2StateSpace::StateType>()->getX();
        c[1] = s->as<ob::SE2StateSpace::StateType>()->getY();
    }
    void sampleFullState(const ob::StateSamplerPtr &sampler, const std::vector<double> &c, ob::State *s) const override
    {
        sampler->sampleUniform(s);
        s->as<ob::SE2StateSpace::StateType>()->setXY(c[0], c[1]);
    }
    const ob::RealVectorBounds &regionBounds(int rid) const { return getRegionBounds(rid); }
};
struct Props : oc::PropositionalDecomposition
{
    std::shared_ptr<Grid> g;
    Props(const std::shared_ptr<Grid> &gd) : oc::PropositionalDecomposition(gd), g(gd) {}
    int getNumProps() const override { return 2; }
    oc::World worldAtRegion(int rid) override
    {
        oc::World w(2);
        const ob::RealVectorBounds &b = g->regionBounds(rid);
        double cx = .5 * (b.low[0] + b.high[0]), cy = .5 * (b.low[1] + b.high[1]);
        w[0] = cx > 1.5 && cy < 0.5;    // p0: bottom right corner
        w[1] = cx < 0.5 && cy > 1.5;    // p1: top left corner
        return w;
    }
};
static void propagate(const ob::State *start, const oc::Control *control, const double duration, ob::State *result)
{
    const auto *se2 = start->as<ob::SE2StateSpace::StateType>();
    const auto *u = control->as<oc::RealVectorControlSpace::ControlType>();
    auto *out = result->as<ob::SE2StateSpace::StateType>();
    out->setXY(se2->getX() + u->values[0] * duration * std::cos(se2->getYaw()), se2->getY() + u->values[0] * duration * std::sin(se2->getYaw()));
    out->setYaw(se2->getYaw() + u->values[1]);
    ob::SO2StateSpace so2;
    so2.enforceBounds(out->as<ob::SO2StateSpace::StateType>(1));
}
int main(int argc, char **argv)
{
    ompl::msg::setLogLevel(ompl::msg::LOG_NONE);
    ompl::RNG::setSeed(4242);
    const unsigned leads = argc > 1 ? std::atoi(argv[1]) : 3;
    std::atomic<bool> stop{false};
    std::vector<std::thread> hogs;
    if (argc > 2 && !std::strcmp(argv[2], "busy"))
        for (unsigned i = 0; i < std::thread::hardware_concurrency() * 2; ++i)
            hogs.emplace_back([&] { volatile double x = 0; while (!stop) x = x + 1; });
    auto space = std::make_shared<ob::SE2StateSpace>();
    ob::RealVectorBounds bounds(2);
    bounds.setLow(0);
    bounds.setHigh(2);
    space->setBounds(bounds);
    auto grid = std::make_shared<Grid>(bounds);
    auto ptd = std::make_shared<Props>(grid);
    auto cspace = std::make_shared<oc::RealVectorControlSpace>(space, 2);
    ob::RealVectorBounds cb(2);
    cb.setLow(-.5);
    cb.setHigh(.5);
    cspace->setBounds(cb);
    auto si = std::make_shared<oc::SpaceInformation>(space, cspace);
    si->setStateValidityChecker([&](const ob::State *s) {
        if (!si->satisfiesBounds(s)) return false;
        const auto *p = s->as<ob::SE2StateSpace::StateType>();
        return !(p->getX() > .8 && p->getX() < 1.2 && p->getY() > .6 && p->getY() < 1.4);
    });
    si->setStatePropagator(propagate);
    si->setPropagationStepSize(0.025);
    auto cosafety = oc::Automaton::SequenceAutomaton(2, {0, 1});
    auto safety = oc::Automaton::AcceptingAutomaton(2);
    auto product = std::make_shared<oc::ProductGraph>(ptd, cosafety, safety);
    auto ltlsi = std::make_shared<oc::LTLSpaceInformation>(si, product);
    auto pdef = std::make_shared<oc::LTLProblemDefinition>(ltlsi);
    ob::ScopedState<ob::SE2StateSpace> start(space);
    start->setX(0.2);
    start->setY(0.2);
    start->setYaw(0.0);
    pdef->addLowerStartState(start.get());
    oc::LTLPlanner planner(ltlsi, product);
    planner.setProblemDefinition(pdef);
    unsigned calls = 0;   // an evaluation-count termination condition: true from the (leads+1)-th evaluation on
    ob::PlannerTerminationCondition ptc([&] { return ++calls > leads; });
    ob::PlannerStatus st = planner.solve(ptc);
    stop = true;
    for (auto &t : hogs) t.join();
    unsigned long h = 1469598103934665603ul;
    auto mix = [&](const void *d, size_t n) { for (size_t i = 0; i < n; ++i) { h ^= ((const unsigned char *)d)[i]; h *= 1099511628211ul; } };
    int s = (int)(ob::PlannerStatus::StatusType)st;
    mix(&s, sizeof s);
    size_t n = 0;
    if (pdef->hasSolution())
    {
        auto low = pdef->getLowerSolutionPath();
        auto &pc = static_cast<oc::PathControl &>(*low);
        n = pc.getStateCount();
        for (size_t i = 0; i < n; ++i)
        {
            const auto *p = pc.getState(i)->as<ob::SE2StateSpace::StateType>();
            double v[3] = {p->getX(), p->getY(), p->getYaw()};
            mix(v, sizeof v);
        }
    }
    std::printf("LTLPlanner status=%d states=%zu hash=%016lx\n", s, n, h);
    return 0;
}
