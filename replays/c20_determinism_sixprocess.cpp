// Same seed, same problem, evaluation-count termination: print a hash of (status, solution states).
#include "ompl/geometric/planners/prm/LazyPRM.h"
#include "ompl/geometric/planners/prm/LazyPRMstar.h"
#include "ompl/geometric/planners/rrt/RRT.h"
#include "ompl/geometric/planners/rrt/RRTstar.h"
#include "ompl/geometric/planners/fmt/FMT.h"
#include "ompl/geometric/planners/fmt/BFMT.h"
#include "ompl/geometric/planners/sbl/SBL.h"
#include "ompl/geometric/planners/est/EST.h"
#include "ompl/geometric/planners/kpiece/KPIECE1.h"
#include "ompl/geometric/planners/kpiece/LBKPIECE1.h"
#include "ompl/geometric/planners/informedtrees/BITstar.h"
#include "ompl/geometric/planners/informedtrees/AITstar.h"
#include "ompl/geometric/planners/informedtrees/EITstar.h"
#include "ompl/geometric/planners/rrt/LBTRRT.h"
#include "ompl/geometric/planners/rrt/RRTConnect.h"
#include "ompl/geometric/planners/rrt/TRRT.h"
#include "ompl/geometric/planners/sst/SST.h"
#include "ompl/geometric/planners/pdst/PDST.h"
#include "ompl/geometric/planners/stride/STRIDE.h"
#include "ompl/geometric/planners/prm/SPARStwo.h"
#include "ompl/geometric/PathGeometric.h"
#include "ompl/base/spaces/RealVectorStateSpace.h"
#include "ompl/base/terminationconditions/IterationTerminationCondition.h"
#include "ompl/base/objectives/PathLengthOptimizationObjective.h"
#include "ompl/base/ScopedState.h"
#include <cstdio>
#include <cstring>
#include <cmath>
namespace ob=ompl::base; namespace og=ompl::geometric;
template<class P> ob::PlannerPtr mk(const ob::SpaceInformationPtr&si){ return std::make_shared<P>(si); }
int main(int argc,char**argv){
  ompl::msg::setLogLevel(ompl::msg::LOG_NONE);
  ompl::RNG::setSeed(argc>3?atoi(argv[3]):12345);
  const char*which=argv[1]; int iters=argc>2?atoi(argv[2]):3000;
  auto space=std::make_shared<ob::RealVectorStateSpace>(2); space->setBounds(0,1);
  auto si=std::make_shared<ob::SpaceInformation>(space);
  si->setStateValidityChecker([](const ob::State*s){ const double*v=s->as<ob::RealVectorStateSpace::StateType>()->values; 
     // three disc obstacles and a wall with a gap
     auto in=[&](double cx,double cy,double r){return (v[0]-cx)*(v[0]-cx)+(v[1]-cy)*(v[1]-cy)<r*r;};
     if(in(.3,.3,.15)||in(.7,.6,.18)||in(.45,.75,.1)) return false;
     if(std::fabs(v[0]-.55)<.02 && !(v[1]>.42&&v[1]<.5)) return false; return true;});
  si->setStateValidityCheckingResolution(0.01); si->setup();
  auto pdef=std::make_shared<ob::ProblemDefinition>(si); ob::ScopedState<> a(space),b(space); a[0]=.05;a[1]=.05;b[0]=.95;b[1]=.95; pdef->setStartAndGoalStates(a,b,0.02);
  pdef->setOptimizationObjective(std::make_shared<ob::PathLengthOptimizationObjective>(si));
  ob::PlannerPtr p;
  #define C(n,T) if(!strcmp(which,n)) p=mk<og::T>(si);
  C("LazyPRM",LazyPRM) C("LazyPRMstar",LazyPRMstar) C("RRT",RRT) C("RRTstar",RRTstar) C("FMT",FMT) C("BFMT",BFMT) C("SBL",SBL) C("EST",EST) C("KPIECE1",KPIECE1) C("LBKPIECE1",LBKPIECE1) C("BITstar",BITstar) C("AITstar",AITstar) C("EITstar",EITstar) C("LBTRRT",LBTRRT) C("RRTConnect",RRTConnect) C("TRRT",TRRT) C("SST",SST) C("PDST",PDST) C("STRIDE",STRIDE)
  if(!p){printf("unknown\n");return 2;}
  p->setProblemDefinition(pdef); p->setup();
  ob::IterationTerminationCondition itc(iters);
  ob::PlannerStatus s=p->solve(itc);
  unsigned long h=1469598103934665603ul; auto mix=[&](const void*d,size_t n){ for(size_t i=0;i<n;++i){ h^=((const unsigned char*)d)[i]; h*=1099511628211ul; } };
  int st=(int)(ob::PlannerStatus::StatusType)s; mix(&st,sizeof st); size_t n=0;
  if(pdef->hasSolution()){ auto*pg=pdef->getSolutionPath()->as<og::PathGeometric>(); n=pg->getStateCount(); for(size_t i=0;i<n;++i) mix(pg->getState(i)->as<ob::RealVectorStateSpace::StateType>()->values, 2*sizeof(double)); }
  printf("%s status=%d states=%zu hash=%016lx\n", which, st, n, h);
}
