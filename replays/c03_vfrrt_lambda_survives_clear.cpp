// Replay for C03 / R03l: VFRRT::clear() resets efficientCount_, inefficientCount_, explorationInefficiency_ and step_ (the inputs of
// the gain adaptation) but not lambda_, the adapted gain itself: the query after clear() starts from the previous query's gain.
// Build: g++ -std=c++17 -I/repo/src -I/repo/_build/src -I/usr/include/eigen3 vfrrt_lambda_survives_clear.cpp -L/repo/_build/lib -lompl
// Exit 0 = lambda is back at its initial value after clear(); exit 1 = it kept the value learned by the previous query.
#include <ompl/geometric/planners/rrt/RRT.h>
#include <Eigen/Core>
#include <sstream>
#include <iostream>
#define private public   // lambda_ is a private member; every header VFRRT.h includes is already included above
#include <ompl/geometric/planners/rrt/VFRRT.h>
#undef private
#include <ompl/base/spaces/RealVectorStateSpace.h>
#include <ompl/base/ScopedState.h>
#include <ompl/base/goals/GoalState.h>
#include <ompl/base/terminationconditions/IterationTerminationCondition.h>
#include <iostream>
namespace ob = ompl::base;
namespace og = ompl::geometric;
int main()
{
    ompl::msg::setLogLevel(ompl::msg::LOG_NONE);
    auto space = std::make_shared<ob::RealVectorStateSpace>(2);
    space->setBounds(-10, 10);
    auto si = std::make_shared<ob::SpaceInformation>(space);
    si->setStateValidityChecker([](const ob::State *) { return true; });
    si->setup();
    auto pdef = std::make_shared<ob::ProblemDefinition>(si);
    ob::ScopedState<> s(space), g(space);
    s[0] = -9; s[1] = -9; g[0] = 9; g[1] = 9;
    pdef->setStartAndGoalStates(s, g, 0.01);
    auto field = [](const ob::State *) { Eigen::VectorXd v(2); v << 1.0, -1.0; return v; };   // pushes away from the goal
    const double initial = 1.0;
    og::VFRRT p(si, field, 0.7, initial, 20);
    p.setProblemDefinition(pdef);
    p.setup();
    p.solve(ob::IterationTerminationCondition(2000));
    const double learned = p.lambda_;
    p.clear();
    const double after = p.lambda_;
    std::cout << "initial lambda " << initial << ", after first query " << learned << ", after clear() " << after << std::endl;
    if (learned == initial) { std::cout << "the query did not adapt lambda; inconclusive" << std::endl; return 2; }
    if (after != initial) { std::cout << "VIOLATION: the gain learned by the previous query survives clear()" << std::endl; return 1; }
    return 0;
}
