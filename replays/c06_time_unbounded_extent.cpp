// C06 / R06g: an unbounded TimeStateSpace reports getMaximumExtent() == 1 (documented), every state satisfies its bounds, and
// the distance |t1 - t2| is unbounded: in-bounds states lie farther apart than the reported maximum extent.
#include <ompl/base/spaces/TimeStateSpace.h>
#include <ompl/base/ScopedState.h>
#include <cstdio>
namespace ob = ompl::base;
int main()
{
    auto t = std::make_shared<ob::TimeStateSpace>();
    t->setup();
    ob::ScopedState<ob::TimeStateSpace> a(t), b(t);
    a->position = 0.0;
    b->position = 5.0;
    bool in = t->satisfiesBounds(a.get()) && t->satisfiesBounds(b.get());
    double d = t->distance(a.get(), b.get()), e = t->getMaximumExtent();
    std::printf("bounded=%d in-bounds=%d distance=%g extent=%g\n", (int)t->isBounded(), (int)in, d, e);
    t->setBounds(0.0, 10.0);
    std::printf("bounded=%d distance=%g extent=%g\n", (int)t->isBounded(), t->distance(a.get(), b.get()), t->getMaximumExtent());
    bool bad = in && d > e;
    std::printf(bad ? "VIOLATED: distance between in-bounds states exceeds the reported maximum extent\n" : "ok\n");
    return bad ? 1 : 0;
}
