// C06 / R06a: a compound space that contains an asymmetric Dubins component inherits StateSpace::hasSymmetricDistance()
// == true, although its distance (the weighted sum of the components' distances) is not symmetric.
#include <ompl/base/spaces/DubinsStateSpace.h>
#include <ompl/base/spaces/RealVectorStateSpace.h>
#include <ompl/base/ScopedState.h>
#include <cstdio>
namespace ob = ompl::base;
int main()
{
    auto dubins = std::make_shared<ob::DubinsStateSpace>(1.0, false);
    ob::RealVectorBounds b(2);
    b.setLow(-10);
    b.setHigh(10);
    dubins->setBounds(b);
    auto r1 = std::make_shared<ob::RealVectorStateSpace>(1);
    r1->setBounds(-1, 1);
    auto space = std::make_shared<ob::CompoundStateSpace>();
    space->addSubspace(dubins, 1.0);
    space->addSubspace(r1, 1.0);
    space->lock();
    ob::ScopedState<> a(space), c(space);
    a[0] = 0; a[1] = 0; a[2] = 0; a[3] = 0;
    c[0] = 0; c[1] = 1; c[2] = 0; c[3] = 0;
    double ab = space->distance(a.get(), c.get()), ba = space->distance(c.get(), a.get());
    // pick a pair with a clearly asymmetric Dubins distance
    c[0] = 0.5; c[1] = 0.2; c[2] = 2.0;
    ab = space->distance(a.get(), c.get());
    ba = space->distance(c.get(), a.get());
    std::printf("component claims symmetric: %d\ncompound claims symmetric distance: %d interpolate: %d\nd(a,b)=%.6f d(b,a)=%.6f\n",
                (int)dubins->hasSymmetricDistance(), (int)space->hasSymmetricDistance(), (int)space->hasSymmetricInterpolate(), ab, ba);
    bool bad = space->hasSymmetricDistance() && std::abs(ab - ba) > 1e-6;
    std::printf(bad ? "VIOLATED: claims symmetric, is not\n" : "ok\n");
    return bad ? 1 : 0;
}
