#include "ompl/base/spaces/DubinsStateSpace.h"
#include "ompl/base/spaces/ReedsSheppStateSpace.h"
#include "ompl/base/spaces/SE2StateSpace.h"
#include "ompl/base/SpaceInformation.h"
#include "ompl/base/DiscreteMotionValidator.h"
#include "ompl/base/ScopedState.h"
#include <cstdio>
namespace ob = ompl::base;
template<class SP, class MV> void run(const char*name, bool useDefault){
  auto space = std::make_shared<SP>();
  ob::RealVectorBounds b(2); b.setLow(-10); b.setHigh(10); space->setBounds(b);
  auto si = std::make_shared<ob::SpaceInformation>(space);
  si->setStateValidityChecker([](const ob::State*s){ return s->as<ob::SE2StateSpace::StateType>()->getX() < 5.0; });
  if(!useDefault) si->setMotionValidator(std::make_shared<MV>(si));
  si->setup();
  ob::ScopedState<ob::SE2StateSpace> a(space), c(space);
  a->setXY(0,0); a->setYaw(0); c->setXY(8,0); c->setYaw(0); // end state invalid
  bool r = si->checkMotion(a.get(), c.get());
  printf("%s: checkMotion=%d valid=%u invalid=%u checked=%u (expected checked=1)\n", name, r, si->getMotionValidator()->getValidMotionCount(), si->getMotionValidator()->getInvalidMotionCount(), si->getMotionValidator()->getCheckedMotionCount());
}
int main(){
  run<ob::SE2StateSpace, ob::DiscreteMotionValidator>("SE2/Discrete", true);
  run<ob::DubinsStateSpace, ob::DubinsMotionValidator>("Dubins", false);
  run<ob::ReedsSheppStateSpace, ob::ReedsSheppMotionValidator>("ReedsShepp", false);
}
