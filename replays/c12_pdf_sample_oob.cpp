#include "ompl/datastructures/PDF.h"
#include <cstdio>
#include <random>
#include <csignal>
#include <csetjmp>
static jmp_buf jb; static void onabrt(int){ longjmp(jb,1); }
int main(){
  std::mt19937 g(7); std::uniform_real_distribution<double> U(0,1);
  signal(SIGABRT,onabrt);
  int hits=0;
  for(int trial=0; trial<20000 && hits<3; ++trial){
    ompl::PDF<int>* p = new ompl::PDF<int>(); std::vector<ompl::PDF<int>::Element*> e; std::vector<std::string> log;
    int n=2+g()%6; for(int i=0;i<n;++i){ double w=U(g); e.push_back(p->add(i,w)); log.push_back("add "+std::to_string(w)); }
    int ops=g()%12;
    for(int k=0;k<ops;++k){ int i=g()%e.size(); double w=U(g); p->update(e[i],w); log.push_back("update "+std::to_string(i)+" "+std::to_string(w)); }
    if(setjmp(jb)==0){ (void)p->sample(1.0); }
    else { ++hits; printf("OOB at sample(1.0), trial %d, history:", trial); for(auto&s:log) printf(" [%s]",s.c_str()); printf("\n"); }
  }
  printf("hits=%d\n",hits);
}
