// C15 / R15a: OrderedInfSampler::createBatch queues the state of every draw, including draws that failed.  A failed
// PHS draw (numIters_ rejections against the space bounds) leaves the last rejected -- out-of-bounds -- state in the
// buffer; sampleUniform() later returns it with `true` after the heuristic-cost test alone.
#include <ompl/base/spaces/RealVectorStateSpace.h>
#include <ompl/base/SpaceInformation.h>
#include <ompl/base/ProblemDefinition.h>
#include <ompl/base/ScopedState.h>
#include <ompl/base/goals/GoalState.h>
#include <ompl/base/objectives/PathLengthOptimizationObjective.h>
#include <ompl/base/samplers/informed/PathLengthDirectInfSampler.h>
#include <ompl/base/samplers/informed/OrderedInfSampler.h>
#include <ompl/util/RandomNumbers.h>
#include <cstdio>
namespace ob = ompl::base;
int main()
{
    ompl::RNG::setSeed(7);
    const unsigned n = 8;
    auto space = std::make_shared<ob::RealVectorStateSpace>(n);
    space->setBounds(0.0, 1.0);
    auto si = std::make_shared<ob::SpaceInformation>(space);
    si->setStateValidityChecker([](const ob::State *) { return true; });
    si->setup();
    auto pdef = std::make_shared<ob::ProblemDefinition>(si);
    ob::ScopedState<> s(space), g(space);
    for (unsigned i = 0; i < n; ++i)
    {
        s[i] = 0.01;
        g[i] = 0.02;
    }
    pdef->setStartAndGoalStates(s, g);
    pdef->setOptimizationObjective(std::make_shared<ob::PathLengthOptimizationObjective>(si));
    auto direct = std::make_shared<ob::PathLengthDirectInfSampler>(pdef, 100u);
    ob::OrderedInfSampler ordered(direct, 10u);
    ob::State *st = space->allocState();
    unsigned ok = 0, oob = 0, fail = 0, directTrueOob = 0;
    const ob::Cost c(0.6);
    for (unsigned k = 0; k < 300; ++k)
    {
        if (direct->sampleUniform(st, c) && !space->satisfiesBounds(st))
            ++directTrueOob;
        if (ordered.sampleUniform(st, c))
        {
            ++ok;
            if (!space->satisfiesBounds(st))
                ++oob;
        }
        else
            ++fail;
    }
    std::printf("direct sampler: successful samples out of bounds: %u\n", directTrueOob);
    std::printf("ordered sampler: returned true %u times, of which out of bounds: %u (false: %u)\n", ok, oob, fail);
    std::printf(oob ? "VIOLATED: a successful informed sample lies outside the space bounds\n" : "ok\n");
    space->freeState(st);
    return oob ? 1 : 0;
}
