#include "ompl/datastructures/BinaryHeap.h"
#include <cstdio>
#include <vector>
#include <random>
#include <algorithm>
int main(){
  // deterministic witness: build heap with structure where last element is smaller than parent of removed interior node
  {
    ompl::BinaryHeap<int> h;
    std::vector<ompl::BinaryHeap<int>::Element*> e;
    int keys[] = {1, 10, 2, 11, 12, 3, 4, 13, 14, 15, 16, 5};
    // layout: idx0=1, idx1=10, idx2=2, idx3=11, idx4=12, idx5=3, idx6=4, idx7=13, idx8=14, idx9=15,idx10=16, idx11=5
    for(int k: keys) e.push_back(h.insert(k));
    std::vector<int> c; h.getContent(c); printf("layout:"); for(int x:c) printf(" %d",x); printf("\n");
    // remove element at index 7 (key 13, child of 11 whose parent is 10); last element is 5 (< 11 and < 10)
    for(auto*el: e) if(el->data==13){ h.remove(el); break; }
    c.clear(); h.getContent(c); printf("after remove(13):"); for(int x:c) printf(" %d",x); printf("\n");
    std::vector<int> popped; while(!h.empty()){ popped.push_back(h.top()->data); h.pop(); }
    printf("pop order:"); for(int x:popped) printf(" %d",x); printf("  sorted=%d\n", (int)std::is_sorted(popped.begin(),popped.end()));
  }
  // random frequency
  std::mt19937 g(1); int bad=0, N=20000;
  for(int t=0;t<N;++t){ ompl::BinaryHeap<int> h; std::vector<ompl::BinaryHeap<int>::Element*> e; int n=5+g()%30; for(int i=0;i<n;++i) e.push_back(h.insert(g()%1000)); h.remove(e[g()%n]); std::vector<int> p; while(!h.empty()){p.push_back(h.top()->data); h.pop();} if(!std::is_sorted(p.begin(),p.end())) ++bad; }
  printf("random single removals with mis-ordered pops: %d / %d\n", bad, N);
}
