// C16 / R16d: AtlasStateSampler (and, with the same code, the tangent-bundle space) calls space_->enforceBounds(state) after the
// chart projection psi(); when the bounds cut the manifold the clamped state is off the manifold.
#include "ompl/base/spaces/constraint/AtlasStateSpace.h"
#include "ompl/base/spaces/constraint/TangentBundleStateSpace.h"
#include "ompl/base/spaces/RealVectorStateSpace.h"
#include "ompl/base/ConstrainedSpaceInformation.h"
#include "ompl/base/Constraint.h"
#include <cstdio>
namespace ob = ompl::base;
struct Sphere : ob::Constraint
{
    Sphere() : ob::Constraint(3, 1) {}
    void function(const Eigen::Ref<const Eigen::VectorXd> &x, Eigen::Ref<Eigen::VectorXd> out) const override { out[0] = x.norm() - 1; }
    void jacobian(const Eigen::Ref<const Eigen::VectorXd> &x, Eigen::Ref<Eigen::MatrixXd> out) const override { out = x.transpose().normalized(); }
};
template <class Space>
int run(const char *name, double lo, double hi)
{
    ompl::msg::setLogLevel(ompl::msg::LOG_NONE);
    auto rv = std::make_shared<ob::RealVectorStateSpace>(3);
    rv->setBounds(lo, hi);
    auto c = std::make_shared<Sphere>();
    auto css = std::make_shared<Space>(rv, c);
    auto csi = std::make_shared<ob::ConstrainedSpaceInformation>(css);
    csi->setStateValidityChecker([](const ob::State *) { return true; });
    csi->setup();
    // anchor a chart on the manifold, inside the bounds
    Eigen::VectorXd x0(3);
    x0 << 0.6, 0.6, std::sqrt(1 - 0.72);
    ob::State *a = css->allocState();
    a->template as<ob::ConstrainedStateSpace::StateType>()->copy(x0);
    css->anchorChart(a);
    auto s = css->allocStateSampler();
    ob::State *st = css->allocState();
    int bad[3] = {0, 0, 0}, N = 5000;
    for (int i = 0; i < N; ++i)
    {
        s->sampleUniform(st);
        if (!c->isSatisfied(st)) ++bad[0];
        s->sampleUniformNear(st, a, 0.8);
        if (!c->isSatisfied(st)) ++bad[1];
        s->sampleGaussian(st, a, 0.5);
        if (!c->isSatisfied(st)) ++bad[2];
    }
    std::printf("%s bounds [%g, %g]: off-manifold samples of %d: uniform %d, near %d, gaussian %d\n", name, lo, hi, N, bad[0], bad[1], bad[2]);
    css->freeState(st);
    css->freeState(a);
    return bad[0] + bad[1] + bad[2];
}
int main()
{
    int wide = run<ob::AtlasStateSpace>("atlas", -2, 2) + run<ob::TangentBundleStateSpace>("tangent-bundle", -2, 2);
    int cut = run<ob::AtlasStateSpace>("atlas", -0.9, 0.9) + run<ob::TangentBundleStateSpace>("tangent-bundle", -0.9, 0.9);
    std::printf(cut && !wide ? "VIOLATED: with bounds that cut the manifold the samplers return states off the manifold\n" : "ok\n");
    return cut && !wide ? 1 : 0;
}
