#include "ompl/geometric/planners/rrt/LazyLBTRRT.h"
#include "ompl/base/spaces/RealVectorStateSpace.h"
#include "ompl/base/terminationconditions/IterationTerminationCondition.h"
#include "ompl/base/ScopedState.h"
#include <cstdio>
namespace ob=ompl::base; namespace og=ompl::geometric;
int main(int argc,char**argv){
  ompl::msg::setLogLevel(ompl::msg::LOG_NONE);
  auto space=std::make_shared<ob::RealVectorStateSpace>(2); space->setBounds(0,1);
  auto si=std::make_shared<ob::SpaceInformation>(space); si->setStateValidityChecker([](const ob::State*){return true;}); si->setup();
  auto pdef=std::make_shared<ob::ProblemDefinition>(si); ob::ScopedState<> a(space),b(space); a[0]=.1;a[1]=.1;b[0]=.9;b[1]=.9; pdef->setStartAndGoalStates(a,b,0.05);
  { auto p=std::make_shared<og::LazyLBTRRT>(si); p->setProblemDefinition(pdef); p->setup();
    ob::IterationTerminationCondition itc(200); auto s=p->solve(itc); printf("solve: %s\n", s.asString().c_str());
    p->clear(); printf("clear() done\n"); fflush(stdout);
  } // destructor
  printf("destroyed\n");
}
