// Replay for C04 / R04s (composite clause): a MultiOptimizationObjective with a direction-dependent component (mechanical work)
// is not symmetric, but the class inherits OptimizationObjective::isSymmetric(), which answers for the state space only (true in R^n).
// RRT* trusts the flag and re-uses the cost of the edge neighbour -> new state for the edge new state -> neighbour when it rewires,
// so the cost stored with a reported solution differs from the cost of that path under the objective (here: it is better).
// Build: see README.md. Exit 0 = stored cost equals the path's cost for every reported solution; exit 1 = it does not.
#include <ompl/geometric/planners/rrt/RRTstar.h>
#include <ompl/geometric/PathGeometric.h>
#include <ompl/base/objectives/MechanicalWorkOptimizationObjective.h>
#include <ompl/base/objectives/PathLengthOptimizationObjective.h>
#include <ompl/base/spaces/RealVectorStateSpace.h>
#include <ompl/base/ScopedState.h>
#include <ompl/base/terminationconditions/IterationTerminationCondition.h>
#include <ompl/util/RandomNumbers.h>
#include <iostream>
#include <cmath>
namespace ob = ompl::base;
namespace og = ompl::geometric;
class Hill : public ob::MechanicalWorkOptimizationObjective
{
public:
    Hill(const ob::SpaceInformationPtr &si) : ob::MechanicalWorkOptimizationObjective(si, 0.001) {}
    ob::Cost stateCost(const ob::State *s) const override
    {
        const double *v = s->as<ob::RealVectorStateSpace::StateType>()->values;
        return ob::Cost(5.0 * std::exp(-8.0 * ((v[0] - 0.5) * (v[0] - 0.5) + (v[1] - 0.5) * (v[1] - 0.5))) + 2.0 * v[1]);
    }
};
int main()
{
    ompl::msg::setLogLevel(ompl::msg::LOG_NONE);
    int bad = 0, runs = 0;
    for (int seed = 1; seed <= 6; ++seed)
    {
        ompl::RNG::setSeed(seed);
        auto space = std::make_shared<ob::RealVectorStateSpace>(2);
        space->setBounds(0, 1);
        auto si = std::make_shared<ob::SpaceInformation>(space);
        si->setStateValidityChecker([](const ob::State *) { return true; });
        si->setup();
        auto pdef = std::make_shared<ob::ProblemDefinition>(si);
        ob::ScopedState<> s(space), g(space);
        s[0] = 0.05; s[1] = 0.5; g[0] = 0.95; g[1] = 0.5;
        pdef->setStartAndGoalStates(s, g, 0.02);
        auto hill = std::make_shared<Hill>(si);
        auto opt = std::make_shared<ob::MultiOptimizationObjective>(si);
        opt->addObjective(hill, 1.0);
        opt->addObjective(std::make_shared<ob::PathLengthOptimizationObjective>(si), 0.01);
        opt->lock();
        pdef->setOptimizationObjective(opt);
        og::RRTstar p(si);
        p.setProblemDefinition(pdef);
        p.setup();
        p.solve(ob::IterationTerminationCondition(3000));
        if (!pdef->hasExactSolution()) continue;
        ++runs;
        ob::PlannerSolution sol(nullptr);
        pdef->getSolution(sol);
        const double stored = sol.cost_.value(), truth = sol.path_->cost(opt).value();
        std::cout << "seed " << seed << ": objective claims symmetric = " << opt->isSymmetric() << "; stored cost " << stored
                  << ", cost of the stored path " << truth << std::endl;
        if (std::fabs(stored - truth) > 1e-6 * std::max(1.0, truth)) ++bad;
    }
    if (bad) { std::cout << "VIOLATION: " << bad << " of " << runs << " reported solutions carry a cost that is not the cost of their path" << std::endl; return 1; }
    return 0;
}
