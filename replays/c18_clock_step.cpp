#include "ompl/base/PlannerTerminationCondition.h"
#include <thread>
#include <cstdio>
#include <dlfcn.h>
namespace ob=ompl::base;
int main(){
  auto step=(void(*)(long))dlsym(RTLD_DEFAULT,"step_wall_clock");
  if(!step){printf("no shim\n");return 2;}
  auto ptc=ob::timedPlannerTerminationCondition(0.2);
  printf("t=0     eval=%d\n",(int)ptc());
  std::this_thread::sleep_for(std::chrono::milliseconds(300));
  printf("t=0.3s  eval=%d   (duration 0.2 s elapsed)\n",(int)ptc());
  step(-3600);  // administrator / NTP steps the wall clock back one hour
  printf("after wall clock stepped back: eval=%d   (must stay 1)\n",(int)ptc());
}
