// Replay for C01 / R01p (white-box): drives EITstar's own edge-validation routines (couldBeValid / isValid, i.e.
// isValidAtResolution) with the call history the planner produces for one edge:
//     reverse search at sparse level n0, level-up (prev = cur; cur = 2 * prev + 1, as in iterateForwardSearch), reverse
//     search at the next level, then the forward search's full-resolution isValid().
// The routine skips "already performed" checks by COUNT.  With the default n0 = 1 (levels 1, 3, 7, ...) successive levels
// test nested positions and the invalid stretch is found.  With setInitialNumberOfSparseCollisionChecks(4) (levels 4, 9)
// the skipped positions were never tested: the edge is whitelisted although its first 18 % (3.6 resolution lengths) are
// invalid, and SpaceInformation::checkMotion rejects the very same motion.
#include <memory>
#include <vector>
#include <queue>
#include <set>
#include <map>
#include <string>
#include <functional>
#include <ompl/base/spaces/RealVectorStateSpace.h>
#include <ompl/base/SpaceInformation.h>
#include <ompl/base/ProblemDefinition.h>
#include <ompl/base/objectives/PathLengthOptimizationObjective.h>
#define private public
#include <ompl/geometric/planners/informedtrees/EITstar.h>
#undef private
#include <ompl/util/Console.h>
#include <iostream>
namespace ob = ompl::base;
namespace og = ompl::geometric;

static bool run(std::size_t n0)
{
    auto space = std::make_shared<ob::RealVectorStateSpace>(2);
    space->setBounds(0.0, 1.0);
    auto si = std::make_shared<ob::SpaceInformation>(space);
    // the edge runs from x = 0.10 to x = 0.38 (20 segments at the resolution); invalid for 1 % .. 19 % of it
    const double x0 = 0.10, x1 = 0.38;
    si->setStateValidityChecker([=](const ob::State *s) {
        double x = s->as<ob::RealVectorStateSpace::StateType>()->values[0];
        double f = (x - x0) / (x1 - x0);
        return !(f > 0.01 && f < 0.19);
    });
    si->setStateValidityCheckingResolution(0.01);
    si->setup();
    auto pdef = std::make_shared<ob::ProblemDefinition>(si);
    ob::ScopedState<> s(space), g(space);
    s[0] = 0.05; s[1] = 0.5; g[0] = 0.9; g[1] = 0.5;
    pdef->setStartAndGoalStates(s, g);
    auto obj = std::make_shared<ob::PathLengthOptimizationObjective>(si);
    pdef->setOptimizationObjective(obj);
    og::EITstar planner(si);
    planner.setProblemDefinition(pdef);
    planner.setInitialNumberOfSparseCollisionChecks(n0);
    planner.setup();

    auto a = std::make_shared<og::eitstar::State>(si, obj);
    auto b = std::make_shared<og::eitstar::State>(si, obj);
    a->raw()->as<ob::RealVectorStateSpace::StateType>()->values[0] = x0;
    a->raw()->as<ob::RealVectorStateSpace::StateType>()->values[1] = 0.5;
    b->raw()->as<ob::RealVectorStateSpace::StateType>()->values[0] = x1;
    b->raw()->as<ob::RealVectorStateSpace::StateType>()->values[1] = 0.5;
    og::eitstar::Edge edge(a, b);
    std::cout << "n0=" << n0 << " validSegmentCount=" << space->validSegmentCount(a->raw(), b->raw());
    bool alive = true;
    for (int level = 0; level < 2 && alive; ++level)
    {
        alive = planner.couldBeValid(edge);  // reverse search at the current sparse level
        std::cout << "  couldBeValid@" << planner.numSparseCollisionChecksCurrentLevel_ << "=" << alive;
        // level-up exactly as EITstar::iterateForwardSearch does when an edge of the reverse tree turns out invalid
        planner.numSparseCollisionChecksPreviousLevel_ = planner.numSparseCollisionChecksCurrentLevel_;
        planner.numSparseCollisionChecksCurrentLevel_ = (2u * planner.numSparseCollisionChecksPreviousLevel_) + 1u;
    }
    bool accepted = alive && planner.isValid(edge);  // forward search, full resolution
    bool reference = si->checkMotion(a->raw(), b->raw());
    std::cout << "  isValid=" << accepted << " whitelisted=" << a->isWhitelisted(b) << "  SpaceInformation::checkMotion=" << reference << "\n";
    return accepted && !reference;
}

int main()
{
    ompl::msg::setLogLevel(ompl::msg::LOG_ERROR);
    bool bad1 = run(1), bad4 = run(4);
    std::cout << (bad4 ? "VIOLATED with n0=4: an invalid motion was whitelisted as a tree edge\n" : "holds with n0=4\n");
    std::cout << (bad1 ? "VIOLATED with n0=1\n" : "holds with n0=1 (default)\n");
    return (bad1 || bad4) ? 1 : 0;
}
