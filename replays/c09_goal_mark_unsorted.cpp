// C09 / R09g: PlannerData::markGoalState appends to goalVertexIndices_ but sorts startVertexIndices_;
// isGoalVertex() binary-searches the (unsorted) goal list, so goal marks added in decreasing vertex order are not
// found, storeVertices() writes them as STANDARD and the goal mark is lost over a store/load round trip.
#include "ompl/base/PlannerData.h"
#include "ompl/base/PlannerDataStorage.h"
#include "ompl/base/SpaceInformation.h"
#include "ompl/base/spaces/RealVectorStateSpace.h"
#include <sstream>
#include <cstdio>
namespace ob = ompl::base;
int main()
{
    auto space = std::make_shared<ob::RealVectorStateSpace>(1);
    space->setBounds(0, 10);
    auto si = std::make_shared<ob::SpaceInformation>(space);
    si->setup();
    ob::PlannerData pd(si);
    std::vector<ob::State *> st;
    for (int i = 0; i < 4; ++i)
    {
        st.push_back(space->allocState());
        st.back()->as<ob::RealVectorStateSpace::StateType>()->values[0] = i;
        pd.addVertex(ob::PlannerDataVertex(st.back()));
    }
    pd.markGoalState(st[3]);
    pd.markGoalState(st[0]);  // decreasing vertex order
    printf("numGoalVertices=%u isGoalVertex(0)=%d isGoalVertex(3)=%d\n", pd.numGoalVertices(), pd.isGoalVertex(0), pd.isGoalVertex(3));
    std::stringstream ss;
    ob::PlannerDataStorage pds;
    pds.store(pd, ss);
    ob::PlannerData pd2(si);
    pds.load(ss, pd2);
    printf("after round trip: numGoalVertices=%u\n", pd2.numGoalVertices());
    int bad = !(pd.isGoalVertex(0) && pd.isGoalVertex(3) && pd2.numGoalVertices() == 2);
    printf(bad ? "VIOLATION\n" : "ok\n");
    return bad;
}
