// Replay for C03 / R03r: LBTRRT::solve() rejects "multiple start states" by testing nn_->size() > 1 *after* it has added the
// start states to nn_. nn_ also holds every motion the previous solve() grew, so a second solve() on the same query (the
// documented way to continue planning) returns INVALID_START instead of continuing the preserved search.
// Build: see README.md. Exit 0 = the resumed solve continues; exit 1 = it answers INVALID_START with a single start state.
#include <ompl/geometric/planners/rrt/LBTRRT.h>
#include <ompl/base/spaces/RealVectorStateSpace.h>
#include <ompl/base/ScopedState.h>
#include <ompl/base/terminationconditions/IterationTerminationCondition.h>
#include <iostream>
namespace ob = ompl::base;
namespace og = ompl::geometric;
int main()
{
    ompl::msg::setLogLevel(ompl::msg::LOG_NONE);
    auto space = std::make_shared<ob::RealVectorStateSpace>(2);
    space->setBounds(-10, 10);
    auto si = std::make_shared<ob::SpaceInformation>(space);
    si->setStateValidityChecker([](const ob::State *) { return true; });
    si->setup();
    auto pdef = std::make_shared<ob::ProblemDefinition>(si);
    ob::ScopedState<> s(space), g(space);
    s[0] = -9; s[1] = -9; g[0] = 9; g[1] = 9;
    pdef->setStartAndGoalStates(s, g, 0.01);
    og::LBTRRT p(si);
    p.setProblemDefinition(pdef);
    p.setup();
    ob::PlannerStatus first = p.solve(ob::IterationTerminationCondition(300));
    ob::PlannerStatus second = p.solve(ob::IterationTerminationCondition(300));
    std::cout << "start states: " << pdef->getStartStateCount() << "; first solve: " << first.asString()
              << "; resumed solve: " << second.asString() << std::endl;
    if (second == ob::PlannerStatus::INVALID_START)
    {
        std::cout << "VIOLATION: the resumed solve() refuses the query it was already working on" << std::endl;
        return 1;
    }
    return 0;
}
