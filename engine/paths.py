"""E2/E3: path-sensitive forward dataflow over clang's CFG.

A dataflow state is (auto, vals):
  auto  -- the client's automaton value (any hashable)
  vals  -- frozenset of (key, value) pairs: 3-valued valuation of *tracked predicates*
           ('v', fp)    truth of a bool variable / non-nullness of a pointer / truthiness
                        of a smart pointer, keyed by the decl-resolved fingerprint
           ('d', fp)    node id of the expression the variable was last assigned from
                        (so learning the variable's value later refines that expression)
           ('m', nid)   memo: truth value learned for expression node nid on this path
                        (cleared at statement boundaries)
           ('p', fp)    truth of a side-effect-free condition tested earlier (same
                        fingerprint), invalidated when a variable it mentions is written
The set of states per block is kept exactly (no widening); everything is finite.
Infeasible edges (condition contradicts the valuation) are not followed.
"""
from .facts import AnalysisBroken

STRIP = ('ParenExpr', 'ImplicitCastExpr', 'ExprWithCleanups', 'MaterializeTemporaryExpr', 'CXXBindTemporaryExpr',
         'ConstantExpr', 'FullExpr')
STMT_TERMS = ('IfStmt', 'WhileStmt', 'ForStmt', 'DoStmt', 'SwitchStmt', 'CXXForRangeStmt')
MAX_STATES = 60000


class Client:
    """override what is needed.  track: 'all' (variables + tested pure conditions), 'vars' (variables only),
    'none' (path-insensitive: every CFG edge is feasible, no valuation is kept)"""
    track = 'all'
    fork_bools = False   # split the state at every assignment of an unknown value to a tracked bool local
    relevant = None      # None = track every bool/pointer variable; else the set of variable keys worth tracking
    relevant_preds = None  # None = remember every tested pure condition; else the set of fingerprints worth remembering

    def init(self, fn):
        return ()

    def on_node(self, fn, node, auto, ctx):
        return auto

    def learn(self, fn, node, value, auto, ctx):
        return auto

    def at_exit(self, fn, ret, auto, ctx):
        pass

    def on_edge(self, fn, block, idx, auto, ctx):
        return auto


class Ctx:
    """what a client may ask about the current path state"""

    def __init__(self, run, vals, trace):
        self.run = run
        self.vals = dict(vals)
        self.trace = trace

    def eval(self, nid):
        return self.run.eval(nid, self.vals)

    def val(self, key):
        return self.vals.get(key)

    def path(self):
        return self.run.describe(self.trace)


def is_boolish(ty):
    if ty is None:
        return False
    t = ty.replace('const ', '').strip()
    return t in ('bool', '_Bool')


def is_ptrish(ty):
    if ty is None:
        return False
    t = ty.strip()
    return t.endswith('*') or t.endswith('*const') or 'Ptr' in t.split('::')[-1] or 'shared_ptr' in t or \
        'unique_ptr' in t


class Run:
    def __init__(self, fn, client, facts=None):
        self.fn = fn
        self.client = client
        self.facts = facts
        self.N = fn.nodes
        self.violations = []
        self.nstates = 0
        self.npaths_exit = 0
        # statement-level nodes: parents that make a child a full statement
        self._stmt_level = set()
        for n in fn.d['nodes']:
            k = n['k']
            if k == 'CompoundStmt':
                self._stmt_level.update(n['ch'])
            elif k in ('IfStmt',):
                self._stmt_level.update(x for x in (n.get('then'), n.get('else')) if x)
            elif k in ('WhileStmt', 'ForStmt', 'DoStmt', 'CXXForRangeStmt'):
                self._stmt_level.update(x for x in (n.get('body'), n.get('inc'), n.get('init')) if x)
            elif k in ('CaseStmt', 'DefaultStmt', 'LabelStmt'):
                self._stmt_level.update(n['ch'])
        self.written_fields = None

    # ---- expression helpers -------------------------------------------------
    def strip(self, nid):
        while True:
            n = self.N.get(nid)
            if n is None:
                return None
            if n['k'] in STRIP and n['ch']:
                nid = n['ch'][0]
                continue
            return n

    def varkey(self, n):
        """fingerprint key for a trackable l-value (local/param/this-field), else None"""
        if n is None:
            return None
        if n['k'] == 'DeclRefExpr' and n.get('dk') in ('Local', 'Parm', 'StaticLocal'):
            return '%s#%d' % (n.get('name'), n.get('did'))
        if n['k'] == 'MemberExpr' and n.get('dk') == 'Field':
            b = self.strip(n['ch'][0]) if n['ch'] else None
            if b is None or b['k'] == 'CXXThisExpr':
                return 'this.' + n.get('name')
            bk = self.varkey(b)
            if bk:
                return bk + '.' + n.get('name')
        return None

    def eval(self, nid, vals):
        """3-valued truth of expression nid under vals: True / False / None"""
        n = self.N.get(nid)
        if n is None:
            return None
        m = vals.get(('m', nid))
        if m is not None:
            return m
        k = n['k']
        if k in STRIP and n['ch']:
            return self.eval(n['ch'][0], vals)
        if k in ('CStyleCastExpr', 'CXXStaticCastExpr', 'CXXFunctionalCastExpr') and n['ch'] and is_boolish(n.get('ty')):
            return self.eval(n['ch'][0], vals)
        if k == 'CXXBoolLiteralExpr':
            return bool(n['v'])
        if k == 'IntegerLiteral':
            return n['v'] != 0
        if k in ('CXXNullPtrLiteralExpr', 'GNUNullExpr'):
            return False
        if n.get('cv') is not None and k not in ('DeclRefExpr', 'MemberExpr'):
            return n['cv'] != 0
        if k in ('DeclRefExpr', 'MemberExpr'):
            key = self.varkey(n)
            if key is not None:
                v = vals.get(('v', key))
                if v is not None:
                    return v
            if n.get('cv') is not None:
                return n['cv'] != 0
            return None
        if k == 'UnaryOperator' and n.get('op') == '!':
            v = self.eval(n['ch'][0], vals)
            return None if v is None else (not v)
        if k == 'BinaryOperator':
            op = n.get('op')
            if op in ('&&', '||'):
                a = self.eval(n['ch'][0], vals)
                b = self.eval(n['ch'][1], vals)
                if op == '&&':
                    if a is False or b is False:
                        return False
                    if a is True and b is True:
                        return True
                    return None
                if a is True or b is True:
                    return True
                if a is False and b is False:
                    return False
                return None
            if op in ('==', '!='):
                l, r = self.strip(n['ch'][0]), self.strip(n['ch'][1])
                lt = (l or {}).get('ty', '')
                if l and r and (is_boolish(lt) or is_ptrish(lt) or r['k'] in ('CXXNullPtrLiteralExpr', 'GNUNullExpr') or
                                l['k'] in ('CXXNullPtrLiteralExpr', 'GNUNullExpr')):
                    a = self.eval(n['ch'][0], vals)
                    b = self.eval(n['ch'][1], vals)
                    # pointer comparison is only decidable against null
                    if not is_boolish(lt):
                        if r['k'] not in ('CXXNullPtrLiteralExpr', 'GNUNullExpr', 'IntegerLiteral') and \
                                l['k'] not in ('CXXNullPtrLiteralExpr', 'GNUNullExpr', 'IntegerLiteral'):
                            return None
                    if a is None or b is None:
                        return None
                    return (a == b) if op == '==' else (a != b)
            if op == ',':
                return self.eval(n['ch'][1], vals)
            if op == '=':
                return self.eval(n['ch'][1], vals)
            p = vals.get(('p', self.fn.fp(nid)))
            return p
        if k == 'ConditionalOperator':
            c = self.eval(n['cond'], vals)
            if c is True:
                return self.eval(n['then'], vals)
            if c is False:
                return self.eval(n['else'], vals)
            a, b = self.eval(n['then'], vals), self.eval(n['else'], vals)
            return a if a == b else None
        if k == 'CXXMemberCallExpr' and n.get('callee', '').endswith('::operator bool') and n['ch']:
            return self.eval(n['ch'][0], vals)
        if k == 'CXXOperatorCallExpr' and n.get('oop') in ('==', '!=') and len(n['ch']) == 2:
            l, r = self.strip(n['ch'][0]), self.strip(n['ch'][1])
            if r and r['k'] in ('CXXNullPtrLiteralExpr', 'GNUNullExpr'):
                a = self.eval(n['ch'][0], vals)
                if a is None:
                    return None
                return (not a) if n['oop'] == '==' else a
        if k == 'CXXConstructExpr' and len(n['ch']) == 1:
            return self.eval(n['ch'][0], vals)
        if n.get('callee') is not None:
            p = vals.get(('p', self.fn.fp(nid)))
            return p
        return None

    def _pure(self, nid):
        """side-effect-free and re-evaluable: fields, locals, const member calls, comparisons"""
        n = self.N.get(nid)
        if n is None:
            return False
        k = n['k']
        if k in ('BinaryOperator',):
            if n.get('op') in ('=', ','):
                return False
        if k in ('CompoundAssignOperator', 'CXXNewExpr', 'CXXDeleteExpr', 'LambdaExpr'):
            return False
        if k == 'UnaryOperator' and n.get('op') in ('++', '--'):
            return False
        if n.get('callee') is not None and k != 'CXXConstructExpr':
            if not (n.get('cconst') or n.get('callee', '').startswith('std::')):
                return False
            if n.get('wargs'):
                return False
        return all(self._pure(c) for c in n['ch'] if c)

    def _mentions(self, nid, out):
        n = self.N.get(nid)
        if n is None:
            return
        key = self.varkey(n) if n['k'] in ('DeclRefExpr', 'MemberExpr') else None
        if key:
            out.add(key)
        for c in n['ch']:
            if c:
                self._mentions(c, out)

    def assume(self, nid, pol, vals, learned):
        """refine vals with 'expression nid has truth value pol'; returns False if infeasible.
        learned collects (node, value) for atomic facts (calls, variables)"""
        n = self.N.get(nid)
        if n is None:
            return True
        cur = self.eval(nid, vals)
        if cur is not None and cur != pol:
            return False
        k = n['k']
        if k in STRIP and n['ch']:
            ok = self.assume(n['ch'][0], pol, vals, learned)
            vals[('m', nid)] = pol
            return ok
        if k in ('CStyleCastExpr', 'CXXStaticCastExpr', 'CXXFunctionalCastExpr') and n['ch'] and is_boolish(n.get('ty')):
            return self.assume(n['ch'][0], pol, vals, learned)
        vals[('m', nid)] = pol
        if k == 'UnaryOperator' and n.get('op') == '!':
            return self.assume(n['ch'][0], not pol, vals, learned)
        if k == 'BinaryOperator' and n.get('op') in ('&&', '||'):
            a, b = n['ch']
            conj = n['op'] == '&&'
            if conj == pol:  # (a&&b)=T or (a||b)=F : both operands decided
                return self.assume(a, pol, vals, learned) and self.assume(b, pol, vals, learned)
            ea, eb = self.eval(a, vals), self.eval(b, vals)
            if ea is not None and ea == conj:  # a does not decide -> b must
                return self.assume(b, pol, vals, learned)
            if eb is not None and eb == conj:
                return self.assume(a, pol, vals, learned)
            learned.append((n, pol))      # an undecided disjunction / negated conjunction: a fact about the compound node
            return True
        if k == 'BinaryOperator' and n.get('op') in ('==', '!='):
            l, r = n['ch']
            el, er = self.eval(l, vals), self.eval(r, vals)
            ls, rs = self.strip(l), self.strip(r)
            lt = (ls or {}).get('ty', '')
            nullish = ('CXXNullPtrLiteralExpr', 'GNUNullExpr')
            decidable = is_boolish(lt) or (rs and rs['k'] in nullish) or (ls and ls['k'] in nullish)
            if decidable:
                same = (n['op'] == '==') == pol
                if er is not None and el is None:
                    return self.assume(l, er if same else (not er), vals, learned)
                if el is not None and er is None:
                    return self.assume(r, el if same else (not el), vals, learned)
            if self._pure(nid):
                self._setp(vals, nid, pol)
            learned.append((n, pol))
            return True
        if k == 'BinaryOperator' and n.get('op') in ('<', '<=', '>', '>='):
            if self._pure(nid):
                self._setp(vals, nid, pol)
            learned.append((n, pol))
            return True
        if k == 'BinaryOperator' and n.get('op') == ',':
            return self.assume(n['ch'][1], pol, vals, learned)
        if k == 'BinaryOperator' and n.get('op') == '=':
            # (v = expr) used as a condition: the variable and the expression share the value
            ok = self.assume(n['ch'][1], pol, vals, learned)
            key = self.varkey(self.strip(n['ch'][0]))
            if ok and key is not None:
                vals[('v', key)] = pol
            return ok
        if k == 'ConditionalOperator':
            c = self.eval(n['cond'], vals)
            if c is True:
                return self.assume(n['then'], pol, vals, learned)
            if c is False:
                return self.assume(n['else'], pol, vals, learned)
            # unknown selector: whatever holds on *both* alternatives is learned as an 'Either' fact
            la, lb = [], []
            oka = self.assume(n['then'], pol, dict(vals), la)
            okb = self.assume(n['else'], pol, dict(vals), lb)
            if not oka and not okb:
                return False
            if oka and not okb:
                return self.assume(n['cond'], True, vals, learned) and self.assume(n['then'], pol, vals, learned)
            if okb and not oka:
                return self.assume(n['cond'], False, vals, learned) and self.assume(n['else'], pol, vals, learned)
            learned.append(({'k': 'Either', 'id': None, 'alts': [la, lb], 'ch': []}, pol))
            return True
        if k == 'CXXMemberCallExpr' and n.get('callee', '').endswith('::operator bool') and n['ch']:
            return self.assume(n['ch'][0], pol, vals, learned)
        if k == 'CXXOperatorCallExpr' and n.get('oop') in ('==', '!=') and len(n['ch']) == 2:
            rs = self.strip(n['ch'][1])
            if rs and rs['k'] in ('CXXNullPtrLiteralExpr', 'GNUNullExpr'):
                return self.assume(n['ch'][0], (not pol) if n['oop'] == '==' else pol, vals, learned)
        if k == 'CXXConstructExpr' and len(n['ch']) == 1:
            return self.assume(n['ch'][0], pol, vals, learned)
        if k in ('DeclRefExpr', 'MemberExpr'):
            key = self.varkey(n)
            if key is not None and not self._rel(key):
                learned.append((n, pol))
                return True
            if key is not None:
                vals[('v', key)] = pol
                learned.append((n, pol))
                d = vals.get(('d', key))
                if d is not None:
                    # the variable still holds the value of its defining expression
                    return self.assume(d, pol, vals, learned)
            return True
        if n.get('callee') is not None or k in ('BinaryOperator', 'CXXOperatorCallExpr'):
            learned.append((n, pol))
            if self._pure(nid):
                self._setp(vals, nid, pol)
        return True

    # ---- writes ------------------------------------------------------------
    def _setp(self, vals, nid, pol):
        fp = self.fn.fp(nid)
        if self._relp(fp):
            vals[('p', fp)] = pol

    def _rel(self, key):
        r = self.client.relevant
        return r is None or key in r

    def _relp(self, fp):
        r = self.client.relevant_preds
        return r is None or fp in r

    def _invalidate(self, key, vals):
        vals.pop(('v', key), None)
        vals.pop(('d', key), None)
        base = key.split('#')[0].split('.')[-1]
        for kk in [kk for kk in vals if kk[0] == 'p' and (key in kk[1] or ('.' + base) in kk[1])]:
            del vals[kk]
        # definitions that mention the variable are no longer re-learnable through it
        for kk in [kk for kk in vals if kk[0] == 'd']:
            ment = set()
            self._mentions(vals[kk], ment)
            if key in ment:
                del vals[kk]

    def _assign(self, key, rhs, vals, ty):
        self._invalidate(key, vals)
        if rhs is None or not self._rel(key):
            return
        if not (is_boolish(ty) or is_ptrish(ty)):
            # other types carry no truth value, but remembering the defining expression lets clients resolve
            # e.g. a status enum local
            if ty and ('Status' in ty or 'enum' in ty):
                vals[('d', key)] = rhs
            return
        v = self.eval(rhs, vals)
        rn = self.strip(rhs)
        if v is None and rn is not None and is_ptrish(ty):
            if rn['k'] == 'CXXNewExpr':
                v = True
            elif rn['k'] == 'CXXConstructExpr' and not rn['ch']:
                v = False  # default-constructed smart pointer
            elif rn['k'] == 'CallExpr' and rn.get('callee') in ('std::make_shared', 'std::make_unique'):
                v = True
        if v is not None:
            vals[('v', key)] = v
        ment = set()
        self._mentions(rhs, ment)
        if key not in ment:
            vals[('d', key)] = rhs

    def _assigned_bools(self, n):
        out = []
        if n['k'] == 'DeclStmt':
            for d in n.get('decls', []):
                if is_boolish(d.get('ty')) and d.get('init'):
                    out.append('%s#%d' % (d['name'], d['did']))
        elif n['k'] == 'BinaryOperator' and n.get('op') == '=':
            l = self.strip(n['ch'][0])
            if l is not None and is_boolish(l.get('ty')):
                k = self.varkey(l)
                if k:
                    out.append(k)
        return out

    def step(self, n, vals):
        """engine-side effect of executing CFG element n on the valuation"""
        k = n['k']
        if k == 'DeclStmt':
            for d in n.get('decls', []):
                key = '%s#%d' % (d['name'], d['did'])
                self._assign(key, d.get('init'), vals, d.get('ty'))
        elif k == 'BinaryOperator' and n.get('op') == '=':
            l = self.strip(n['ch'][0])
            key = self.varkey(l)
            if key:
                self._assign(key, n['ch'][1], vals, l.get('ty'))
        elif k == 'CompoundAssignOperator':
            l = self.strip(n['ch'][0])
            key = self.varkey(l)
            if key:
                old = vals.get(('v', key))
                r = self.eval(n['ch'][1], vals)
                self._invalidate(key, vals)
                if is_boolish(l.get('ty')):
                    nv = None
                    if n.get('op') == '|=':
                        nv = True if (old is True or r is True) else (False if (old is False and r is False) else None)
                    elif n.get('op') == '&=':
                        nv = False if (old is False or r is False) else (True if (old is True and r is True) else None)
                    if nv is not None:
                        vals[('v', key)] = nv
        elif k == 'UnaryOperator' and n.get('op') in ('++', '--'):
            key = self.varkey(self.strip(n['ch'][0]))
            if key:
                self._invalidate(key, vals)
        elif k == 'CXXOperatorCallExpr' and n.get('oop') == '=' and len(n['ch']) == 2:
            l = self.strip(n['ch'][0])
            key = self.varkey(l)
            if key:
                self._assign(key, n['ch'][1], vals, l.get('ty'))
        elif k == 'CXXMemberCallExpr' and n['ch']:
            # p.reset() / p.reset(x)
            cal = n.get('callee', '')
            l = self.strip(n['ch'][0])
            key = self.varkey(l)
            if key and not n.get('cconst'):
                if cal.endswith('::reset') and is_ptrish(l.get('ty', '')):
                    self._invalidate(key, vals)
                    vals[('v', key)] = len(n['ch']) > 1
                elif not cal.startswith('std::') or is_ptrish(l.get('ty', '')) is False:
                    # non-const method on a tracked object: its truthiness may change only for
                    # smart pointers (reset/swap); plain objects carry no tracked value
                    if cal.endswith('::swap'):
                        self._invalidate(key, vals)
        if n.get('callee') is not None:
            # variables escaping by non-const reference / address
            wa = n.get('wargs') or []
            args = n['ch'][1:] if n['k'] == 'CXXMemberCallExpr' else n['ch']
            if n['k'] == 'CXXOperatorCallExpr':
                args = n['ch']
            for i in wa:
                if i < len(args):
                    a = self.strip(args[i])
                    if a is None:
                        continue
                    if a['k'] == 'UnaryOperator' and a.get('op') == '&':
                        a = self.strip(a['ch'][0])
                    key = self.varkey(a)
                    if key and (is_boolish(a.get('ty')) or (is_ptrish(a.get('ty')) and n.get('csig', '').count('&'))):
                        # only reference-passed pointers can be re-seated; pointee writes do not change nullness
                        pty = ''
                        self._invalidate(key, vals)

    # ---- driver --------------------------------------------------------------
    def run(self):
        fn = self.fn
        if fn.entry is None:
            raise AnalysisBroken('no CFG for %s' % fn.name)
        auto0 = self.client.init(fn)
        start = (fn.entry, auto0, frozenset())
        seen = self.seen = {start: None}
        work = [start]
        while work:
            item = work.pop()
            bid, auto, fvals = item
            self.nstates += 1
            if self.nstates > MAX_STATES:
                raise AnalysisBroken('state explosion in %s' % fn.name)
            b = fn.cfg[bid]
            vals = dict(fvals)
            autos = [(auto, vals)]
            dead = False
            for el in b['el']:
                if isinstance(el, dict):
                    node = dict(el)
                    node['k'] = 'ImplicitDtor' if 'dtor' in el else 'CtorInit'
                    node['ch'] = []
                    if 'cinit' in el:
                        continue
                else:
                    node = self.N.get(el)
                    if node is None:
                        continue
                nxt = []
                for (a, v) in autos:
                    ctx = Ctx(self, v, item)
                    r = self.client.on_node(fn, node, a, ctx)
                    if not isinstance(el, dict) and self.client.track != 'none':
                        self.step(node, v)
                        if el in self._stmt_level or node['k'] in ('DeclStmt',):
                            for kk in [kk for kk in v if kk[0] == 'm']:
                                del v[kk]
                    outs = [(a2, dict(v)) for a2 in r] if isinstance(r, list) else [(r, v)]
                    if self.client.fork_bools and not isinstance(el, dict) and self.client.track != 'none':
                        fk = self._assigned_bools(node)
                        if fk:
                            forked = []
                            for (a2, v2) in outs:
                                cur = [(a2, v2)]
                                for key in fk:
                                    nx2 = []
                                    for (a3, v3) in cur:
                                        if ('v', key) in v3 or ('d', key) not in v3:
                                            nx2.append((a3, v3))
                                            continue
                                        for val in (True, False):
                                            v4 = dict(v3)
                                            learned = []
                                            if not self.assume(v4[('d', key)], val, v4, learned):
                                                continue
                                            v4[('v', key)] = val
                                            a4 = a3
                                            for (ln, lv) in learned:
                                                a4 = self.client.learn(fn, ln, lv, a4, Ctx(self, v4, item))
                                            for kk in [kk for kk in v4 if kk[0] == 'm']:
                                                del v4[kk]
                                            nx2.append((a4, v4))
                                    cur = nx2
                                forked.extend(cur)
                            outs = forked
                    nxt.extend(outs)
                    if node['k'] == 'ReturnStmt':
                        pass
                autos = nxt
            # return statements: last element of a block flowing to exit
            succ = b['succ']
            if b.get('noreturn'):
                continue
            termk = b.get('termk')
            cond = b.get('cond')
            for (a, v) in autos:
                if bid == fn.exit:
                    continue
                # exit edge?
                for idx, s in enumerate(succ):
                    if s is None:
                        continue
                    v2 = dict(v)
                    a2 = a
                    if cond is not None and len(succ) == 2 and termk not in ('SwitchStmt', 'CXXTryStmt', 'IndirectGotoStmt') \
                            and self.client.track != 'none':
                        learned = []
                        pol = (idx == 0)
                        if not self.assume(cond, pol, v2, learned):
                            continue
                        for (ln, lv) in learned:
                            a2 = self.client.learn(fn, ln, lv, a2, Ctx(self, v2, item))
                        if self.client.track == 'vars':
                            for kk in [kk for kk in v2 if kk[0] == 'p']:
                                del v2[kk]
                    if termk in STMT_TERMS:
                        for kk in [kk for kk in v2 if kk[0] == 'm']:
                            del v2[kk]
                    a2 = self.client.on_edge(fn, b, idx, a2, Ctx(self, v2, item))
                    if s == fn.exit:
                        ret = None
                        for el in reversed(b['el']):
                            if not isinstance(el, dict) and self.N.get(el, {}).get('k') == 'ReturnStmt':
                                ret = self.N[el]
                                break
                        self.npaths_exit += 1
                        self.client.at_exit(fn, ret, a2, Ctx(self, v2, (bid, a, frozenset(v.items()), item)))
                        continue
                    nxt = (s, a2, frozenset(v2.items()))
                    if nxt not in seen:
                        seen[nxt] = (item, idx)
                        work.append(nxt)
        return self

    def describe(self, item):
        """branch decisions from entry to item: ['file:line:T', ...] (shortest-known predecessor chain)"""
        if isinstance(item, tuple) and len(item) == 4:
            item = item[3]
        out = []
        cur = item
        guard = 0
        while cur is not None and guard < 5000:
            guard += 1
            pred = self.seen.get(cur)
            if pred is None:
                break
            prev, idx = pred
            b = self.fn.cfg[prev[0]]
            if b.get('cond') is not None and len(b['succ']) == 2:
                out.append('%d:%s' % (self.fn.line(b['cond']), 'T' if idx == 0 else 'F'))
            cur = prev
        out.reverse()
        return out


def run_function(fn, client, facts=None):
    r = Run(fn, client, facts)
    return r.run()
