"""E10: algebraic normal form of closed-form numeric routines (term rewriting over the typed AST).

A routine (distance, equalStates, interpolate, a word solver ...) is rewritten into a canonical term:
  * numeric values are polynomials with rational coefficients over *atoms*; atoms are field reads of the symbolic
    argument objects, named constants, applications of library functions to canonical arguments, sums over a loop
    index, and if-then-else terms whose condition could not be folded;
  * the rewrite rules are the ring axioms (expansion, collection, commutativity) plus a frozen table of function laws:
    fabs/abs/cos even, sin/tan/asin/atan odd, min/max commutative, sqrt(0)=0, fabs(0)=0, f(const) folded for a few f;
  * comparisons are rewritten to  p < 0 / p <= 0 / p == 0  with p in normal form and folded when p is a known constant
    or when one assumed fact (an in-bounds precondition supplied by the rule) decides its sign;
  * canonical counting loops  for (i = lo; i < hi; ++i)  are summarised: `acc += term(i)` becomes acc + SUM_i term(i),
    a pointer that advances by a constant per iteration becomes base[offset + c*(i-lo)], a store to out[i] becomes a
    quantified store, and `if (c(i)) return r` becomes  EXISTS_i c(i) ? r : <rest>.
Two routines (or one routine under two bindings of its parameters: swapped, aliased, sign-flipped, t := 0) denote the
same real function if their normal forms are identical.  The converse does not hold: different normal forms are only
"not shown equal", so rules built on this engine treat a mismatch as a violation only for laws that today's tree
satisfies syntactically and list everything else as not decided.

Nothing is executed and no solver is involved; anything outside the fragment raises Unsupported.
"""
import math
from fractions import Fraction

SKIP = ('ParenExpr', 'ImplicitCastExpr', 'ExprWithCleanups', 'MaterializeTemporaryExpr', 'CXXBindTemporaryExpr',
        'ConstantExpr', 'FullExpr', 'CStyleCastExpr', 'CXXStaticCastExpr', 'CXXFunctionalCastExpr', 'CXXConstCastExpr',
        'CXXReinterpretCastExpr')

EVEN = {'fabs', 'abs', 'cos', 'fabsf', 'cosf', 'cosh'}
ODD = {'sin', 'tan', 'asin', 'atan', 'sinf', 'sinh', 'tanh'}
COMM = {'min', 'max', 'fmin', 'fmax', 'hypot'}
MATH = EVEN | ODD | COMM | {'sqrt', 'acos', 'atan2', 'fmod', 'floor', 'ceil', 'pow', 'exp', 'log', 'round', 'sqrtf', 'copysign',
                           'isnan', 'isinf', 'isfinite', 'lround', 'trunc'}
CONSTS = {
    ('g', 'boost::math::double_constants::pi'): math.pi,
    ('g', 'boost::math::constants::pi'): math.pi,
    ('app', 'std::numeric_limits::epsilon'): 2.220446049250313e-16,
    ('app', 'std::numeric_limits::infinity'): float('inf'),
    ('app', 'std::numeric_limits::max'): 1.7976931348623157e308,
}


class Unsupported(Exception):
    pass


# single-precision spellings are identified with the double ones (floating-point width is outside the normal form)
ALIASES = {'sqrtf': 'sqrt', 'atan2f': 'atan2', 'sinf': 'sin', 'cosf': 'cos', 'fabsf': 'fabs', 'acosf': 'acos', 'asinf': 'asin',
           'atanf': 'atan', 'floorf': 'floor', 'ceilf': 'ceil', 'fmodf': 'fmod', 'powf': 'pow', 'tanf': 'tan'}


# compare modulo the boundary of comparisons: p < 0 and p <= 0 are identified (used by rules that state so)
LOOSE = [False]


# ---------------------------------------------------------------------------------------------------------------------
# polynomials


class Poly:
    __slots__ = ('t', '_k')

    def __init__(self, t=None):
        self.t = {m: c for m, c in (t or {}).items() if c != 0}
        self._k = None

    @staticmethod
    def const(c):
        return Poly({(): Fraction(c)})

    @staticmethod
    def atom(a):
        return Poly({((a, 1),): Fraction(1)})

    def is_const(self):
        return all(m == () for m in self.t)

    def cval(self):
        return self.t.get((), Fraction(0))

    def __add__(self, o):
        t = dict(self.t)
        for m, c in o.t.items():
            t[m] = t.get(m, 0) + c
        return Poly(t)

    def __neg__(self):
        return Poly({m: -c for m, c in self.t.items()})

    def __sub__(self, o):
        return self + (-o)

    def scale(self, c):
        return Poly({m: v * c for m, v in self.t.items()})

    def __mul__(self, o):
        t = {}
        for m1, c1 in self.t.items():
            for m2, c2 in o.t.items():
                d = dict(m1)
                for a, e in m2:
                    d[a] = d.get(a, 0) + e
                m = tuple(sorted(((a, e) for a, e in d.items() if e != 0), key=repr))
                t[m] = t.get(m, 0) + c1 * c2
        return Poly(t)

    def key(self):
        if self._k is None:
            self._k = ('poly',) + tuple(sorted(((m, str(c)) for m, c in self.t.items()), key=repr))
        return self._k

    def __eq__(self, o):
        return isinstance(o, Poly) and self.key() == o.key()

    def __hash__(self):
        return hash(self.key())

    def lead_negative(self):
        """sign canonicalisation: is the coefficient of the first monomial (in the canonical order) negative?"""
        if not self.t:
            return False
        m = sorted(self.t, key=repr)
        # prefer a non-constant monomial so that  c - x  and  x - c  canonicalise alike
        nc = [x for x in m if x != ()]
        return self.t[(nc or m)[0]] < 0

    def atoms(self):
        for m in self.t:
            for a, _ in m:
                yield a

    def mentions(self, pred):
        return any(_mentions(a, pred) for a in self.atoms())

    def subst(self, f):
        """f(atom) -> Poly or None (keep)"""
        out = Poly()
        for m, c in self.t.items():
            term = Poly.const(c)
            for a, e in m:
                r = f(a)
                if r is None:
                    r = Poly.atom(_subst_atom(a, f))
                if e < 0:
                    r = inv(r)
                    e = -e
                for _ in range(e):
                    term = term * r
            out = out + term
        return out

    def num(self):
        """numeric value when every atom is a known constant, else None"""
        s = 0.0
        for m, c in self.t.items():
            v = float(c)
            for a, e in m:
                if a not in CONSTS:
                    return None
                v *= CONSTS[a] ** e
            s += v
        return s

    def show(self):
        if not self.t:
            return '0'
        out = []
        for m, c in sorted(self.t.items(), key=lambda x: repr(x[0])):
            s = '*'.join((show_atom(a) + ('^%d' % e if e != 1 else '')) for a, e in m)
            if not m:
                out.append(str(c))
            elif c == 1:
                out.append(s)
            elif c == -1:
                out.append('-' + s)
            else:
                out.append('%s*%s' % (c, s))
        return ' + '.join(out).replace('+ -', '- ')


def _mentions(a, pred):
    if pred(a):
        return True
    if isinstance(a, tuple):
        return any(_mentions(x, pred) for x in a if isinstance(x, tuple))
    return False


def _subst_atom(a, f):
    """substitute inside the canonical keys nested in an atom"""
    if not isinstance(a, tuple):
        return a
    if a and a[0] == 'poly':
        return from_key(a).subst(f).key()
    return tuple(_subst_atom(x, f) for x in a)


def from_key(k):
    return Poly({m: Fraction(c) for m, c in k[1:]})


def show_atom(a):
    if not isinstance(a, tuple):
        return str(a)
    if a[0] == 'poly':
        return '(' + from_key(a).show() + ')'
    if a[0] == 'rd':
        return show_ref(a[1])
    if a[0] == 'g':
        return a[1].split('::')[-1]
    if a[0] == 'app':
        return '%s(%s)' % (a[1].split('::')[-1], ', '.join(show_atom(x) for x in a[2:]))
    if a[0] == 'inv':
        return '1/' + show_atom(a[1])
    if a[0] == 'sum':
        return 'SUM[%s..%s)%s' % (show_atom(a[1]), show_atom(a[2]), show_atom(a[3]))
    if a[0] == 'ite':
        return '(%s ? %s : %s)' % (show_atom(a[1]), show_atom(a[2]), show_atom(a[3]))
    if a[0] in ('lt0', 'le0', 'eq0', 'ne0'):
        return '%s %s 0' % (show_atom(a[1]), {'lt0': '<', 'le0': '<=', 'eq0': '==', 'ne0': '!='}[a[0]])
    if a[0] == 'bv':
        return 'i%d' % a[1]
    return '%s(%s)' % (a[0], ', '.join(show_atom(x) for x in a[1:]))


def show_ref(r):
    if not isinstance(r, tuple):
        return str(r)
    if r[0] == 'S':
        return r[1]
    if r[0] == 'T':
        return 'this'
    if r[0] == 'F':
        return '%s.%s' % (show_ref(r[1]), r[2])
    if r[0] == 'I':
        return '%s[%s]' % (show_ref(r[1]), show_atom(r[2]))
    if r[0] == 'N':
        return '-' + show_ref(r[1])
    return show_atom(r)


def show(v):
    if isinstance(v, Poly):
        return v.show()
    return show_atom(v)


def inv(p):
    if p.is_const():
        if p.cval() == 0:
            raise Unsupported('division by the constant 0')
        return Poly.const(1 / p.cval())
    if len(p.t) == 1:
        (m, c), = p.t.items()
        return Poly({tuple((a, -e) for a, e in m): 1 / c})
    if p.lead_negative():
        return -Poly.atom(('inv', (-p).key()))
    return Poly.atom(('inv', p.key()))


# ---------------------------------------------------------------------------------------------------------------------
# booleans: True / False / ('lt0', polykey) / ('le0', ..) / ('eq0', ..) / ('ne0', ..) / ('and', ...) / ('or', ...) /
# ('not', b) / ('b', atom)


def b_not(b):
    if b is True:
        return False
    if b is False:
        return True
    if b[0] == 'not':
        return b[1]
    if b[0] == 'lt0':                      # !(p < 0)  <=>  -p <= 0
        return ('le0', (-from_key(b[1])).key())
    if b[0] == 'le0':
        return ('le0' if LOOSE[0] else 'lt0', (-from_key(b[1])).key())
    if b[0] == 'eq0':
        return ('ne0', b[1])
    if b[0] == 'ne0':
        return ('eq0', b[1])
    if b[0] == 'and':
        return b_or(*[b_not(x) for x in b[1:]])
    if b[0] == 'or':
        return b_and(*[b_not(x) for x in b[1:]])
    return ('not', b)


def _flat(op, xs):
    out = []
    for x in xs:
        if isinstance(x, tuple) and x and x[0] == op:
            out.extend(x[1:])
        else:
            out.append(x)
    return out


def b_and(*xs):
    xs = _flat('and', xs)
    if any(x is False for x in xs):
        return False
    xs = sorted(set(x for x in xs if x is not True), key=repr)
    for x in xs:
        if b_not(x) in xs:
            return False
    if not xs:
        return True
    return xs[0] if len(xs) == 1 else ('and',) + tuple(xs)


def b_or(*xs):
    xs = _flat('or', xs)
    if any(x is True for x in xs):
        return True
    xs = sorted(set(x for x in xs if x is not False), key=repr)
    for x in xs:
        if b_not(x) in xs:
            return True
    if not xs:
        return False
    return xs[0] if len(xs) == 1 else ('or',) + tuple(xs)


def is_bool(v):
    return v is True or v is False or (isinstance(v, tuple) and v and v[0] in ('lt0', 'le0', 'eq0', 'ne0', 'and', 'or', 'not', 'b', 'ex'))


ARITH = ('double', 'float', 'int', 'unsigned int', 'bool', 'long', 'unsigned long', 'std::size_t', 'size_t', 'long double',
         'unsigned char', 'char', 'short', 'unsigned short', 'long long', 'unsigned long long')


def is_int(ty):
    ty = (ty or '').replace('const ', '').replace('volatile ', '').strip()
    return ty in ('int', 'unsigned int', 'long', 'unsigned long', 'std::size_t', 'size_t', 'short', 'unsigned short',
                  'long long', 'unsigned long long', 'char', 'unsigned char')


def is_arith(ty):
    ty = (ty or '').replace('const ', '').replace('volatile ', '').strip()
    return ty in ARITH or ty.endswith('::size_type') or ty in ('std::size_t', 'uint32_t', 'uint64_t', 'int32_t', 'int64_t')


class Fall:
    """marker: control falls out of a statement without returning"""
    pass


FALL = ('fall',)


class Ctx:
    """assumed facts  p <= 0  /  p < 0  (in-bounds preconditions supplied by the rule) used to fold comparisons"""

    def __init__(self, le0=(), lt0=(), symmetric_calls=(), inline=None, opaque_calls=(), self_zero_calls=(), self_true_calls=(),
                 unit_norm=(), consts=None):
        self.le0 = list(le0)
        self.lt0 = list(lt0)
        self.symmetric_calls = set(symmetric_calls)       # f(x, y) == f(y, x)   (induction hypothesis of a rule)
        self.self_zero_calls = set(self_zero_calls)       # f(x, x) == 0
        self.self_true_calls = set(self_true_calls)       # f(x, x) == true
        self.inline = inline
        self.opaque_calls = set(opaque_calls)
        self.distinct = set()                             # frozenset({ref, ref}) of objects known not to alias
        self.pairs = False                                # also combine two assumed facts when deciding a sign
        self.unit_norm = list(unit_norm)                  # tuples of atoms whose squares sum to 1
        self.consts = dict(consts or {})                  # atom -> known numeric value

    def rewrite(self, p):
        for atoms in self.unit_norm:
            sq = [((a, 2),) for a in atoms]
            c = p.t.get(sq[0])
            if c and all(p.t.get(m) == c for m in sq):
                p = p - Poly({m: c for m in sq}) + Poly.const(c)
        return p

    def numval(self, p):
        s = 0.0
        for m, c in p.t.items():
            v = float(c)
            for a, e in m:
                x = CONSTS.get(a, self.consts.get(a))
                if x is None:
                    return None
                v *= x ** e
            s += v
        return s

    def sign(self, p):
        """returns '<0', '<=0', '>0', '>=0', '=0' or None"""
        if p.is_const():
            c = p.cval()
            return '=0' if c == 0 else ('<0' if c < 0 else '>0')
        p = self.rewrite(p)
        v = self.numval(p)
        if v is not None:
            return '=0' if v == 0 else ('<0' if v < 0 else '>0')
        best = None
        for f, strict in [(x, False) for x in self.le0] + [(x, True) for x in self.lt0]:
            # p = c + f  with f <= 0  =>  p <= c
            c = self.numval(p - f)
            if c is not None:
                if c < 0 or (c == 0 and strict):
                    return '<0'
                if c == 0:
                    best = best or '<=0'
            # p = c - f  with f <= 0  =>  p >= c
            c = self.numval(p + f)
            if c is not None:
                if c > 0 or (c == 0 and strict):
                    return '>0'
                if c == 0:
                    best = best or '>=0'
        if best is None and self.pairs:
            # two assumed facts:  p = c + f1 + f2  =>  p <= c   (and symmetrically for a lower bound)
            fs = [(x, False) for x in self.le0] + [(x, True) for x in self.lt0]
            for i, (f1, s1) in enumerate(fs):
                for f2, s2 in fs[i + 1:]:
                    c = self.numval(p - f1 - f2)
                    if c is not None:
                        if c < 0 or (c == 0 and (s1 or s2)):
                            return '<0'
                        if c == 0:
                            best = best or '<=0'
                    c = self.numval(p + f1 + f2)
                    if c is not None:
                        if c > 0 or (c == 0 and (s1 or s2)):
                            return '>0'
                        if c == 0:
                            best = best or '>=0'
        return best


def cmp0(kind, p, ctx):
    """kind in lt0, le0, eq0, ne0 applied to polynomial p"""
    s = ctx.sign(p) if ctx else (None if not p.is_const() else ('=0' if p.cval() == 0 else ('<0' if p.cval() < 0 else '>0')))
    if s is not None:
        if kind == 'lt0':
            if s == '<0':
                return True
            if s in ('>0', '>=0', '=0'):
                return False
        elif kind == 'le0':
            if s in ('<0', '<=0', '=0'):
                return True
            if s == '>0':
                return False
        elif kind == 'eq0':
            if s == '=0':
                return True
            if s in ('<0', '>0'):
                return False
        elif kind == 'ne0':
            if s == '=0':
                return False
            if s in ('<0', '>0'):
                return True
    if kind in ('eq0', 'ne0') and p.lead_negative():
        p = -p
    if LOOSE[0] and kind == 'lt0':
        if s == '<=0':
            return True
        kind = 'le0'
    return (kind, p.key())


def ite(c, a, b):
    if c is True:
        return a
    if c is False:
        return b
    # canonical polarity of the selector
    if isinstance(c, tuple) and c and c[0] == 'not':
        c, a, b = c[1], b, a
    if LOOSE[0] and isinstance(c, tuple) and c and c[0] == 'le0' and from_key(c[1]).lead_negative():
        c, a, b = ('le0', (-from_key(c[1])).key()), b, a           # !(p <= 0) ~ (-p <= 0) modulo the boundary
    if isinstance(a, Poly) and isinstance(b, Poly):
        if a == b:
            return a
        # c ? (k + x) : (k + y)  ==  k + (c ? x : y)
        common = Poly({m: v for m, v in a.t.items() if b.t.get(m) == v})
        if common.t:
            a, b = a - common, b - common
        if a.is_const() and a == -b and a.cval() < 0:
            return common - Poly.atom(('ite', c, (-a).key(), (-b).key()))
        if a.t and a == -b and not (a.is_const() and abs(a.cval()) == 1):
            # c ? x : -x  ==  x * (c ? 1 : -1)
            return common + a * Poly.atom(('ite', c, Poly.const(1).key(), Poly.const(-1).key()))
        return common + Poly.atom(('ite', c, a.key(), b.key()))
    if is_bool(a) or is_bool(b):
        if a == b:
            return a
        return b_or(b_and(c, a), b_and(b_not(c), b))
    if a == b:
        return a
    return ('ite', c, a, b)


# ---------------------------------------------------------------------------------------------------------------------
# references (objects and pointers):  ('S', name) | ('T',) | ('F', ref, field) | ('I', ref, polykey) | ('N', ref) |
#                                     ('P', arrayref, offset Poly) pointer into an array | ('call', callee, recv, args...)


def _under(ref, root):
    while True:
        if ref == root:
            return True
        if isinstance(ref, tuple) and ref and ref[0] in ('F', 'I', 'N'):
            ref = ref[1]
        else:
            return False


def _reroot(ref, old, new):
    """ref with its prefix `old` replaced by `new`, or None when ref is not under old"""
    if ref == old:
        return new
    if isinstance(ref, tuple) and ref and ref[0] in ('F', 'I', 'N'):
        r = _reroot(ref[1], old, new)
        if r is not None:
            return (ref[0], r) + tuple(ref[2:])
    return None


def neg_ref(r):
    if isinstance(r, tuple) and r and r[0] == 'N':
        return r[1]
    return ('N', r)


def fld(r, name):
    if isinstance(r, tuple) and r and r[0] == 'N':
        return ('N', fld(r[1], name))
    if isinstance(r, tuple) and r and r[0] == 'ite':
        return ('ite', r[1], fld(r[2], name), fld(r[3], name))
    return ('F', r, name)


def idx(r, p):
    if isinstance(r, tuple) and r and r[0] == 'N':
        return ('N', idx(r[1], p))
    return ('I', r, p.key())


class Machine:
    """symbolic rewriting of one function body under a binding of its parameters"""
    MAX_DEPTH = 5

    def __init__(self, F, ctx=None):
        self.F = F
        self.ctx = ctx or Ctx()
        self.depth = 0
        self.bvn = 0
        self.trace = []
        self.ints = set()                 # atoms read through an integer-typed lvalue
        self.preconds = []                # conditions under which the routine does not throw
        self.allow_break = False          # a `break` ends the block being rewritten (case bodies of a switch)
        self.split = False                # False | 'writes' (split where a branch wrote memory or returned) | 'all'

    def integral(self, p):
        """is every term of p integer valued (integer coefficient times integer-typed atoms)?"""
        for m, c in p.t.items():
            if c.denominator != 1:
                return False
            for a, e in m:
                if e < 0:
                    return False
                if a in self.ints or (isinstance(a, tuple) and a and a[0] == 'app' and a[1] in ('floor', 'ceil', 'trunc', 'round')):
                    continue
                return False
        return True

    # -- heap --------------------------------------------------------------------------------------------------------
    def read(self, ref, st):
        """numeric read through a reference"""
        if isinstance(ref, tuple) and ref and ref[0] == 'N':
            return -self.read(ref[1], st)
        if isinstance(ref, tuple) and ref and ref[0] == 'ite':
            return ite(ref[1], self.read(ref[2], st), self.read(ref[3], st))
        ref = self.alias(ref, st)
        if isinstance(ref, tuple) and ref and ref[0] == 'N':
            return -self.read(ref[1], st)
        for hi_, (k, v, q) in reversed(list(enumerate(st['heap']))):
            if k == ref:
                return v
            if isinstance(k, tuple) and k and k[0] == 'ALL':
                r2 = _reroot(ref, k[1], v)
                if r2 is not None:
                    return self.read(r2, {'heap': st['heap'][:hi_], 'alias': {}})
                continue
            if isinstance(k, tuple) and k and k[0] == 'E':
                if any(_under(ref, a) for a in k[3:] if isinstance(a, tuple)):
                    raise Unsupported('read of %s after the opaque call %s wrote it' % (show_ref(ref), k[1]))
                continue
            if q is not None:
                m = self.match_q(k, ref, q)
                if m is not None:
                    return v.subst(lambda a: m if a == q[0] else None) if isinstance(v, Poly) else v
        if any(self.may_alias(k, ref) for k, v, q in st['heap']):
            raise Unsupported('read of %s after a store that may alias it' % show_ref(ref))
        return Poly.atom(('rd', ref))

    def alias(self, ref, st):
        """rewrite the root of a reference through the aliasing map of the binding (state == from, ...)"""
        al = st.get('alias') or {}
        if not al:
            return ref
        if isinstance(ref, tuple):
            if ref in al:
                return al[ref]
            if ref[0] in ('F', 'I', 'N'):
                return (ref[0], self.alias(ref[1], st)) + tuple(ref[2:])
        return ref

    def may_alias(self, k, ref):
        return False

    def match_q(self, k, ref, q):
        """does the quantified store key k (mentioning bound variable q[0]) cover ref?  returns the index Poly"""
        if isinstance(k, tuple) and isinstance(ref, tuple) and k[0] == 'I' and ref[0] == 'I' and k[1] == ref[1]:
            kp = from_key(k[2])
            if kp == Poly.atom(q[0]):
                return from_key(ref[2])
        return None

    def write(self, ref, val, st, q=None):
        ref = self.alias(ref, st)
        st['heap'].append((ref, val, q))

    # -- evaluation ----------------------------------------------------------------------------------------------------
    def run(self, fn, binding, this=('T',), alias=None):
        """binding: {param name: value}; returns (return value or None, state)"""
        st = {'env': {}, 'heap': [], 'alias': alias or {}}
        for p in fn.params:
            if p['name'] not in binding:
                raise Unsupported('parameter %s of %s is not bound' % (p['name'], fn.name))
            st['env'][p['did']] = binding[p['name']]
        st['this'] = this
        r = self.block(fn, [fn.body], st)
        return (None if r is FALL else r), st

    def block(self, fn, stmts, st, rest=()):
        """execute statements in order; `rest` is the continuation after this block.  Returns FALL, or the complete
        (possibly conditional) return value -- in which case the continuation has already been rewritten on the
        branches that fell through, and the caller must stop."""
        for i, s in enumerate(stmts):
            r = self.stmt(fn, s, st, list(stmts[i + 1:]) + list(rest))
            if r is not FALL:
                return r
        return FALL

    def stmt(self, fn, sid, st, rest):
        n = fn.nodes.get(sid)
        if n is None:
            return FALL
        k = n['k']
        if n.get('mac') and k not in ('ReturnStmt', 'IfStmt', 'CompoundStmt', 'DeclStmt'):
            return FALL                                     # assertion macros
        if k == 'CompoundStmt':
            return self.block(fn, n['ch'], st, rest)
        if k == 'NullStmt':
            return FALL
        if k == 'DeclStmt':
            for d in n.get('decls', []):
                if d.get('init'):
                    v = self.ev(fn, d['init'], st)
                    if (d.get('ty') or '').rstrip().endswith('&'):
                        v = self.obj(v, st)
                        if isinstance(v, tuple) and v and v[0] in ('F', 'I', 'N'):
                            v = ('ref', v)
                    else:
                        v = self.loadv(v, st)
                    st['env'][d['did']] = v
                else:
                    st['env'][d['did']] = ('undef', d['name'])
            return FALL
        if k == 'ReturnStmt':
            if not n['ch']:
                return ('void',)
            return self.loadv(self.ev(fn, n['ch'][0], st), st)
        if k == 'IfStmt':
            c = self.cond(fn, n['cond'], st)
            if c is True:
                return self.stmt(fn, n['then'], st, rest)
            if c is False:
                return self.stmt(fn, n['else'], st, rest) if n.get('else') else FALL
            s1 = self.fork(st)
            s2 = self.fork(st)
            self.assume(s1, c)
            self.assume(s2, b_not(c))
            r1 = self.stmt(fn, n['then'], s1, rest)
            r2 = self.stmt(fn, n['else'], s2, rest) if n.get('else') else FALL
            # a branch that throws is a precondition: the normal form describes the non-throwing executions
            if r1 == ('throw',) or r2 == ('throw',):
                keep, r = (s2, r2) if r1 == ('throw',) else (s1, r1)
                if r == ('throw',):
                    return r
                self.preconds.append(b_not(c) if r1 == ('throw',) else c)
                st['env'], st['heap'], st['facts'] = keep['env'], keep['heap'], keep.get('facts', [])
                return r
            h0 = len(st['heap'])
            force = self.can_split() and (self.split == 'all' or len(s1['heap']) != h0 or len(s2['heap']) != h0 or
                                          r1 is not FALL or r2 is not FALL)
            if r1 is FALL and r2 is FALL and not force:
                try:
                    self.merge(st, c, s1, s2)
                    return FALL
                except Unsupported:
                    if not self.can_split():
                        raise
            # at least one branch returns (or the branches cannot be merged): finish the rest of the enclosing blocks
            # on each branch separately
            if r1 is FALL:
                r1 = self.cont(fn, s1, rest)
            if r2 is FALL:
                r2 = self.cont(fn, s2, rest)
            if not (_is_split(r1) or _is_split(r2)) and not force:
                try:
                    # the heap after a partial return is the merge of both complete executions
                    self.merge(st, c, s1, s2)
                    return ite_ret(c, r1, r2)
                except Unsupported:
                    if not self.can_split():
                        raise
            elif not self.can_split():
                raise Unsupported('path split inside a loop or an inlined call at ' + fn.where(n))
            return ('split', _leaves(r1, s1) + _leaves(r2, s2))
        if k == 'ForStmt':
            return self.loop(fn, n, st, rest)
        if k == 'BreakStmt' and self.allow_break:
            return ('break',)
        if k == 'ContinueStmt' and self.bvn > 0:
            return ('continue',)                            # handled by the loop summary (guards the rest of the body)
        if k == 'BreakStmt' and self.bvn > 0:
            return ('brk',)                                 # handled by the loop summary (sum over a prefix)
        if k in ('WhileStmt', 'DoStmt', 'SwitchStmt', 'CXXForRangeStmt', 'CXXTryStmt', 'BreakStmt', 'ContinueStmt', 'GotoStmt'):
            raise Unsupported('%s at %s' % (k, fn.where(n)))
        # expression statement
        x = fn.strip(sid)
        if x is not None and x['k'] == 'CXXThrowExpr':
            return ('throw',)
        self.ev(fn, sid, st)
        return FALL

    def can_split(self):
        return self.split and self.depth == 0 and self.bvn == 0

    def cont(self, fn, st, rest):
        """continuation: run the statements that follow, on this branch's state (rest is a list of lists, innermost first)"""
        return self.block(fn, list(rest), st)

    def fork(self, st):
        return {'env': dict(st['env']), 'heap': list(st['heap']), 'alias': st.get('alias'), 'this': st['this'],
                'facts': list(st.get('facts', []))}

    def assume(self, st, c):
        st.setdefault('facts', []).append(c)

    def merge(self, st, c, s1, s2):
        """atomic: either st becomes the join of s1 and s2, or Unsupported is raised and st is untouched"""
        env = dict(st['env'])
        for did in set(s1['env']) | set(s2['env']):
            a, b = s1['env'].get(did), s2['env'].get(did)
            if a is None or b is None:
                continue
            env[did] = a if _same(a, b) else ite(c, a, b)
        h0 = len(st['heap'])
        w1, w2 = s1['heap'][h0:], s2['heap'][h0:]
        keys = []
        for k, v, q in w1 + w2:
            if (k, q) not in keys:
                keys.append((k, q))
        add = []
        for k, q in keys:
            def last(ws, s):
                for kk, v, qq in reversed(ws):
                    if kk == k and qq == q:
                        return v
                if isinstance(k, tuple) and k and k[0] in ('E', 'ALL'):
                    return None
                try:
                    return self.read(k, {'heap': st['heap'], 'alias': {}}) if q is None else None
                except Unsupported:
                    return None
            a, b = last(w1, s1), last(w2, s2)
            if isinstance(k, tuple) and k and k[0] in ('E', 'ALL'):
                if k[0] == 'ALL':
                    if a is None or b is None or a != b:
                        raise Unsupported('state copy on one branch only')
                    add.append((k, a, q))
                else:
                    add.append((k, b_or(b_and(c, a or False), b_and(b_not(c), b or False)), q))
                continue
            if a is None or b is None:
                raise Unsupported('quantified store on one branch only')
            add.append((k, a if _same(a, b) else ite(c, a, b), q))
        # a copy (ALL) on both branches must not be reordered with field stores
        if any(k[0] == 'ALL' for k, v, q in add if isinstance(k, tuple) and k) and len(add) > 1:
            raise Unsupported('state copy mixed with field stores')
        st['env'] = env
        st['heap'].extend(add)

    def cond(self, fn, nid, st):
        v = self.ev(fn, nid, st)
        b = self.truth(v)
        # fold with the branch facts collected so far
        for f in st.get('facts', []):
            if f == b:
                return True
            if f == b_not(b):
                return False
        return b

    def truth(self, v):
        if is_bool(v):
            return v
        if isinstance(v, Poly):
            return cmp0('ne0', v, self.ctx)
        return ('b', v)

    # -- loops -----------------------------------------------------------------------------------------------------------
    def loop(self, fn, n, st, rest):
        init, cond, inc, body = fn.nodes.get(n.get('init')), fn.nodes.get(n.get('cond')), fn.nodes.get(n.get('inc')), n.get('body')
        if not init or init['k'] != 'DeclStmt' or len(init.get('decls', [])) != 1 or not init['decls'][0].get('init'):
            raise Unsupported('loop init at ' + fn.where(n))
        d = init['decls'][0]
        lo = self.num(self.ev(fn, d['init'], st))
        c = fn.strip(cond['id']) if cond else None
        if c is None or c['k'] != 'BinaryOperator' or c.get('op') not in ('<', '!='):
            raise Unsupported('loop condition at ' + fn.where(n))
        lhs = fn.strip(c['ch'][0])
        if lhs is None or lhs['k'] != 'DeclRefExpr' or lhs.get('did') != d['did']:
            raise Unsupported('loop condition at ' + fn.where(n))
        hi = self.num(self.ev(fn, c['ch'][1], st))
        i = fn.strip(inc['id']) if inc else None
        if i is None or i['k'] != 'UnaryOperator' or i.get('op') != '++' or (fn.strip(i['ch'][0]) or {}).get('did') != d['did']:
            raise Unsupported('loop increment at ' + fn.where(n))
        self.bvn += 1
        try:
            return self._loop(fn, n, st, rest, d, lo, hi, body)
        finally:
            self.bvn -= 1

    def _loop(self, fn, n, st, rest, d, lo, hi, body):
        bv = ('bv', self.bvn)
        # variables assigned in the body
        assigned = set()
        for x in fn.walk(body):
            if x['k'] in ('BinaryOperator', 'CompoundAssignOperator') and x.get('op') in ('=', '+=', '-=', '*=', '/='):
                t = fn.strip(x['ch'][0])
                if t is not None and t['k'] == 'DeclRefExpr' and t.get('did') in st['env']:
                    assigned.add(t['did'])
            elif x['k'] == 'UnaryOperator' and x.get('op') in ('++', '--'):
                t = fn.strip(x['ch'][0])
                if t is not None and t['k'] == 'DeclRefExpr' and t.get('did') in st['env']:
                    assigned.add(t['did'])
        assigned.discard(d['did'])
        strides = {}
        for rnd in (0, 1):
            s = self.fork(st)
            s['env'][d['did']] = Poly.atom(bv)
            for v in assigned:
                old = st['env'][v]
                if isinstance(old, tuple) and old and old[0] == 'P':
                    off = old[2] + (Poly.atom(bv) - lo).scale(strides.get(v, 0)) if rnd else Poly.atom(('lc', v))
                    s['env'][v] = ('P', old[1], off)
                elif isinstance(old, Poly):
                    s['env'][v] = Poly.atom(('lc', v))
                elif isinstance(old, tuple) and old and old[0] in ('F', 'I'):
                    # a pointer walking an array:  p = obj->values; ... *p++
                    st['env'][v] = old = ('P', old, Poly())
                    off = old[2] + (Poly.atom(bv) - lo).scale(strides.get(v, 0)) if rnd else Poly.atom(('lc', v))
                    s['env'][v] = ('P', old[1], off)
                else:
                    raise Unsupported('loop-carried non-numeric variable at ' + fn.where(n))
            h0 = len(s['heap'])
            r = self.stmt(fn, body, s, [])
            if rnd == 0:
                for v in assigned:
                    old = st['env'][v]
                    if isinstance(old, tuple) and old and old[0] == 'P':
                        new = s['env'][v]
                        dlt = new[2] - Poly.atom(('lc', v))
                        if not dlt.is_const():
                            raise Unsupported('pointer stride is not constant at ' + fn.where(n))
                        strides[v] = dlt.cval()
        is_lc = lambda a: isinstance(a, tuple) and a and a[0] == 'lc'
        # `if (c(i)) continue;` guards the rest of the body (the merge above already made every later effect conditional);
        # `if (c(i)) break;` additionally ends the loop at the first such i: sums become sums over that prefix
        r, brk = _strip_loop_tokens(r)
        if brk is not None and (r is not FALL or len(s['heap']) != h0):
            raise Unsupported('break combined with a return or a store in a summarised loop at ' + fn.where(n))
        # accumulators
        for v in assigned:
            old = st['env'][v]
            new = s['env'][v]
            if isinstance(old, tuple) and old and old[0] == 'P':
                st['env'][v] = ('P', old[1], old[2] + (hi - lo).scale(strides[v]))
                continue
            term = new - Poly.atom(('lc', v))
            if term.mentions(is_lc):
                # multiplicative accumulator:  acc = acc * factor
                lcv = ('lc', v)
                fac = None
                if all(dict(m).get(lcv) == 1 for m in new.t) and new.t:
                    fac = Poly({tuple(x for x in m if x[0] != lcv): c for m, c in new.t.items()})
                if fac is None or fac.mentions(is_lc):
                    raise Unsupported('loop-carried variable is not an accumulator at ' + fn.where(n))
                if fac.mentions(lambda a: a == bv):
                    raise Unsupported('product over an index-dependent factor at ' + fn.where(n))
                cnt = hi - lo
                if cnt.is_const() and cnt.cval().denominator == 1 and 0 <= cnt.cval() <= 16:
                    p = Poly.const(1)
                    for _ in range(int(cnt.cval())):
                        p = p * fac
                    st['env'][v] = old * p
                else:
                    st['env'][v] = old * Poly.atom(('app', 'pow', fac.key(), cnt.key()))
                continue
            if brk is not None:
                st['env'][v] = old + Poly.atom(('sum_until', lo.key(), hi.key(), repr(brk), term.key()))
            else:
                st['env'][v] = old + self.summ(bv, lo, hi, term)
        # stores
        written = [k for k, v, q in s['heap'][h0:] if isinstance(k, tuple) and k and k[0] == 'I']
        if written:
            # loop-carried memory dependence: a read of arr[j] with j != the index written in this iteration
            def hazard(a):
                if isinstance(a, tuple) and a and a[0] == 'rd' and isinstance(a[1], tuple) and a[1][0] == 'I':
                    return any(w[1] == a[1][1] and w[2] != a[1][2] for w in written)
                return False
            for k, v, q in s['heap'][h0:]:
                if isinstance(v, Poly) and v.mentions(hazard):
                    raise Unsupported('loop-carried memory dependence at ' + fn.where(n))
        for k, v, q in s['heap'][h0:]:
            if q is not None:
                raise Unsupported('nested quantified store at ' + fn.where(n))
            if (isinstance(v, Poly) and v.mentions(is_lc)) or _mentions(k, is_lc):
                raise Unsupported('store of a loop-carried value at ' + fn.where(n))
            st['heap'].append((k, v, (bv, lo.key(), hi.key())))
        if r is FALL:
            return FALL
        # early return:  r = ite(c(bv), value, FALL)
        c_ret, val = split_ret(r)
        if val is None or (isinstance(val, Poly) and val.mentions(lambda a: a == bv)):
            raise Unsupported('early return value depends on the loop index at ' + fn.where(n))
        if c_ret is True:
            ex = cmp0('lt0', lo - hi, self.ctx)
        elif c_ret is False:
            ex = False
        else:
            ex = ('ex', lo.key(), hi.key(), c_ret)
        s2 = self.fork(st)
        r2 = self.cont(fn, s2, rest)
        st['env'], st['heap'] = s2['env'], s2['heap']
        return ite_ret(ex, val, r2)

    def summ(self, bv, lo, hi, term):
        if not term.t:
            return Poly()
        if not term.mentions(lambda a: a == bv):
            return term * (hi - lo)
        # canonical bound variable name so that sums from different runs compare equal
        canon_bv = ('bv', 0)
        t = term.subst(lambda a: Poly.atom(canon_bv) if a == bv else None)
        return Poly.atom(('sum', lo.key(), hi.key(), t.key()))

    def num(self, v):
        if isinstance(v, Poly):
            return v
        if v is True:
            return Poly.const(1)
        if v is False:
            return Poly.const(0)
        if is_bool(v):
            return Poly.atom(('ite', v, Poly.const(1).key(), Poly.const(0).key()))
        raise Unsupported('numeric value expected, got %r' % (v,))

    # -- expressions -----------------------------------------------------------------------------------------------------
    def ev(self, fn, nid, st, want_ty=None):
        n = fn.nodes.get(nid)
        if n is None:
            raise Unsupported('missing node')
        k = n['k']
        if k in SKIP and n['ch']:
            v = self.ev(fn, n['ch'][0], st)
            if k == 'ImplicitCastExpr' and n.get('ck') == 'LValueToRValue' and is_arith(n.get('ty')):
                v = self.load(v, st)
                if is_int(n.get('ty')) and isinstance(v, Poly):
                    self.ints.update(a for a in v.atoms() if isinstance(a, tuple) and a and a[0] == 'rd')
            if n.get('ck') in ('FloatingToIntegral',) and isinstance(v, Poly):
                v = self.loadv(v, st)
                return self.app('trunc', [v])
            if n.get('ck') in ('FloatingToBoolean', 'IntegralToBoolean', 'PointerToBoolean') and not is_bool(v):
                return self.truth(v)
            return v
        if k == 'IntegerLiteral':
            return Poly.const(int(n['v']))
        if k == 'FloatingLiteral':
            try:
                return Poly.const(Fraction(str(n['v'])))
            except Exception:
                return Poly.const(Fraction(float(n['v'])))
        if k == 'CXXBoolLiteralExpr':
            return bool(n['v'])
        if k in ('CXXNullPtrLiteralExpr', 'GNUNullExpr'):
            return ('null',)
        if k == 'CXXThisExpr':
            return st['this']
        if k == 'DeclRefExpr':
            if n.get('did') in st['env']:
                return ('L', n['did']) if n.get('lv') else st['env'][n['did']]
            if n.get('dk') == 'Enum':
                if n.get('v') is not None:
                    return Poly.const(int(n['v']))
                return Poly.atom(('g', n.get('q') or n.get('name')))
            if n.get('dk') in ('Global', 'Var', 'Static') or n.get('q'):
                a = ('g', n.get('q') or n.get('name'))
                if n.get('cv') is not None:
                    return Poly.const(Fraction(str(n['cv'])))
                return Poly.atom(a) if is_arith(n.get('ty')) else a
            raise Unsupported('reference to %s at %s' % (n.get('name'), fn.where(n)))
        if k == 'MemberExpr':
            base = self.ev(fn, n['ch'][0], st) if n['ch'] else st['this']
            base = self.obj(base, st)
            return fld(base, n.get('name'))
        if k == 'ArraySubscriptExpr':
            b = self.obj(self.ev(fn, n['ch'][0], st), st)
            i = self.num(self.loadv(self.ev(fn, n['ch'][1], st), st))
            if isinstance(b, tuple) and b and b[0] == 'P':
                return idx(b[1], b[2] + i)
            return idx(b, i)
        if k == 'UnaryOperator':
            return self.unary(fn, n, st)
        if k == 'BinaryOperator':
            return self.binary(fn, n, st)
        if k == 'CompoundAssignOperator':
            op = n['op'][:-1]
            lv = self.ev(fn, n['ch'][0], st)
            a = self.num(self.load(lv, st))
            b = self.num(self.load(self.loadv(self.ev(fn, n['ch'][1], st), st), st))
            if op in ('/', '%') and is_int(n.get('ty')):
                v = Poly.atom(('app', 'idiv' if op == '/' else 'imod', a.key(), b.key()))
            else:
                v = self.arith(op, a, b)
            self.store(lv, v, st)
            return lv
        if k == 'ConditionalOperator':
            c = self.cond(fn, n['cond'], st)
            if c is True:
                return self.loadv(self.ev(fn, n['then'], st), st)
            if c is False:
                return self.loadv(self.ev(fn, n['else'], st), st)
            s1, s2 = self.fork(st), self.fork(st)
            self.assume(s1, c)
            self.assume(s2, b_not(c))
            a = self.loadv(self.ev(fn, n['then'], s1), s1)
            b = self.loadv(self.ev(fn, n['else'], s2), s2)
            self.merge(st, c, s1, s2)
            return ite(c, a, b)
        if k in ('CallExpr', 'CXXMemberCallExpr', 'CXXOperatorCallExpr'):
            return self.call(fn, n, st)
        if k == 'CXXConstructExpr' and len(n['ch']) == 1:
            return self.ev(fn, n['ch'][0], st)
        if k == 'InitListExpr' or k == 'CXXConstructExpr' or k == 'CXXTemporaryObjectExpr':
            return ('init', n.get('callee') or k) + tuple(self.keyof(self.loadv(self.ev(fn, c, st), st)) for c in n['ch'])
        if k == 'CXXDefaultArgExpr':
            return ('defarg',)
        if k == 'StringLiteral':
            return ('str', n.get('v'))
        raise Unsupported('%s at %s' % (k, fn.where(n)))

    def keyof(self, v):
        return v.key() if isinstance(v, Poly) else v

    def obj(self, v, st):
        """pointer/object value of an expression (loads locals holding references)"""
        if isinstance(v, tuple) and v and v[0] == 'L':
            v = st['env'][v[1]]
        if isinstance(v, tuple) and v and v[0] == 'ref':
            return v[1]
        return v

    def load(self, v, st):
        """rvalue of an arithmetic lvalue"""
        if isinstance(v, Poly) or is_bool(v):
            return v
        if isinstance(v, tuple) and v and v[0] == 'L':
            x = st['env'][v[1]]
            if isinstance(x, tuple) and x and x[0] == 'undef':
                raise Unsupported('read of uninitialised local ' + x[1])
            if isinstance(x, tuple) and x and x[0] == 'ref':
                return self.read(x[1], st)
            return x
        if isinstance(v, tuple) and v and v[0] in ('F', 'I', 'N', 'ite'):
            return self.read(v, st)
        return v

    def loadv(self, v, st):
        """value of an expression whatever its category"""
        if isinstance(v, tuple) and v and v[0] == 'L':
            v = st['env'][v[1]]
            if isinstance(v, tuple) and v and v[0] == 'ref':
                return self.read(v[1], st)
        return v

    def store(self, lv, val, st):
        if isinstance(lv, tuple) and lv and lv[0] == 'L':
            old = st['env'].get(lv[1])
            if isinstance(old, tuple) and old and old[0] == 'ref':
                self.write(old[1], val, st)
                return
            st['env'][lv[1]] = val
            return
        if isinstance(lv, tuple) and lv and lv[0] in ('F', 'I'):
            self.write(lv, val, st)
            return
        raise Unsupported('store to %r' % (lv,))

    def unary(self, fn, n, st):
        op = n.get('op')
        if op in ('++', '--'):
            lv = self.ev(fn, n['ch'][0], st)
            old = self.loadv(lv, st) if isinstance(lv, tuple) and lv and lv[0] == 'L' else self.load(lv, st)
            one = Poly.const(1 if op == '++' else -1)
            if isinstance(old, tuple) and old and old[0] == 'P':
                new = ('P', old[1], old[2] + one)
            else:
                new = self.num(old) + one
            self.store(lv, new, st)
            return old if n.get('post') else new
        v = self.ev(fn, n['ch'][0], st)
        if op == '*':
            p = self.obj(v, st)
            if isinstance(p, tuple) and p and p[0] == 'P':
                return idx(p[1], p[2])
            return p                          # pointer to a single object: the object
        if op == '&':
            return self.obj(v, st) if not (isinstance(v, tuple) and v and v[0] == 'L' and isinstance(st['env'][v[1]], Poly)) else v
        v = self.loadv(v, st)
        if op == '-':
            return -self.num(self.load(v, st))
        if op == '+':
            return self.num(self.load(v, st))
        if op == '!':
            return b_not(self.truth(self.load(v, st)))
        if op == '__extension__':
            return v
        raise Unsupported('unary %s at %s' % (op, fn.where(n)))

    def arith(self, op, a, b):
        if op == '+':
            return a + b
        if op == '-':
            return a - b
        if op == '*':
            return a * b
        if op == '/':
            return a * inv(b)
        if op == '%':
            return self.app('mod', [a, b])
        raise Unsupported('operator ' + op)

    def binary(self, fn, n, st):
        op = n.get('op')
        if op == '=':
            lv = self.ev(fn, n['ch'][0], st)
            v = self.ev(fn, n['ch'][1], st)
            v = self.loadv(v, st)
            if isinstance(lv, tuple) and lv and lv[0] in ('F', 'I') and is_arith(n.get('ty')):
                v = self.num(self.load(v, st))
            self.store(lv, v, st)
            return lv
        if op == ',':
            self.ev(fn, n['ch'][0], st)
            return self.ev(fn, n['ch'][1], st)
        if op in ('&&', '||'):
            a = self.cond(fn, n['ch'][0], st)
            if op == '&&' and a is False:
                return False
            if op == '||' and a is True:
                return True
            s2 = self.fork(st)
            self.assume(s2, a if op == '&&' else b_not(a))
            b = self.cond(fn, n['ch'][1], s2)
            return b_and(a, b) if op == '&&' else b_or(a, b)
        a = self.load(self.loadv(self.ev(fn, n['ch'][0], st), st), st)
        b = self.load(self.loadv(self.ev(fn, n['ch'][1], st), st), st)
        if op in ('<', '>', '<=', '>=', '==', '!='):
            if not isinstance(a, Poly) or not isinstance(b, Poly):
                if is_bool(a) or is_bool(b):
                    a, b = self.num(a), self.num(b)
                else:
                    e = ('b', ('eq',) + tuple(sorted([a, b], key=repr)))
                    a, b = self.alias(a, st), self.alias(b, st)
                    if frozenset((a, b)) in self.ctx.distinct:
                        return op == '!='
                    if op == '==':
                        return True if a == b else e
                    if op == '!=':
                        return False if a == b else b_not(e)
                    raise Unsupported('ordering of non-numeric values at ' + fn.where(n))
            if op == '<':
                return cmp0('lt0', a - b, self.ctx)
            if op == '>':
                return cmp0('lt0', b - a, self.ctx)
            if op == '<=':
                return cmp0('le0', a - b, self.ctx)
            if op == '>=':
                return cmp0('le0', b - a, self.ctx)
            if op == '==':
                return cmp0('eq0', a - b, self.ctx)
            return cmp0('ne0', a - b, self.ctx)
        if isinstance(a, tuple) and a and a[0] == 'P' and op in ('+', '-'):
            return ('P', a[1], self.arith(op, a[2], self.num(b)))
        if op in ('/', '%') and is_int(n.get('ty')):
            a, b = self.num(a), self.num(b)
            if a.is_const() and b.is_const() and b.cval() != 0:
                q = int(a.cval() / b.cval())          # C++ truncates toward zero
                return Poly.const(q if op == '/' else a.cval() - q * b.cval())
            return Poly.atom(('app', 'idiv' if op == '/' else 'imod', a.key(), b.key()))
        return self.arith(op, self.num(a), self.num(b))

    # -- calls -------------------------------------------------------------------------------------------------------------
    def app(self, name, args):
        short = name.split('::')[-1]
        args = [self.ctx.rewrite(a) if isinstance(a, Poly) else a for a in args]
        if short in EVEN | ODD | COMM | {'sqrt'} and all(isinstance(a, Poly) for a in args):
            if short in EVEN and len(args) == 1:
                a = args[0]
                if a.is_const():
                    if short in ('fabs', 'abs', 'fabsf'):
                        return Poly.const(abs(a.cval()))
                    if short == 'cos' and a.cval() == 0:
                        return Poly.const(1)
                if a.lead_negative():
                    a = -a
                if short in ('fabs', 'abs', 'fabsf'):
                    short = 'fabs'
                    s = self.ctx.sign(a)
                    if s in ('>0', '>=0', '=0'):
                        return a
                    if s in ('<0', '<=0'):
                        return -a
                return Poly.atom(('app', short, a.key()))
            if short in ODD and len(args) == 1:
                a = args[0]
                if a.is_const() and a.cval() == 0:
                    return Poly()
                if a.lead_negative():
                    return -Poly.atom(('app', short, (-a).key()))
                return Poly.atom(('app', short, a.key()))
            if short in COMM:
                ks = sorted((a.key() for a in args), key=repr)
                if len(set(ks)) == 1:
                    return from_key(ks[0]) if short in ('min', 'max', 'fmin', 'fmax') else Poly.atom(('app', short) + tuple(ks))
                return Poly.atom(('app', short) + tuple(ks))
            if short == 'sqrt':
                a = args[0]
                if a.is_const() and a.cval() >= 0:
                    c = a.cval()
                    r = Fraction(math.isqrt(c.numerator), 1) / Fraction(math.isqrt(c.denominator), 1)
                    if r * r == c:
                        return Poly.const(r)
                return Poly.atom(('app', 'sqrt', a.key()))
        if short in ('floor', 'ceil', 'trunc', 'round') and len(args) == 1 and isinstance(args[0], Poly):
            p = args[0]
            ip = Poly({m: c for m, c in p.t.items() if self.integral(Poly({m: c}))})
            rest = p - ip
            if rest.is_const():
                c = rest.cval()
                f = {'floor': math.floor, 'ceil': math.ceil, 'trunc': math.trunc, 'round': round}[short]
                if short != 'trunc' or not (ip - Poly.const(ip.cval())).t or c.denominator == 1:
                    # floor(n + c) = n + floor(c); trunc(n + c) = n + c only when c is an integer (sign of n unknown)
                    return ip + Poly.const(f(c))
            return Poly.atom(('app', short, p.key()))
        if short == 'acos' and len(args) == 1 and isinstance(args[0], Poly) and args[0].is_const() and args[0].cval() == 1:
            return Poly()
        return Poly.atom(('app', short if short in MATH else name) + tuple(self.keyof(a) for a in args))

    def call(self, fn, n, st):
        callee = n.get('callee') or ''
        short = callee.split('::')[-1]
        if short in ALIASES and (callee == short or callee.startswith('std::')):
            short = ALIASES[short]
            callee = short
        ch = list(n['ch'])
        recv = None
        if n['k'] == 'CXXMemberCallExpr':
            recv = self.obj(self.ev(fn, ch[0], st), st) if ch else st['this']
            ch = ch[1:]
        if callee == 'ompl::base::State::as' or (short == 'as' and 'State' in callee):
            if ch:                                  # CompoundState::as<T>(index)
                i = self.num(self.loadv(self.ev(fn, ch[0], st), st))
                return idx(fld(recv, 'components'), i)
            return recv
        if n['k'] == 'CXXOperatorCallExpr' and n.get('oop') == '=' and len(ch) == 2:
            lv = self.ev(fn, ch[0], st)
            v = self.loadv(self.ev(fn, ch[1], st), st)
            if isinstance(lv, tuple) and lv and lv[0] == 'L':
                self.store(lv, v, st)
                return lv
            raise Unsupported('object assignment to %r at %s' % (lv, fn.where(n)))
        if n['k'] == 'CXXOperatorCallExpr' and n.get('oop') in ('->', '*') and len(ch) == 1:
            return self.obj(self.ev(fn, ch[0], st), st)                 # smart pointers are transparent
        if n['k'] == 'CXXMemberCallExpr' and short == 'get' and not ch and ('shared_ptr' in callee or 'unique_ptr' in callee):
            return recv
        if n['k'] == 'CXXOperatorCallExpr' and n.get('oop') == '[]' and len(ch) == 2:
            b = self.obj(self.ev(fn, ch[0], st), st)
            return idx(b, self.num(self.load(self.loadv(self.ev(fn, ch[1], st), st), st)))
        argv = []
        for c in ch:
            a = self.loadv(self.ev(fn, c, st), st)
            cn = fn.nodes[c]
            if is_arith(cn.get('ty')) and not cn.get('lv'):
                a = self.load(a, st)
            argv.append(a)
        if short in MATH and (callee == short or callee.startswith('std::') or callee.startswith('boost::math')):
            return self.app(short, [self.num(self.load(a, st)) for a in argv])
        if callee.startswith('std::numeric_limits'):
            return Poly.atom(('app', callee))
        if callee.startswith('boost::math::constants::') and not ch:
            return Poly.atom(('g', 'boost::math::double_constants::' + short))
        if callee in ('std::abs', 'std::fabs'):
            return self.app('fabs', [self.num(a) for a in argv])
        if short == 'copyState' and len(argv) == 2 and all(isinstance(a, tuple) for a in argv):
            dst, srcr = self.alias(argv[0], st), self.alias(argv[1], st)
            if dst != srcr:
                st['heap'].append((('ALL', dst), srcr, None))
            return None
        target = self.resolve(fn, n, recv)
        if target is not None and callee not in self.ctx.opaque_calls:
            if self.depth >= self.MAX_DEPTH:
                raise Unsupported('inlining depth exceeded at ' + fn.where(n))
            self.depth += 1
            try:
                binding = {p['name']: a for p, a in zip(target.params, argv)}
                if len(argv) != len(target.params):
                    raise Unsupported('default arguments in call to ' + callee)
                sub = {'env': {}, 'heap': st['heap'], 'alias': st.get('alias') or {}, 'this': recv if recv is not None else st['this'],
                       'facts': list(st.get('facts', []))}
                for p in target.params:
                    sub['env'][p['did']] = binding[p['name']]
                r = self.block(target, [target.body], sub)
                return None if r is FALL else r
            finally:
                self.depth -= 1
        if '_distribution::operator()' in callee:
            # a draw from a random distribution: a fresh atom per call site evaluation (two draws are never identified)
            self.draws = getattr(self, 'draws', 0) + 1
            return Poly.atom(('draw', callee.split('::')[1], self.draws))
        # opaque call
        keys = [self.keyof(a) for a in argv]
        if len(keys) == 2 and keys[0] == keys[1]:
            if callee in self.ctx.self_zero_calls:
                return Poly()
            if callee in self.ctx.self_true_calls:
                return True
        if callee in self.ctx.symmetric_calls and len(keys) == 2:
            keys = sorted(keys, key=repr)
        a = ('call', callee, recv) + tuple(keys)
        if (n.get('ty') or '') == 'void':
            st['heap'].append((('E', callee, recv) + tuple(self.alias(k, st) if isinstance(k, tuple) and k and k[0] != 'poly' else k
                                                          for k in keys), True, None))
            return None
        if is_arith(n.get('ty')):
            return Poly.atom(a) if (n.get('ty') or '').replace('const ', '') != 'bool' else ('b', a)
        return a

    def _arith_arg(self, fn, c):
        return is_arith(fn.nodes[c].get('ty'))

    def resolve(self, fn, n, recv):
        """definition to inline: non-virtual repo function with a body (rule-supplied filter)"""
        if self.ctx.inline is None:
            return None
        return self.ctx.inline(fn, n, recv)


def _is_split(r):
    return isinstance(r, tuple) and r and r[0] == 'split'


def _leaves(r, st):
    """leaf = (path facts, final state, return value)"""
    if _is_split(r):
        return list(r[1])
    return [(tuple(st.get('facts', [])), st, None if r is FALL else r)]


def leaves(r, st):
    return _leaves(r, st)


def _same(a, b):
    if isinstance(a, Poly) and isinstance(b, Poly):
        return a == b
    return a == b and type(a) == type(b)


def ite_ret(c, r1, r2):
    if c is True:
        return r1
    if c is False:
        return r2
    if r1 is FALL or r2 is FALL:
        return ('ret?', c, r1, r2)
    return ite(c, r1, r2)


def _strip_loop_tokens(r):
    """remove the ('continue',) / ('brk',) markers from the result of a loop body: returns (result, break condition or
    None).  A continue is a fall-through of the iteration; a break is reported with the condition under which it is taken"""
    if r == ('continue',):
        return FALL, None
    if r == ('brk',):
        raise Unsupported('unconditional break in a summarised loop')
    if isinstance(r, tuple) and r and r[0] == 'ret?':
        a, ba = _strip_loop_tokens(r[2]) if r[2] != ('brk',) else (FALL, r[1])
        b, bb = _strip_loop_tokens(r[3]) if r[3] != ('brk',) else (FALL, b_not(r[1]))
        if ba is not None and bb is not None:
            raise Unsupported('two break conditions in a summarised loop')
        brk = ba if ba is not None else bb
        if r[2] != ('brk',) and ba is not None:
            brk = b_and(r[1], ba) if 'b_and' in globals() else ba
        if r[3] != ('brk',) and bb is not None:
            brk = b_and(b_not(r[1]), bb) if 'b_and' in globals() else bb
        if a is FALL and b is FALL:
            return FALL, brk
        return ite_ret(r[1], a, b), brk
    if isinstance(r, tuple) and (('continue',) in r or ('brk',) in r):
        raise Unsupported('continue / break mixed with a return value in a summarised loop')
    return r, None


def split_ret(r):
    """('ret?', c, value, FALL) -> (c, value)"""
    if isinstance(r, tuple) and r and r[0] == 'ret?':
        if r[3] is FALL and r[2] is not FALL:
            return r[1], r[2]
        if r[2] is FALL and r[3] is not FALL:
            return b_not(r[1]), r[3]
        return r[1], None
    return True, r


def evaluate(v, val):
    """value of a normal form under a valuation of its atoms: val(atom) -> number / bool, or None when unknown.
    ite / comparison / and / or / not are interpreted; used for finite-domain checks over orderings."""
    if isinstance(v, Poly):
        s = Fraction(0)
        for m, c in v.t.items():
            x = Fraction(c)
            for a, e in m:
                av = _eval_atom(a, val)
                if av is None:
                    raise Unsupported('no value for %s' % show_atom(a))
                x *= Fraction(av) ** e
            s += x
        return s
    if v is True or v is False:
        return v
    if isinstance(v, tuple) and v:
        if v[0] in ('lt0', 'le0', 'eq0', 'ne0'):
            x = evaluate(from_key(v[1]), val)
            return {'lt0': x < 0, 'le0': x <= 0, 'eq0': x == 0, 'ne0': x != 0}[v[0]]
        if v[0] == 'and':
            return all(evaluate(x, val) for x in v[1:])
        if v[0] == 'or':
            return any(evaluate(x, val) for x in v[1:])
        if v[0] == 'not':
            return not evaluate(v[1], val)
        if v[0] == 'ite':
            return evaluate(v[2] if evaluate(v[1], val) else v[3], val)
        r = val(v)
        if r is None:
            raise Unsupported('no value for %s' % show_atom(v))
        return r
    raise Unsupported('cannot evaluate %r' % (v,))


def _eval_atom(a, val):
    if isinstance(a, tuple) and a and a[0] == 'ite':
        c = evaluate(a[1], val)
        return evaluate(from_key(a[2] if c else a[3]), val)
    if a in CONSTS:
        return Fraction(CONSTS[a])
    return val(a)


def resolver(F, deny=(), allow_virtual=()):
    """inline policy: a repo function with a body, unique by name and arity, called non-virtually (or on the allow list)"""
    def inline(fn, n, recv):
        c = n.get('callee') or ''
        if c in deny or c.split('::')[-1] in deny:
            return None
        if n.get('virt') and c not in allow_virtual:
            return None
        nargs = len(n['ch']) - (1 if n['k'] == 'CXXMemberCallExpr' else 0)
        cands = [f for f in F.by_name.get(c, []) if f.body and len(f.params) == nargs and not f.d.get('lambda_of')]
        if len(cands) > 1 and n.get('csig'):
            same = [f for f in cands if f.sig == n['csig']]
            cands = same or cands
        if len(cands) > 1:
            # header-defined functions appear once per unit
            if len(set((f.file, f.line) for f in cands)) == 1:
                cands = cands[:1]
        return cands[0] if len(cands) == 1 else None
    return inline


def stores(st, root):
    """final stores whose reference is rooted at `root`: [(ref, value, quantifier)] last-writer-wins"""
    out = {}
    for k, v, q in st['heap']:
        r = k
        while isinstance(r, tuple) and r and r[0] in ('F', 'I', 'N'):
            r = r[1]
        if r == root:
            out[(k, q)] = v
    return [(k, v, q) for (k, q), v in out.items()]


def pythagoras(p):
    """rewrite sqrt(q)^2 -> q and cos(a)^2 -> 1 - sin(a)^2 in every monomial (enough to decide unit-norm identities of
    angle / radius parameterisations); other factors are kept"""
    out = Poly()
    for mono, c in p.t.items():
        term = Poly.const(c)
        for atom, e in mono:
            if isinstance(atom, tuple) and len(atom) >= 3 and atom[0] == 'app' and atom[1] == 'sqrt' and e >= 2:
                q = from_key(atom[2])
                for _ in range(e // 2):
                    term = term * q
                if e % 2:
                    term = term * Poly.atom(atom)
            elif isinstance(atom, tuple) and len(atom) >= 3 and atom[0] == 'app' and atom[1] == 'cos' and e >= 2:
                s2 = Poly.atom(('app', 'sin') + tuple(atom[2:]))
                one_minus = Poly.const(1) - s2 * s2
                for _ in range(e // 2):
                    term = term * one_minus
                if e % 2:
                    term = term * Poly.atom(atom)
            else:
                a = Poly.atom(atom)
                for _ in range(e):
                    term = term * a
        out = out + term
    return out
