"""E1 driver: build/run the omplx extractor over /repo's *current* sources and load facts.

Facts are cached under /verif/.work/facts/<treehash>/ where treehash is the
content hash of every file under /repo/src/ompl, /verif/inst, the extractor binary
and the flag set, so any edit of the repository re-extracts (the cache only saves
work between checks run on the same tree).
"""
import glob
import hashlib
import json
import os
import re
import shutil
import subprocess
import sys
import time
from concurrent.futures import ThreadPoolExecutor

VERIF = os.path.dirname(os.path.dirname(os.path.abspath(__file__)))
REPO = os.environ.get('OMPL_REPO', '/repo')
SRC = os.path.join(REPO, 'src')
WORK = os.environ.get('VERIF_WORK') or os.path.join(VERIF, '.work')
OMPLX = os.path.join(VERIF, 'tools', 'omplx', 'omplx')
INST = os.path.join(VERIF, 'inst')
KEEP_TREES = int(os.environ.get('VERIF_KEEP_TREES', '3'))


class AnalysisBroken(Exception):
    """exit 2: anchor vanished, unit unparsable, unknown idiom at a frozen instance"""


def build_extractor():
    src = OMPLX + '.cc'
    if os.path.exists(OMPLX) and os.path.getmtime(OMPLX) >= os.path.getmtime(src):
        return
    cxxflags = subprocess.check_output(['llvm-config-14', '--cxxflags'], text=True).split()
    cmd = ['clang++'] + cxxflags + ['-std=c++17', '-fno-rtti', '-O1', src, '-o', OMPLX,
                                    '/usr/lib/llvm-14/lib/libclang-cpp.so.14', '/usr/lib/llvm-14/lib/libLLVM-14.so']
    r = subprocess.run(cmd, capture_output=True, text=True)
    if r.returncode != 0:
        raise AnalysisBroken('cannot build omplx: ' + r.stderr[-2000:])


_flags = None


def config_dir():
    """directory that holds ompl/config.h"""
    d = os.path.join(REPO, '_build', 'src')
    if os.path.exists(os.path.join(d, 'ompl', 'config.h')):
        return d
    # fall back: synthesise config.h from config.h.in (optional extensions off)
    d = os.path.join(WORK, 'cfg')
    out = os.path.join(d, 'ompl', 'config.h')
    if not os.path.exists(out):
        os.makedirs(os.path.dirname(out), exist_ok=True)
        txt = open(os.path.join(SRC, 'ompl', 'config.h.in')).read()
        cm = open(os.path.join(REPO, 'CMakeLists.txt')).read()
        m = re.search(r'VERSION\s+(\d+)\.(\d+)\.(\d+)', cm)
        maj, mnr, pat = m.groups() if m else ('1', '0', '0')
        rep = {'PROJECT_VERSION': '%s.%s.%s' % (maj, mnr, pat), 'PROJECT_VERSION_MAJOR': maj,
               'PROJECT_VERSION_MINOR': mnr, 'PROJECT_VERSION_PATCH': pat}
        txt = re.sub(r'@(\w+)@', lambda mm: rep.get(mm.group(1), '0'), txt)
        txt = re.sub(r'#cmakedefine01\s+(\w+)', r'#define \1 0', txt)
        txt = re.sub(r'#cmakedefine\s+(\w+).*', r'/* #undef \1 */', txt)
        open(out, 'w').write(txt)
    return d


def flags():
    global _flags
    if _flags is None:
        _flags = ['-std=gnu++17', '-I' + SRC, '-I' + config_dir(), '-isystem', '/usr/include/eigen3',
                  '-DBOOST_ATOMIC_DYN_LINK', '-DBOOST_ATOMIC_NO_LIB', '-DBOOST_FILESYSTEM_DYN_LINK',
                  '-DBOOST_FILESYSTEM_NO_LIB', '-DBOOST_MATH_NO_LONG_DOUBLE_MATH_FUNCTIONS',
                  '-DBOOST_SERIALIZATION_DYN_LINK', '-DBOOST_SERIALIZATION_NO_LIB', '-DBOOST_SYSTEM_DYN_LINK',
                  '-DBOOST_SYSTEM_NO_LIB', '-D_HAS_AUTO_PTR_ETC=0', '-Dompl_EXPORTS', '-DOMPL_VERIF', '-UNDEBUG',
                  '-Wno-everything', '-resource-dir', '/usr/lib/llvm-14/lib/clang/14.0.6']
    return _flags


_treehash = None


def tree_hash():
    global _treehash
    if _treehash is None:
        h = hashlib.sha256()
        files = []
        for root in (os.path.join(SRC, 'ompl'), INST):
            for dp, dn, fn in os.walk(root):
                for f in fn:
                    if f.endswith(('.h', '.hpp', '.cpp', '.cc', '.in')):
                        files.append(os.path.join(dp, f))
        files.sort()
        for f in files:
            h.update(f.encode())
            with open(f, 'rb') as fh:
                h.update(hashlib.sha256(fh.read()).digest())
        with open(OMPLX + '.cc', 'rb') as fh:
            h.update(fh.read())
        h.update(' '.join(flags()).encode())
        h.update(REPO.encode())
        _treehash = h.hexdigest()[:16]
    return _treehash


def library_units():
    us = sorted(glob.glob(os.path.join(SRC, 'ompl', '**', '*.cpp'), recursive=True))
    # extensions/ needs external libraries that are not installed (not part of the build either)
    return [u for u in us if '/extensions/' not in u]


def inst_units():
    return sorted(glob.glob(os.path.join(INST, '*.cpp')))


def _cache_dir():
    d = os.path.join(WORK, 'facts', tree_hash())
    if not os.path.isdir(d):
        # keep only the few most recent trees (disk hygiene)
        base = os.path.join(WORK, 'facts')
        if os.path.isdir(base):
            olds = sorted((os.path.join(base, o) for o in os.listdir(base)), key=os.path.getmtime, reverse=True)
            for o in olds[KEEP_TREES - 1:]:
                shutil.rmtree(o, ignore_errors=True)
        os.makedirs(d, exist_ok=True)
    return d


def _unit_out(unit):
    return os.path.join(_cache_dir(), unit.strip('/').replace('/', '__') + '.jsonl')


def _extract_one(unit):
    out = _unit_out(unit)
    if os.path.exists(out):
        return out, 0.0, True
    tmp = out + '.tmp%d' % os.getpid()
    t0 = time.time()
    cmd = [OMPLX, '-o', tmp, '--root', SRC + '/', '--root', INST + '/', unit, '--'] + flags()
    r = subprocess.run(cmd, capture_output=True, text=True)
    ok = r.returncode == 0 and os.path.exists(tmp)
    if ok:
        with open(tmp, 'rb') as fh:
            fh.seek(max(0, os.path.getsize(tmp) - 400))
            tail = fh.read().decode(errors='replace')
        ok = '"unit":' in tail and '"errors":false' in tail
    if not ok:
        if os.path.exists(tmp):
            os.remove(tmp)
        raise AnalysisBroken('extraction failed for %s: %s' % (unit, (r.stderr or r.stdout)[-1500:]))
    os.replace(tmp, out)
    return out, time.time() - t0, False


def extract(units, jobs=16):
    """extract (or reuse) facts for the units; returns list of fact files"""
    build_extractor()
    for u in units:
        if not os.path.exists(u):
            raise AnalysisBroken('anchor unit vanished: ' + u)
    outs = []
    with ThreadPoolExecutor(max_workers=jobs) as ex:
        for out, dt, cached in ex.map(_extract_one, units):
            outs.append(out)
    return outs


# ---------------------------------------------------------------------------


class Node(dict):
    __slots__ = ()

    def __getattr__(self, k):
        try:
            return self[k]
        except KeyError:
            return None


class Function:
    def __init__(self, d, unit):
        self.d = d
        self.unit = unit
        self.name = d['fn']
        self.sig = d['sig']
        self.file = d['file']
        self.loc = d['loc']
        self.record = d.get('record')
        self.targs = d.get('targs', '')
        self.params = d['params']
        self.nodes = {}
        for n in d['nodes']:
            self.nodes[n['id']] = n
        self.body = d['body']
        self.parent = {}
        for n in d['nodes']:
            for c in n['ch']:
                if c and c not in self.parent:
                    self.parent[c] = n['id']
            cx = n.get('calleex')
            if cx and cx not in self.parent:
                self.parent[cx] = n['id']
        self.cfg = {b['id']: b for b in d['cfg']}
        self.entry = next((b['id'] for b in d['cfg'] if b.get('entry')), None)
        self.exit = next((b['id'] for b in d['cfg'] if b.get('exit')), None)
        self.key = (self.name, self.sig, self.loc, self.targs)

    def __repr__(self):
        return '<fn %s %s>' % (self.name, self.sig)

    def n(self, i):
        return self.nodes.get(i)

    def walk(self, i=None):
        """pre-order over the subtree rooted at node id i (default: body + ctor inits)"""
        if i is None:
            roots = [x['init'] for x in self.d.get('inits', [])] + [self.body]
        else:
            roots = [i]
        stack = list(reversed(roots))
        while stack:
            j = stack.pop()
            n = self.nodes.get(j)
            if n is None:
                continue
            yield n
            stack.extend(reversed([c for c in n['ch'] if c]))

    def where(self, n):
        """file:line of a node"""
        if isinstance(n, int):
            n = self.nodes[n]
        l = n.get('loc', '')
        parts = l.split(':')
        if len(parts) >= 3:
            return ':'.join(parts[:-1])
        if len(parts) == 2:
            return '%s:%s' % (self.file, parts[0])
        return self.file

    def line(self, n):
        if isinstance(n, int):
            n = self.nodes[n]
        parts = n.get('loc', '').split(':')
        try:
            return int(parts[-2])
        except Exception:
            return 0

    def calls(self, callee=None, pred=None):
        for n in self.walk():
            if n.get('callee') is None:
                continue
            if callee is not None:
                if isinstance(callee, (set, frozenset, list, tuple)):
                    if n['callee'] not in callee:
                        continue
                elif n['callee'] != callee:
                    continue
            if pred is not None and not pred(n):
                continue
            yield n

    def ancestors(self, i):
        while i in self.parent:
            i = self.parent[i]
            yield self.nodes[i]

    def strip(self, i):
        """skip parens / implicit casts / temporaries / cleanups"""
        while True:
            n = self.nodes.get(i)
            if n is None:
                return None
            k = n['k']
            if k in ('ParenExpr', 'ImplicitCastExpr', 'ExprWithCleanups', 'MaterializeTemporaryExpr',
                     'CXXBindTemporaryExpr', 'ConstantExpr', 'CXXFunctionalCastExpr', 'CStyleCastExpr',
                     'CXXStaticCastExpr', 'FullExpr') and n['ch']:
                i = n['ch'][0]
                continue
            if k == 'CXXConstructExpr' and len(n['ch']) == 1:
                # copy/move construction of the same type: look through
                c = self.nodes.get(n['ch'][0])
                ct = (c or {}).get('ty', '').replace('const ', '').strip()
                if ct and ct == (n.get('ty') or '').replace('const ', '').strip():
                    i = n['ch'][0]
                    continue
            return n

    def fp(self, i, strip_casts=True):
        """structural fingerprint of an expression (decl-resolved, position-free)"""
        n = self.nodes.get(i)
        if n is None:
            return '?'
        k = n['k']
        if strip_casts and k in ('ParenExpr', 'ImplicitCastExpr', 'ExprWithCleanups', 'MaterializeTemporaryExpr',
                                 'CXXBindTemporaryExpr', 'ConstantExpr', 'FullExpr') and n['ch']:
            return self.fp(n['ch'][0])
        if k in ('CStyleCastExpr', 'CXXStaticCastExpr', 'CXXFunctionalCastExpr') and n['ch']:
            return 'cast<%s>(%s)' % (n.get('ty'), self.fp(n['ch'][0]))
        if k == 'DeclRefExpr':
            if n.get('dk') in ('Parm', 'Local', 'StaticLocal', 'Binding'):
                return '%s#%d' % (n.get('name'), n.get('did'))
            return n.get('q') or n.get('name')
        if k == 'MemberExpr':
            base = self.fp(n['ch'][0]) if n['ch'] else 'this'
            return '%s.%s' % (base, n.get('name'))
        if k == 'CXXThisExpr':
            return 'this'
        if k in ('IntegerLiteral', 'FloatingLiteral', 'CXXBoolLiteralExpr', 'StringLiteral', 'CharacterLiteral'):
            return repr(n.get('v'))
        if k == 'CXXNullPtrLiteralExpr' or k == 'GNUNullExpr':
            return 'null'
        if k == 'BinaryOperator' or k == 'CompoundAssignOperator':
            return '(%s %s %s)' % (self.fp(n['ch'][0]), n.get('op'), self.fp(n['ch'][1]))
        if k == 'UnaryOperator':
            return '(%s%s%s)' % ('' if n.get('post') else n.get('op'), self.fp(n['ch'][0]), n.get('op') if n.get('post') else '')
        if n.get('callee') is not None and k != 'CXXConstructExpr':
            return '%s(%s)' % (n['callee'], ','.join(self.fp(c) for c in n['ch']))
        if k == 'CXXConstructExpr':
            if len(n['ch']) == 1:
                return self.fp(n['ch'][0])
            return '%s{%s}' % (n.get('ctor'), ','.join(self.fp(c) for c in n['ch']))
        if k == 'ArraySubscriptExpr':
            return '%s[%s]' % (self.fp(n['ch'][0]), self.fp(n['ch'][1]))
        if k == 'ConditionalOperator':
            return '(%s ? %s : %s)' % tuple(self.fp(c) for c in n['ch'])
        if k == 'CXXDefaultArgExpr':
            return 'default'
        return '%s(%s)' % (k, ','.join(self.fp(c) for c in n['ch']))


class Facts:
    """facts of a set of units, functions de-duplicated by (name, sig, loc, targs)"""

    def __init__(self):
        self.functions = []
        self.by_name = {}
        self.records = {}
        self.units = []
        self._seen = set()
        self.lambdas_of = {}

    def load(self, files):
        for f in files:
            unit = None
            with open(f) as fh:
                for line in fh:
                    d = json.loads(line)
                    if 'fn' in d:
                        key = (d['fn'], d['sig'], d['loc'], d.get('targs', ''))
                        if key in self._seen:
                            continue
                        self._seen.add(key)
                        fn = Function(d, f)
                        self.functions.append(fn)
                        self.by_name.setdefault(fn.name, []).append(fn)
                        if d.get('lambda_of'):
                            self.lambdas_of.setdefault(d['lambda_of'], []).append(fn)
                    elif 'record' in d:
                        key = (d['record'], d.get('targs', ''))
                        self.records.setdefault(d['record'], []).append(d) if key not in self._seen else None
                        self._seen.add(key)
                    elif 'unit' in d:
                        unit = d
            if unit is None:
                raise AnalysisBroken('incomplete fact file ' + f)
            self.units.append(unit)
        return self

    def fn(self, name, sig_contains=None, file_contains=None, required=True):
        """all definitions of a qualified name (overloads / instantiations)"""
        r = self.by_name.get(name, [])
        if sig_contains is not None:
            r = [f for f in r if sig_contains in f.sig]
        if file_contains is not None:
            r = [f for f in r if file_contains in f.file]
        if required and not r:
            raise AnalysisBroken('anchor function vanished: %s %s' % (name, sig_contains or ''))
        return r

    def one(self, name, sig_contains=None, file_contains=None):
        r = self.fn(name, sig_contains, file_contains)
        # identical instantiations of a header function: take the first
        return r[0]

    def record(self, name, required=True):
        r = self.records.get(name)
        if not r:
            if required:
                raise AnalysisBroken('anchor record vanished: ' + name)
            return None
        return r[0]

    def subclasses(self, base):
        """transitive subclasses (by qualified name) among loaded records"""
        out = set()
        changed = True
        while changed:
            changed = False
            for name, rs in self.records.items():
                if name in out:
                    continue
                for r in rs:
                    if any(b == base or b in out for b in r['bases']):
                        out.add(name)
                        changed = True
                        break
        return out


def load_units(units):
    files = extract(units)
    return Facts().load(files)


def rel(path):
    return os.path.relpath(path, REPO) if path.startswith(REPO) else path


def src(*p):
    return os.path.join(SRC, 'ompl', *p)
