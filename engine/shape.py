"""E6/E7 helpers: forwarding / delegation shape, argument provenance, loop shape."""
from . import lin


def key(fn, nid):
    n = fn.strip(nid)
    if n is not None and n['k'] == 'DeclRefExpr':
        return '%s#%d' % (n.get('name'), n.get('did'))
    return None


def pkey(fn, i):
    return '%s#%d' % (fn.params[i]['name'], fn.params[i]['did'])


def args(fn, call):
    return call['ch'][1:] if call['k'] == 'CXXMemberCallExpr' else call['ch']


def local_defs(fn):
    """{local key: [init/assigned rhs node ids]} for locals"""
    out = {}
    for n in fn.walk():
        if n['k'] == 'DeclStmt':
            for d in n.get('decls', []):
                out.setdefault('%s#%d' % (d['name'], d['did']), [])
                if d.get('init'):
                    out['%s#%d' % (d['name'], d['did'])].append(d['init'])
        elif n['k'] == 'BinaryOperator' and n.get('op') == '=':
            k = key(fn, n['ch'][0])
            if k:
                out.setdefault(k, []).append(n['ch'][1])
    return out


UNWRAP_CALLS = ('::as', '::get', '::getState', 'operator->', 'operator*')


def origin(fn, nid, defs=None, depth=0):
    """(param key or None, [access path]) an expression is derived from, looking through casts, single-definition
    locals, `->as<T>()`, `->components[i]`, `(*p)[i]`"""
    if defs is None:
        defs = local_defs(fn)
    path = []
    while depth < 12:
        depth += 1
        n = fn.strip(nid)
        if n is None:
            return None, path
        k = n['k']
        if k in ('CStyleCastExpr', 'CXXStaticCastExpr', 'CXXFunctionalCastExpr', 'CXXReinterpretCastExpr',
                 'CXXConstCastExpr', 'CXXDynamicCastExpr') and n['ch']:
            nid = n['ch'][0]
            continue
        if k == 'DeclRefExpr':
            kk = '%s#%d' % (n.get('name'), n.get('did'))
            if n.get('dk') == 'Parm':
                return kk, path
            ds = defs.get(kk, [])
            if len(ds) == 1:
                nid = ds[0]
                continue
            return None, path
        if k == 'MemberExpr':
            path.append('.' + n.get('name'))
            if not n['ch']:
                return None, path
            nid = n['ch'][0]
            continue
        if k == 'ArraySubscriptExpr':
            path.append('[%s]' % fn.fp(n['ch'][1]))
            nid = n['ch'][0]
            continue
        if k == 'CXXOperatorCallExpr' and n.get('oop') == '[]':
            path.append('[%s]' % fn.fp(n['ch'][1]))
            nid = n['ch'][0]
            continue
        if k == 'CXXOperatorCallExpr' and n.get('oop') in ('->', '*'):
            nid = n['ch'][0]
            continue
        if k == 'UnaryOperator' and n.get('op') in ('*', '&'):
            nid = n['ch'][0]
            continue
        if k == 'CXXMemberCallExpr' and any(n.get('callee', '').endswith(u) for u in UNWRAP_CALLS) and n['ch']:
            if len(n['ch']) > 1:
                path.append('as(%s)' % fn.fp(n['ch'][1]))
            nid = n['ch'][0]
            continue
        return None, path
    return None, path


def for_loop(fn, f):
    """(index key, start lin, bound comparison normal form, stride) of a ForStmt; None where not recognised"""
    init = fn.nodes.get(f.get('init') or 0)
    idx = start = None
    if init and init['k'] == 'DeclStmt' and len(init.get('decls', [])) >= 1:
        d = init['decls'][0]
        idx = '%s#%d' % (d['name'], d['did'])
        start = lin.lin(fn, d['init']) if d.get('init') else None
    elif init and init['k'] == 'BinaryOperator' and init.get('op') == '=':
        idx = key(fn, init['ch'][0])
        start = lin.lin(fn, init['ch'][1])
    cond = lin.cmp_le0(fn, f['cond']) if f.get('cond') else None
    inc = fn.strip(f['inc']) if f.get('inc') else None
    stride = None
    if inc is not None and inc['k'] == 'UnaryOperator' and inc.get('op') in ('++', '--') and key(fn, inc['ch'][0]) == idx:
        stride = 1 if inc['op'] == '++' else -1
    elif inc is not None and inc['k'] == 'CompoundAssignOperator' and inc.get('op') in ('+=', '-=') and \
            key(fn, inc['ch'][0]) == idx:
        s = lin.lin(fn, inc['ch'][1])
        if s is not None and set(s) <= {1}:
            stride = s.get(1, 0) * (1 if inc['op'] == '+=' else -1)
    return idx, start, cond, stride


COUNT_ATOMS = ('this.componentCount_', 'std::vector::size(this.components_)', 'ompl::base::CompoundStateSpace::getSubspaceCount(this)')


def full_component_loop(fn, f, count_atoms=COUNT_ATOMS):
    """does ForStmt f run i = 0 .. count-1 with unit stride? returns (index key or None, why)"""
    idx, start, cond, stride = for_loop(fn, f)
    if idx is None:
        return None, 'loop index not recognised'
    if start != {1: 0}:
        return None, 'loop starts at %s, not 0' % lin.show(start)
    if stride != 1:
        return None, 'stride is not +1'
    if cond is None or cond[0] != 'le0':
        return None, 'loop bound not recognised'
    d = dict(cond[1])
    # i - N + 1 <= 0
    if d.get(idx) != 1 or d.get('1', 0) != 1:
        return None, 'loop bound is %s <= 0, not i < count' % lin.show(cond[1])
    rest = {k: v for k, v in d.items() if k not in (idx, '1')}
    if len(rest) != 1 or list(rest.values())[0] != -1:
        return None, 'loop bound is %s <= 0, not i < count' % lin.show(cond[1])
    atom = list(rest.keys())[0]
    if count_atoms is not None and atom not in count_atoms:
        return None, 'loop bound %s is not the component count' % atom
    # index not written in the body
    for n in fn.walk(f['body']):
        if n['k'] in ('BinaryOperator', 'CompoundAssignOperator', 'UnaryOperator') and \
                n.get('op') in ('=', '+=', '-=', '++', '--', '*=') and key(fn, n['ch'][0]) == idx:
            return None, 'loop index modified in the body'
    return idx, 'i = 0 .. %s-1' % atom


def component_call(fn, call, idx, method, state_params, defs=None):
    """call is components_[idx]->method(...): every State parameter of fn (by key, in order) is passed as
    <param>->components[idx] at the same position among the state arguments.  returns None if fine, else why"""
    obj = fn.strip(call['ch'][0])
    # object: components_[i] (vector<shared_ptr>) -> operator-> ; strip operator-> / get()
    cur = obj
    guard = 0
    while cur is not None and guard < 6 and not (cur.get('oop') == '[]' or cur['k'] == 'ArraySubscriptExpr'):
        guard += 1
        if cur['k'] in ('CXXOperatorCallExpr', 'CXXMemberCallExpr') and cur['ch']:
            cur = fn.strip(cur['ch'][0])
        elif cur['k'] == 'UnaryOperator' and cur['ch']:
            cur = fn.strip(cur['ch'][0])
        else:
            break
    if cur is None or not (cur.get('oop') == '[]' or cur['k'] == 'ArraySubscriptExpr'):
        return 'callee object is not components_[i]'
    base = fn.fp(cur['ch'][0])
    if 'components_' not in base:
        return 'callee object is %s, not components_[i]' % base
    if lin.lin(fn, cur['ch'][1]) != {idx: 1}:
        return 'component index of the callee is %s, not the loop index' % fn.fp(cur['ch'][1])
    a = args(fn, call)
    pos = 0
    for ai in a:
        n = fn.strip(ai)
        ty = (fn.nodes[ai].get('ty') or '')
        if 'State' not in ty or '*' not in ty:
            continue
        if pos >= len(state_params):
            return 'more state arguments than state parameters'
        p, path = origin(fn, ai, defs)
        want = state_params[pos]
        if p != want:
            return 'state argument %d derives from %s, expected parameter %s' % (pos, p, want)
        idxs = [x for x in path if x.startswith('[')]
        if not idxs or idxs[0] != '[%s]' % idx:
            return 'state argument %d is not component [i] of %s (access path %s)' % (pos, want, ''.join(path))
        pos += 1
    if pos != len(state_params):
        return 'only %d of %d state parameters forwarded' % (pos, len(state_params))
    return None


def state_params(fn):
    return [pkey(fn, i) for i, p in enumerate(fn.params) if 'State' in p['ty'] and '*' in p['ty'] and
            'vector' not in p['ty']]


def component_loop(fn, method, count_atoms=COUNT_ATOMS):
    """generic check: one loop over all components calling components_[i]->method with per-component states"""
    fors = [n for n in fn.walk() if n['k'] == 'ForStmt']
    if not fors:
        return False, 'no loop over the components'
    why = ''
    for f in fors:
        idx, why = full_component_loop(fn, f, count_atoms)
        if idx is None:
            continue
        calls = [c for c in fn.walk(f['body']) if c.get('callee', '').endswith('::' + method) and c['k'] == 'CXXMemberCallExpr']
        if not calls:
            why = 'loop body does not call %s on a component' % method
            continue
        for c in calls:
            w = component_call(fn, c, idx, method, state_params(fn))
            if w:
                return False, w
        return True, 'loop %s calls components_[i]->%s with component i of every state parameter' % (why, method)
    return False, why


# ---------------------------------------------------------------------------------------------------------------------
# erase-while-iterating discipline

def erase_loops(fn):
    """loops of fn whose body re-assigns a loop iterator from container.erase(iterator):
    yields (loop node, iterator key, erase-assignment node)"""
    for lp in fn.walk():
        if lp['k'] not in ('WhileStmt', 'ForStmt', 'DoStmt') or not lp.get('body'):
            continue
        for x in fn.walk(lp['body']):
            if (x['k'] == 'CXXOperatorCallExpr' and x.get('oop') == '=') or (x['k'] == 'BinaryOperator' and x.get('op') == '='):
                lhs = key(fn, x['ch'][0])
                if lhs is None:
                    continue
                rhs = fn.strip(x['ch'][1])
                if rhs is not None and (rhs.get('callee') or '').endswith('::erase') and rhs['k'] == 'CXXMemberCallExpr':
                    a = args(fn, rhs)
                    if a and any(y['k'] == 'DeclRefExpr' and '%s#%d' % (y.get('name'), y.get('did')) == lhs for y in fn.walk(a[0])):
                        # innermost loop only
                        inner = [z for z in fn.ancestors(x['id']) if z['k'] in ('WhileStmt', 'ForStmt', 'DoStmt')]
                        if inner and inner[0]['id'] == lp['id']:
                            yield lp, lhs, x


def advance_counts(fn, sid, itkey):
    """set of (number of times the iterator is advanced, how the path ends) over the AST paths through statement sid;
    an advance is ++it / it++ / it = c.erase(it) / std::advance / it = std::next(it); ends: 'fall', 'continue', 'break', 'return'"""
    n = fn.nodes.get(sid)
    if n is None:
        return {(0, 'fall')}
    k = n['k']
    if k == 'CompoundStmt':
        cur = {(0, 'fall')}
        for c in n['ch']:
            nxt = set()
            for (cnt, end) in cur:
                if end != 'fall':
                    nxt.add((cnt, end))
                    continue
                for (c2, e2) in advance_counts(fn, c, itkey):
                    nxt.add((min(cnt + c2, 3), e2))
            cur = nxt
        return cur
    if k == 'IfStmt':
        out = set(advance_counts(fn, n['then'], itkey))
        out |= advance_counts(fn, n['else'], itkey) if n.get('else') else {(0, 'fall')}
        return out
    if k == 'ContinueStmt':
        return {(0, 'continue')}
    if k == 'BreakStmt':
        return {(0, 'break')}
    if k == 'ReturnStmt':
        return {(0, 'return')}
    if k in ('WhileStmt', 'ForStmt', 'DoStmt', 'CXXForRangeStmt', 'SwitchStmt'):
        # a nested loop that touches the iterator is outside the fragment
        if any(x['k'] == 'DeclRefExpr' and '%s#%d' % (x.get('name'), x.get('did')) == itkey for x in fn.walk(sid)
               if any(p.get('op') in ('++', '--', '=') or p.get('oop') in ('++', '--', '=') for p in fn.ancestors(x['id']) if p['id'] != sid)):
            return {(3, 'fall')}
        return {(0, 'fall')}
    cnt = 0
    for x in fn.walk(sid):
        if x['k'] == 'UnaryOperator' and x.get('op') == '++' and key(fn, x['ch'][0]) == itkey:
            cnt += 1
        elif x['k'] == 'CXXOperatorCallExpr' and x.get('oop') == '++' and x['ch'] and key(fn, x['ch'][0]) == itkey:
            cnt += 1
        elif ((x['k'] == 'CXXOperatorCallExpr' and x.get('oop') == '=') or (x['k'] == 'BinaryOperator' and x.get('op') == '=')) and \
                x['ch'] and key(fn, x['ch'][0]) == itkey:
            rhs = fn.strip(x['ch'][1])
            if rhs is not None and ((rhs.get('callee') or '').endswith('::erase') or (rhs.get('callee') or '') in ('std::next',)):
                cnt += 1
            else:
                cnt = 3          # re-assigned from something else: not decidable here
        elif (x.get('callee') or '') == 'std::advance' and x['ch'] and key(fn, x['ch'][0]) == itkey:
            cnt += 1
    return {(min(cnt, 3), 'fall')}


def erase_loop_verdict(fn, lp, itkey):
    """None if on every path through one iteration that stays in the loop the iterator advances exactly once (counting a
    for-loop's own increment); else a description"""
    body = advance_counts(fn, lp['body'], itkey)
    inc = 0
    if lp['k'] == 'ForStmt' and lp.get('inc'):
        inc = max((c for (c, e) in advance_counts(fn, lp['inc'], itkey)), default=0)
    for (cnt, end) in sorted(body):
        if end in ('break', 'return'):
            continue
        total = cnt + inc
        if cnt >= 3:
            return 'the iterator is re-assigned in a way this rule does not follow'
        if total == 0:
            return 'a path through the loop body does not advance the iterator at all'
        if total >= 2:
            return ('a path through the loop body advances the iterator %d times (e.g. it = c.erase(it), which already yields the next '
                    'element, followed by the loop\'s own ++it): the element after an erased one is skipped' % total)
    return None
