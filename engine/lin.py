"""E4: linear normal form of integer index / bound expressions and comparisons.

lin(fn, nid) -> {atom: coef, 1: const}  (atom = decl-resolved fingerprint of a variable or of an opaque
sub-expression); None when the expression is not normalisable.
cmp_le0(fn, nid) -> normal form L of an integer comparison rewritten as "L <= 0" (tuple-sorted dict),
so `a < mid`, `a <= mid - 1` and `mid > a` are the same object.
"""

import re

SKIP = ('ParenExpr', 'ImplicitCastExpr', 'ExprWithCleanups', 'MaterializeTemporaryExpr', 'CXXBindTemporaryExpr',
        'ConstantExpr', 'FullExpr', 'CStyleCastExpr', 'CXXStaticCastExpr', 'CXXFunctionalCastExpr')
INT_CASTS = ('IntegralCast', 'LValueToRValue', 'NoOp', 'IntegralToFloating', 'FloatingCast', 'FloatingToIntegral')


def _add(a, b, s=1):
    out = dict(a)
    for k, v in b.items():
        out[k] = out.get(k, 0) + s * v
        if out[k] == 0 and k != 1:
            del out[k]
    return out


def _scale(a, c):
    return {k: v * c for k, v in a.items() if v * c != 0 or k == 1}


def lin(fn, nid, env=None):
    """env: optional {varkey: lin-dict} substitution for locals with a single known definition"""
    n = fn.nodes.get(nid)
    if n is None:
        return None
    k = n['k']
    if k in SKIP and n['ch']:
        if k == 'ImplicitCastExpr' and n.get('ck') not in INT_CASTS:
            return {fn.fp(nid): 1}
        return lin(fn, n['ch'][0], env)
    if k == 'IntegerLiteral':
        return {1: int(n['v'])}
    if k == 'FloatingLiteral':
        try:
            f = float(n['v'])
            if f == int(f):
                return {1: int(f)}
        except Exception:
            pass
        return {fn.fp(nid): 1}
    if k == 'UnaryOperator':
        op = n.get('op')
        if op == '-':
            a = lin(fn, n['ch'][0], env)
            return None if a is None else _scale(a, -1)
        if op == '+':
            return lin(fn, n['ch'][0], env)
        if op in ('++', '--'):
            a = lin(fn, n['ch'][0], env)
            if a is None:
                return None
            if n.get('post'):
                return a
            return _add(a, {1: 1 if op == '++' else -1})
        return {fn.fp(nid): 1}
    if k == 'BinaryOperator':
        op = n.get('op')
        if op in ('+', '-'):
            a, b = lin(fn, n['ch'][0], env), lin(fn, n['ch'][1], env)
            if a is None or b is None:
                return None
            return _add(a, b, 1 if op == '+' else -1)
        if op == '*':
            a, b = lin(fn, n['ch'][0], env), lin(fn, n['ch'][1], env)
            if a is None or b is None:
                return None
            if set(a.keys()) <= {1}:
                return _scale(b, a.get(1, 0))
            if set(b.keys()) <= {1}:
                return _scale(a, b.get(1, 0))
            return {fn.fp(nid): 1}
        if op == '/':
            a, b = lin(fn, n['ch'][0], env), lin(fn, n['ch'][1], env)
            if a is None or b is None:
                return None
            if set(b.keys()) <= {1} and b.get(1, 0) != 0:
                return {('div', canon(a), b[1]): 1}
            return {('div', canon(a), canon(b)): 1}
        if op == '<<':
            b = lin(fn, n['ch'][1], env)
            a = lin(fn, n['ch'][0], env)
            if a is not None and b is not None and set(b.keys()) <= {1}:
                return _scale(a, 2 ** b.get(1, 0))
        if op == '>>':
            b = lin(fn, n['ch'][1], env)
            a = lin(fn, n['ch'][0], env)
            if a is not None and b is not None and set(b.keys()) <= {1}:
                return {('div', canon(a), 2 ** b.get(1, 0)): 1}
        return {fn.fp(nid): 1}
    if k == 'CXXOperatorCallExpr' and n.get('oop') in ('+', '-') and len(n['ch']) == 2:
        # iterator arithmetic: begin() + k
        a, b = lin(fn, n['ch'][0], env), lin(fn, n['ch'][1], env)
        if a is None or b is None:
            return None
        return _add(a, b, 1 if n['oop'] == '+' else -1)
    if k in ('DeclRefExpr', 'MemberExpr'):
        key = fn.fp(nid)
        if env and key in env and env[key] is not None:
            return dict(env[key])
        if n.get('dk') == 'Enum' and n.get('v') is not None:
            return {1: int(n['v'])}
        return {key: 1}
    if n.get('cv') is not None and not n['ch']:
        return {1: int(n['cv'])}
    return {fn.fp(nid): 1}


def local_env(fn):
    """substitution for locals that have exactly one definition (their initialiser) and are never written again:
    {key: lin(init)} -- so that `const unsigned n = size(); ... n/2 - 1` and `size()/2 - 1` normalise alike"""
    defs = {}
    writes = {}
    for n in fn.walk():
        if n['k'] == 'DeclStmt':
            for d in n.get('decls', []):
                k = '%s#%d' % (d['name'], d['did'])
                if d.get('init') and not d.get('static'):
                    defs[k] = (d['init'], d.get('ty') or '')
        elif n['k'] in ('BinaryOperator', 'CompoundAssignOperator') and n.get('op') in ('=', '+=', '-=', '*=', '/=', '<<=', '>>=', '|=', '&=', '%='):
            t = fn.strip(n['ch'][0])
            if t is not None and t['k'] == 'DeclRefExpr':
                k = '%s#%d' % (t.get('name'), t.get('did'))
                writes[k] = writes.get(k, 0) + 1
        elif n['k'] == 'UnaryOperator' and n.get('op') in ('++', '--', '&'):
            t = fn.strip(n['ch'][0])
            if t is not None and t['k'] == 'DeclRefExpr':
                k = '%s#%d' % (t.get('name'), t.get('did'))
                writes[k] = writes.get(k, 0) + 1
    env = {}
    for k, (init, ty) in defs.items():
        if writes.get(k):
            continue
        t = ty.replace('const ', '').strip()
        if t not in ('int', 'unsigned int', 'unsigned', 'long', 'unsigned long', 'std::size_t', 'size_t', 'std::vector::size_type'):
            continue
        # the initialiser must itself be free of loop-carried state: only allow it when it mentions no written local
        ment = set()
        for x in fn.walk(init):
            if x['k'] == 'DeclRefExpr' and x.get('dk') in ('Local',):
                ment.add('%s#%d' % (x.get('name'), x.get('did')))
        if any(writes.get(m) for m in ment):
            continue
        env[k] = init
    out = {}
    for k, init in env.items():
        out[k] = lin(fn, init, None)
    # one more round so chains n -> m -> size() resolve
    for k, init in env.items():
        out[k] = lin(fn, init, {kk: vv for kk, vv in out.items() if kk != k})
    return out


def canon(d):
    if d is None:
        return None
    items = [(str(k), v) for k, v in d.items() if not (k == 1 and v == 0)]
    return tuple(sorted(items))


def show(d):
    if d is None:
        return '<?>'
    if isinstance(d, tuple):
        d = dict(d)
    parts = []
    for k, v in sorted(d.items(), key=lambda kv: str(kv[0])):
        if k in (1, '1'):
            if v:
                parts.append('%+d' % v)
        else:
            parts.append('%+d*%s' % (v, re.sub(r'#\d+', '', str(k))))
    return ' '.join(parts) or '0'


def cmp_le0(fn, nid, env=None):
    """integer comparison -> ('le0', canon(L)) meaning L <= 0 ; ('eq0', L) / ('ne0', L) for ==, != ; None"""
    n = fn.nodes.get(nid)
    while n is not None and n['k'] in SKIP and n['ch']:
        nid = n['ch'][0]
        n = fn.nodes.get(nid)
    if n is None or n['k'] != 'BinaryOperator':
        return None
    op = n.get('op')
    if op not in ('<', '<=', '>', '>=', '==', '!='):
        return None
    a, b = lin(fn, n['ch'][0], env), lin(fn, n['ch'][1], env)
    if a is None or b is None:
        return None
    if op == '<':
        return ('le0', canon(_add(_add(a, b, -1), {1: 1})))
    if op == '<=':
        return ('le0', canon(_add(a, b, -1)))
    if op == '>':
        return ('le0', canon(_add(_add(b, a, -1), {1: 1})))
    if op == '>=':
        return ('le0', canon(_add(b, a, -1)))
    d = _add(a, b, -1)
    # sign-normalise equalities
    items = sorted((str(k), v) for k, v in d.items() if v)
    if items and items[0][1] < 0:
        d = _scale(d, -1)
    return ('eq0' if op == '==' else 'ne0', canon(d))


def is_float_div(fn, nid):
    """the '/' node divides in floating type (both operands converted before the division)"""
    n = fn.nodes.get(nid)
    while n is not None and n['k'] in SKIP and n['ch'] and not (n['k'] != 'ParenExpr' and False):
        if n['k'] in ('CStyleCastExpr', 'CXXStaticCastExpr', 'CXXFunctionalCastExpr', 'ImplicitCastExpr') and \
                n.get('ck') in ('IntegralToFloating',):
            # a cast applied to the *result* of an integer division
            inner = fn.strip(n['ch'][0])
            if inner is not None and inner['k'] == 'BinaryOperator' and inner.get('op') == '/':
                return ('double' in inner.get('ty', '') or 'float' in inner.get('ty', ''))
        nid = n['ch'][0]
        n = fn.nodes.get(nid)
    if n is None or n['k'] != 'BinaryOperator' or n.get('op') != '/':
        return None
    return 'double' in n.get('ty', '') or 'float' in n.get('ty', '')


def cmp_real(fn, nid, env=None):
    """comparison over reals -> ('lt', canon(a-b)) for a<b / b>a ; ('le', ..) ; ('eq'|'ne', sign-normalised); None"""
    n = fn.nodes.get(nid)
    while n is not None and n['k'] in SKIP and n['ch']:
        nid = n['ch'][0]
        n = fn.nodes.get(nid)
    if n is None:
        return None
    op = None
    if n['k'] == 'BinaryOperator':
        op = n.get('op')
    elif n['k'] == 'CXXOperatorCallExpr':
        op = n.get('oop')
    if op not in ('<', '<=', '>', '>=', '==', '!=') or len(n['ch']) != 2:
        return None
    a, b = lin(fn, n['ch'][0], env), lin(fn, n['ch'][1], env)
    if a is None or b is None:
        return None
    if op in ('>', '>='):
        a, b = b, a
        op = '<' if op == '>' else '<='
    d = _add(a, b, -1)
    if op in ('==', '!='):
        items = sorted((str(k), v) for k, v in d.items() if v)
        if items and items[0][1] < 0:
            d = _scale(d, -1)
        return ('eq' if op == '==' else 'ne', canon(d))
    return ('lt' if op == '<' else 'le', canon(d))
