"""debug helper: python3 -m engine.dump <unit.cpp> <qualified-name-substring> [--cfg]"""
import sys
from . import facts


def show(fn, cfg=False, out=sys.stdout):
    out.write('== %s %s  [%s] %s\n' % (fn.name, fn.sig, fn.loc, fn.targs))

    def rec(i, ind):
        n = fn.nodes.get(i)
        if n is None:
            return
        extra = []
        for k in ('op', 'callee', 'name', 'v', 'cv', 'ck', 'ctor', 'lambda', 'oop', 'dk', 'virt'):
            if n.get(k) is not None:
                extra.append('%s=%s' % (k, n[k]))
        out.write('%s%d %s %s  <%s> @%s\n' % ('  ' * ind, i, n['k'], ' '.join(extra), n.get('ty', ''), n.get('loc')))
        for c in n['ch']:
            rec(c, ind + 1)

    for x in fn.d.get('inits', []):
        out.write('init %s\n' % x)
        rec(x['init'], 1)
    rec(fn.body, 0)
    if cfg:
        for b in fn.d['cfg']:
            out.write('B%d%s%s el=%s term=%s cond=%s succ=%s\n' % (
                b['id'], ' ENTRY' if b.get('entry') else '', ' EXIT' if b.get('exit') else '', b['el'],
                b.get('termk'), b.get('cond'), b['succ']))


if __name__ == '__main__':
    unit = sys.argv[1]
    pat = sys.argv[2]
    F = facts.load_units([unit])
    for fn in F.functions:
        if pat in fn.name:
            show(fn, '--cfg' in sys.argv)
