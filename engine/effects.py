"""E9 + E15: call graph over resolved callees (CHA for virtual calls) and effect / lock-set analysis."""
import re
from . import paths
from .facts import AnalysisBroken

LOCK_TYPES = ('lock_guard', 'unique_lock', 'scoped_lock')
SYNC_TYPES = ('std::atomic', 'std::mutex', 'std::recursive_mutex', 'std::once_flag', 'std::condition_variable',
              'atomic<', 'std::shared_mutex', 'std::timed_mutex')


def is_sync_type(ty):
    return any(s in (ty or '') for s in SYNC_TYPES)


class CallGraph:
    def __init__(self, F):
        self.F = F
        self.overriders = {}  # base method name -> set(function names) (transitive)
        direct = {}
        for f in F.functions:
            for o in f.d.get('overrides') or []:
                direct.setdefault(o, set()).add(f.name)
        # transitive closure
        for base in list(direct):
            seen = set()
            work = [base]
            while work:
                b = work.pop()
                for o in direct.get(b, ()):
                    if o not in seen:
                        seen.add(o)
                        work.append(o)
            self.overriders[base] = seen

    def targets(self, fn, call):
        """Function objects a call node may reach (in the loaded facts)"""
        name = call.get('callee')
        if name is None:
            return []
        names = {name}
        if call.get('virt'):
            names |= self.overriders.get(name, set())
        out = []
        for nm in names:
            cands = self.F.by_name.get(nm, [])
            if nm == name and len(cands) > 1 and call.get('csig'):
                exact = [c for c in cands if c.sig == call['csig']]
                if exact:
                    cands = exact
            out.extend(cands)
        return out

    def lambdas_in(self, fn):
        """lambda call operators created inside fn"""
        out = []
        for n in fn.walk():
            if n['k'] == 'LambdaExpr':
                for l in self.F.by_name.get(n['lambda'], []):
                    if l.d.get('lambda_of') == fn.name and l.loc == n.get('lloc'):
                        out.append(l)
        return out

    # ---- receiver-class refinement of CHA -----------------------------------------------------------------------
    @staticmethod
    def class_of_type(ty):
        """record name (no template arguments) named by a type string, or None"""
        if not ty:
            return None
        t = ty
        # strip template argument lists
        out = []
        depth = 0
        for ch in t:
            if ch == '<':
                depth += 1
            elif ch == '>':
                depth -= 1
            elif depth == 0:
                out.append(ch)
        t = ''.join(out)
        t = re.sub(r'\b(const|volatile|struct|class)\b', '', t).replace('*', '').replace('&', '').strip()
        return t or None

    def _hier(self):
        if not hasattr(self, '_anc'):
            self._anc = {}
            bases = {n: set(b for r in rs for b in r['bases']) for n, rs in self.F.records.items()}
            for n in bases:
                seen = set()
                work = list(bases[n])
                while work:
                    b = work.pop()
                    if b not in seen:
                        seen.add(b)
                        work.extend(bases.get(b, ()))
                self._anc[n] = seen
        return self._anc

    def related(self, a, b):
        """a and b are the same class or one is an ancestor of the other (unknown classes are related to everything)"""
        if a is None or b is None or a == b:
            return True
        anc = self._hier()
        if a not in anc or b not in anc:
            return True
        return a in anc[b] or b in anc[a]

    def reach(self, roots, stop=None, follow_lambdas=True, maxn=40000):
        """BFS over (function, receiver class); returns {Function: (parent Function, call node)}.  A virtual call on
        `this` made while the receiver's class is known to be K only reaches overriders in K's own hierarchy line."""
        seen = {}
        seenctx = set()
        work = []
        for r in roots:
            if r not in seen:
                seen[r] = None
            work.append((r, r.record))
            seenctx.add((r, r.record))
        while work:
            f, K = work.pop(0)
            if len(seenctx) > maxn:
                raise AnalysisBroken('call graph explosion')
            nxt = []
            for c in f.walk():
                if c.get('callee') is None:
                    continue
                if stop and stop(f, c):
                    continue
                on_this = False
                recv = None
                if c['k'] == 'CXXMemberCallExpr' and c['ch']:
                    o = f.strip(c['ch'][0])
                    if o is not None and o['k'] == 'CXXThisExpr':
                        on_this = True
                    else:
                        recv = self.class_of_type((f.nodes.get(c['ch'][0]) or {}).get('ty'))
                for t in self.targets(f, c):
                    if t.record is None:
                        nxt.append((t, None, c))
                        continue
                    if on_this:
                        if not self.related(K, t.record):
                            continue
                        k2 = K if (K and K in self._hier() and t.record in self._hier().get(K, ())) else t.record
                        nxt.append((t, k2, c))
                    else:
                        k2 = recv if recv in self.F.records else t.record
                        if c.get('virt') and not self.related(k2, t.record):
                            continue
                        # most specific of the static receiver type and the target's class
                        if k2 in self._hier() and t.record in self._hier() and k2 in self._hier()[t.record]:
                            k2 = t.record
                        nxt.append((t, k2, c))
            if follow_lambdas:
                for l in self.lambdas_in(f):
                    nxt.append((l, K, None))
            for t, k2, c in nxt:
                if t not in seen:
                    seen[t] = (f, c)
                if (t, k2) not in seenctx:
                    seenctx.add((t, k2))
                    work.append((t, k2))
        return seen

    def chain(self, seen, f):
        out = []
        cur = f
        guard = 0
        while cur is not None and guard < 200:
            guard += 1
            out.append(cur.name)
            p = seen.get(cur)
            cur = p[0] if p else None
        return list(reversed(out))


def written_lvalue(fn, n):
    """if node n writes through an l-value expression return that expression's node id"""
    k = n['k']
    if k == 'BinaryOperator' and n.get('op') == '=':
        return n['ch'][0]
    if k == 'CompoundAssignOperator':
        return n['ch'][0]
    if k == 'UnaryOperator' and n.get('op') in ('++', '--'):
        return n['ch'][0]
    return None


def base_object(fn, nid):
    """walk an l-value down to its root: returns (root node, [MemberExpr nodes on the way])"""
    mems = []
    guard = 0
    while guard < 30:
        guard += 1
        n = fn.strip(nid)
        if n is None:
            return None, mems
        k = n['k']
        if k == 'MemberExpr':
            mems.append(n)
            if not n['ch']:
                return n, mems
            nid = n['ch'][0]
            continue
        if k == 'ArraySubscriptExpr' or n.get('oop') == '[]':
            nid = n['ch'][0]
            continue
        if k == 'UnaryOperator' and n.get('op') in ('*', '&'):
            nid = n['ch'][0]
            continue
        if k in ('CXXOperatorCallExpr',) and n.get('oop') in ('->', '*'):
            nid = n['ch'][0]
            continue
        if k in ('CXXConstCastExpr', 'CXXStaticCastExpr', 'CStyleCastExpr', 'CXXReinterpretCastExpr') and n['ch']:
            nid = n['ch'][0]
            continue
        return n, mems
    return None, mems


def plain_writes(fn):
    """yield (node, kind, description) for writes that are visible to other threads without synchronisation *by type*:
    kind 'mutable'  : store to a non-atomic mutable field
         'static'   : store to a namespace-scope / static-member / function-static object of non-sync type
         'constcast': store or non-const call through a const_cast in a const method"""
    # local non-const references bound to (part of) another object: a write through the reference is a write to that object
    refs = {}
    for n in fn.walk():
        if n['k'] == 'DeclStmt':
            for d in n.get('decls', []):
                ty = (d.get('ty') or '').strip()
                if ty.endswith('&') and not ty.endswith('&&') and d.get('init') and not ty.startswith('const '):
                    refs[d['did']] = d['init']
    for n in fn.walk():
        lv = written_lvalue(fn, n)
        target = None
        if lv is not None:
            target = lv
        elif n['k'] == 'CXXMemberCallExpr' and not n.get('cconst') and not n.get('cstatic') and n['ch']:
            # non-const member call on an object: a write to that object
            target = n['ch'][0]
            tn = fn.strip(target)
            if tn is None:
                continue
            cal = n.get('callee', '')
            # smart-pointer / iterator plumbing does not write the pointee's owner
            if re.search(r'::(get|operator->|operator\*|begin|end|c_str|data|find|at|front|back|lock|unlock|try_lock)$', cal):
                continue
        elif n['k'] == 'CXXOperatorCallExpr' and n.get('oop') in ('=', '+=', '-=', '++', '--', '|=', '&=', '<<=', '>>=') and n['ch']:
            target = n['ch'][0]
        if target is None:
            continue
        root, mems = base_object(fn, target)
        guard_ = 0
        while root is not None and root['k'] == 'DeclRefExpr' and root.get('dk') == 'Local' and root.get('did') in refs and guard_ < 3:
            guard_ += 1
            root, m2 = base_object(fn, refs[root['did']])
            mems = mems + m2
        if root is None:
            continue
        tnode = fn.strip(target)
        # type-level synchronisation of the written object itself
        tys = [m.get('ty', '') for m in mems] + [tnode.get('ty', '') if tnode else '']
        if any(is_sync_type(t) for t in tys):
            continue
        for m in mems:
            if m.get('mutable'):
                yield n, 'mutable', m.get('q') or m.get('name')
                break
        if root['k'] == 'DeclRefExpr' and root.get('dk') in ('Global', 'StaticLocal', 'StaticMember'):
            # the standard iostream objects are data-race free by the library's own guarantee
            if not root.get('cq') and (root.get('q') or '') not in ('std::cout', 'std::cerr', 'std::clog', 'std::cin'):
                yield n, 'static', root.get('q') or root.get('name')
        # const_cast anywhere on the access path
        cur = target
        guard = 0
        while cur and guard < 30:
            guard += 1
            x = fn.nodes.get(cur)
            if x is None:
                break
            if x['k'] == 'CXXConstCastExpr':
                yield n, 'constcast', fn.fp(target)
                break
            if not x['ch']:
                break
            cur = x['ch'][0]


class Lockset(paths.Client):
    """auto = (frozenset(held mutex fingerprints), frozenset((guard var did, mutex fp)))
    interest(fn, node) -> key or None; held[key] = intersection of lock sets over all path states reaching the node"""

    track = 'none'

    def __init__(self, interest=None):
        self.interest = interest
        self.held = {}
        self.nodes = {}
        self.exit_sets = []
        self.double_lock = []
        self.bad_unlock = []

    def init(self, fn):
        return (frozenset(), frozenset())

    @staticmethod
    def mutex_fp(fn, nid):
        return re.sub(r'#\d+', '', fn.fp(nid))

    def on_node(self, fn, node, auto, ctx):
        held, guards = auto
        k = node['k']
        if k == 'DeclStmt':
            for d in node.get('decls', []):
                if any(t in (d.get('ty') or '') for t in LOCK_TYPES) and d.get('init'):
                    ini = fn.strip(d['init'])
                    mfp = None
                    if ini is not None and ini['ch']:
                        mfp = self.mutex_fp(fn, ini['ch'][0])
                        # std::defer_lock second argument: not locked yet
                        if len(ini['ch']) > 1 and 'defer_lock' in fn.fp(ini['ch'][1]):
                            guards = guards | {(d['did'], mfp)}
                            continue
                    if mfp:
                        held = held | {mfp}
                        guards = guards | {(d['did'], mfp)}
        elif k == 'ImplicitDtor':
            for (did, mfp) in guards:
                if did == node.get('dtor'):
                    held = held - {mfp}
                    guards = guards - {(did, mfp)}
        elif k == 'CXXMemberCallExpr' and node.get('callee', '').split('::')[-1] in ('lock', 'unlock', 'try_lock') and node['ch']:
            o = fn.strip(node['ch'][0])
            what = node['callee'].split('::')[-1]
            if o is not None and ('mutex' in (o.get('ty') or '') or any(t in (o.get('ty') or '') for t in LOCK_TYPES)):
                mfp = None
                if any(t in (o.get('ty') or '') for t in LOCK_TYPES) and o['k'] == 'DeclRefExpr':
                    for (did, m) in guards:
                        if did == o.get('did'):
                            mfp = m
                else:
                    mfp = self.mutex_fp(fn, node['ch'][0])
                if mfp and what == 'try_lock':
                    pass  # acquired on the true edge only: see on_edge
                elif mfp:
                    if what == 'lock':
                        if mfp in held:
                            self.double_lock.append((node['id'], mfp, ctx.path()))
                        held = held | {mfp}
                    elif what == 'unlock':
                        if mfp not in held:
                            self.bad_unlock.append((node['id'], mfp, ctx.path()))
                        held = held - {mfp}
        if self.interest is not None:
            key = self.interest(fn, node)
            if key is not None:
                cur = self.held.get(key)
                self.held[key] = held if cur is None else (cur & held)
                self.nodes[key] = node['id']
        return (held, guards)

    def on_edge(self, fn, block, idx, auto, ctx):
        cond = block.get('cond')
        if cond is None or len(block['succ']) != 2:
            return auto
        n = fn.strip(cond)
        pol = True
        while n is not None and n['k'] == 'UnaryOperator' and n.get('op') == '!':
            pol = not pol
            n = fn.strip(n['ch'][0])
        if n is not None and n['k'] == 'CXXMemberCallExpr' and n.get('callee', '').endswith('::try_lock') and n['ch']:
            if (idx == 0) == pol:
                return (auto[0] | {self.mutex_fp(fn, n['ch'][0])}, auto[1])
        return auto

    def at_exit(self, fn, ret, auto, ctx):
        self.exit_sets.append((auto[0], ctx.path()))
