"""E14: type-level witnesses -- tiny TUs that include the repository's current headers and static_assert a
semantic type trait; compiled with -fsyntax-only (nothing is run)."""
import os
import subprocess
import tempfile
from . import facts


def check(includes, asserts):
    """asserts: list of (label, boolean-constant-expression). returns {label: True/False}; raises if the TU itself
    does not parse"""
    os.makedirs(facts.WORK, exist_ok=True)
    res = {}
    for label, expr in asserts:
        code = ''.join('#include %s\n' % i for i in includes)
        code += 'static_assert(%s, "witness");\n' % expr
        with tempfile.NamedTemporaryFile('w', suffix='.cpp', dir=facts.WORK, delete=False) as fh:
            fh.write(code)
            path = fh.name
        try:
            fl = [f for f in facts.flags() if not f.startswith('-resource-dir') and f != '/usr/lib/llvm-14/lib/clang/14.0.6']
            r = subprocess.run(['clang++', '-fsyntax-only', '-ferror-limit=0'] + fl + [path], capture_output=True, text=True)
            if r.returncode == 0:
                res[label] = True
            elif 'static_assert failed' in r.stderr or 'static assertion failed' in r.stderr:
                others = [l for l in r.stderr.splitlines() if 'error:' in l and 'static_assert' not in l and 'static assertion' not in l]
                if others:
                    raise facts.AnalysisBroken('witness TU does not parse: ' + others[0])
                res[label] = False
            else:
                raise facts.AnalysisBroken('witness TU does not parse: ' + r.stderr[-800:])
        finally:
            os.remove(path)
    return res
