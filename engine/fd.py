"""E5: finite-domain abstract evaluation of a side-effect-free decision tree.

The rule supplies the *domain* (an explicit finite set of abstract input points: booleans, and ranks standing for
the orderings x<y / x=y / x>y of opaque values) and the meaning of the atoms (field reads, calls).  The evaluator
walks the function's AST (if / ?: / && / || / ! / comparisons / returns / assignments to locals and, through the
store hook, to named locations) on each point.  Any construct outside this fragment raises AnalysisBroken: the
instance is then 'analysis broken', never a pass.  No OMPL code is executed; the AST is interpreted over the
abstract points.
"""
from .facts import AnalysisBroken

STRIP = ('ParenExpr', 'ImplicitCastExpr', 'ExprWithCleanups', 'MaterializeTemporaryExpr', 'CXXBindTemporaryExpr',
         'ConstantExpr', 'FullExpr', 'CStyleCastExpr', 'CXXStaticCastExpr', 'CXXFunctionalCastExpr')


class Return(Exception):
    def __init__(self, v):
        self.v = v


class Break(Exception):
    pass


class Continue(Exception):
    pass


class Interp:
    """override load/call/store; env maps local keys to values"""
    max_steps = 20000

    def __init__(self, fn):
        self.fn = fn
        self.steps = 0

    # hooks -----------------------------------------------------------------
    def load(self, n, env):
        raise AnalysisBroken('fd: read of %s outside the fragment in %s' % (self.fn.fp(n['id']), self.fn.name))

    def call(self, n, env):
        raise AnalysisBroken('fd: call %s outside the fragment in %s' % (n.get('callee'), self.fn.name))

    def store(self, lhs, value, env):
        raise AnalysisBroken('fd: store to %s outside the fragment in %s' % (self.fn.fp(lhs['id']), self.fn.name))

    # -----------------------------------------------------------------------
    def lkey(self, n):
        if n['k'] == 'DeclRefExpr' and n.get('dk') in ('Local', 'Parm'):
            return '%s#%d' % (n.get('name'), n.get('did'))
        return None

    def ev(self, nid, env):
        self.steps += 1
        if self.steps > self.max_steps:
            raise AnalysisBroken('fd: evaluation does not terminate in ' + self.fn.name)
        fn = self.fn
        n = fn.nodes.get(nid)
        if n is None:
            raise AnalysisBroken('fd: missing node')
        k = n['k']
        if k in STRIP and n['ch']:
            return self.ev(n['ch'][0], env)
        if k == 'CXXBoolLiteralExpr':
            return bool(n['v'])
        if k == 'IntegerLiteral':
            return int(n['v'])
        if k == 'FloatingLiteral':
            return float(n['v'])
        if k in ('CXXNullPtrLiteralExpr', 'GNUNullExpr'):
            return None
        if k == 'DeclRefExpr':
            lk = self.lkey(n)
            if lk is not None and lk in env:
                return env[lk]
            if n.get('dk') == 'Enum':
                return ('enum', n.get('q') or n.get('name'), n.get('v'))
            return self.load(n, env)
        if k == 'MemberExpr':
            return self.load(n, env)
        if k == 'UnaryOperator':
            op = n.get('op')
            if op == '!':
                return not self.truth(self.ev(n['ch'][0], env))
            if op == '-':
                return -self.ev(n['ch'][0], env)
            if op in ('++', '--'):
                t = fn.strip(n['ch'][0])
                old = self.ev(n['ch'][0], env)
                new = old + (1 if op == '++' else -1)
                self.assign(t, new, env)
                return old if n.get('post') else new
            if op in ('*', '&'):
                return self.ev(n['ch'][0], env)
            raise AnalysisBroken('fd: unary %s outside the fragment in %s' % (op, fn.name))
        if k == 'BinaryOperator':
            op = n.get('op')
            if op == '&&':
                return self.truth(self.ev(n['ch'][0], env)) and self.truth(self.ev(n['ch'][1], env))
            if op == '||':
                return self.truth(self.ev(n['ch'][0], env)) or self.truth(self.ev(n['ch'][1], env))
            if op == '=':
                v = self.ev(n['ch'][1], env)
                self.assign(fn.strip(n['ch'][0]), v, env)
                return v
            if op == ',':
                self.ev(n['ch'][0], env)
                return self.ev(n['ch'][1], env)
            a, b = self.ev(n['ch'][0], env), self.ev(n['ch'][1], env)
            return self.binop(op, a, b)
        if k == 'CompoundAssignOperator':
            t = fn.strip(n['ch'][0])
            a, b = self.ev(n['ch'][0], env), self.ev(n['ch'][1], env)
            v = self.binop(n.get('op')[:-1], a, b)
            self.assign(t, v, env)
            return v
        if k == 'ConditionalOperator':
            if self.truth(self.ev(n['cond'], env)):
                return self.ev(n['then'], env)
            return self.ev(n['else'], env)
        if k == 'CXXConstructExpr' and len(n['ch']) == 1:
            return self.ev(n['ch'][0], env)
        if n.get('callee') is not None:
            return self.call(n, env)
        if k == 'CXXThisExpr':
            return ('this',)
        raise AnalysisBroken('fd: expression %s outside the fragment in %s' % (k, fn.name))

    def binop(self, op, a, b):
        try:
            if op == '<':
                return a < b
            if op == '<=':
                return a <= b
            if op == '>':
                return a > b
            if op == '>=':
                return a >= b
            if op == '==':
                return a == b
            if op == '!=':
                return a != b
            if op == '+':
                return a + b
            if op == '-':
                return a - b
            if op == '*':
                return a * b
        except TypeError:
            pass
        raise AnalysisBroken('fd: operator %s on abstract values outside the fragment in %s' % (op, self.fn.name))

    def truth(self, v):
        if isinstance(v, bool):
            return v
        if v is None:
            return False
        if isinstance(v, (int, float)):
            return v != 0
        if isinstance(v, tuple) and v and v[0] == 'ptr':
            return v[1] is not None
        if isinstance(v, tuple) and v and v[0] == 'enum':
            return bool(v[2])
        raise AnalysisBroken('fd: truth value of abstract %r in %s' % (v, self.fn.name))

    def assign(self, t, v, env):
        lk = self.lkey(t) if t is not None else None
        if lk is not None:
            env[lk] = v
        else:
            self.store(t, v, env)

    def ex(self, nid, env):
        fn = self.fn
        n = fn.nodes.get(nid)
        if n is None:
            return
        k = n['k']
        if k == 'CompoundStmt':
            for c in n['ch']:
                self.ex(c, env)
        elif k == 'IfStmt':
            if self.truth(self.ev(n['cond'], env)):
                self.ex(n['then'], env)
            elif n.get('else'):
                self.ex(n['else'], env)
        elif k == 'ReturnStmt':
            raise Return(self.ev(n['ch'][0], env) if n['ch'] else None)
        elif k == 'DeclStmt':
            for d in n.get('decls', []):
                env['%s#%d' % (d['name'], d['did'])] = self.ev(d['init'], env) if d.get('init') else None
        elif k in ('NullStmt',):
            pass
        elif k == 'BreakStmt':
            raise Break()
        elif k == 'ContinueStmt':
            raise Continue()
        elif k == 'WhileStmt':
            while self.truth(self.ev(n['cond'], env)):
                try:
                    self.ex(n['body'], env)
                except Break:
                    break
                except Continue:
                    continue
        elif k == 'ForStmt':
            if n.get('init'):
                self.ex(n['init'], env)
            while (not n.get('cond')) or self.truth(self.ev(n['cond'], env)):
                try:
                    self.ex(n['body'], env)
                except Break:
                    break
                except Continue:
                    pass
                if n.get('inc'):
                    self.ev(n['inc'], env)
        elif k == 'DoStmt':
            while True:
                try:
                    self.ex(n['body'], env)
                except Break:
                    break
                except Continue:
                    pass
                if not self.truth(self.ev(n['cond'], env)):
                    break
        elif k == 'SwitchStmt':
            v = self.ev(n['cond'], env)
            body = fn.nodes[n['body']]
            matched = False
            try:
                for c in body['ch']:
                    cn = fn.nodes[c]
                    if not matched:
                        if cn['k'] == 'CaseStmt':
                            cv = self.ev(cn['case'], env)
                            if cv == v or (isinstance(cv, tuple) and isinstance(v, tuple) and cv[-1] == v[-1]):
                                matched = True
                                self.ex(cn['sub'], env)
                        elif cn['k'] == 'DefaultStmt':
                            matched = True
                            for cc in cn['ch']:
                                self.ex(cc, env)
                    else:
                        if cn['k'] == 'CaseStmt':
                            self.ex(cn['sub'], env)
                        elif cn['k'] == 'DefaultStmt':
                            for cc in cn['ch']:
                                self.ex(cc, env)
                        else:
                            self.ex(c, env)
            except Break:
                pass
        else:
            # expression statement
            self.ev(nid, env)

    def run(self, env=None):
        env = {} if env is None else env
        try:
            self.ex(self.fn.body, env)
        except Return as r:
            return r.v, env
        return None, env
