"""E5b: finite-domain interpretation across member functions of small value classes.

An extension of fd.Interp in which objects are Python dicts (field name -> value), `this` is bound, member calls whose callee
has a body in the loaded facts are interpreted recursively (bounded depth), std::vector members are Python lists and smart
pointers are transparent.  Used for round-trip obligations of registries (what is put in is what the queries answer).  No
OMPL code is executed; anything outside the fragment raises AnalysisBroken.
"""
from . import fd
from .facts import AnalysisBroken
from .shape import args


class Obj(dict):
    """an abstract object; identity matters (two Obj with equal fields are different objects)"""
    __hash__ = object.__hash__

    def __eq__(self, other):
        return self is other

    def __ne__(self, other):
        return self is not other


class Ref(Obj):
    """a pointer-like abstract object (shared_ptr target): copying the pointer keeps the identity"""


def _copy(v):
    if isinstance(v, Ref):
        return v
    if isinstance(v, Obj):
        return Obj(v)
    return v


class ObjInterp(fd.Interp):
    max_steps = 200000

    def __init__(self, F, fn, this=None, depth=0, hooks=None):
        super().__init__(fn)
        self.F = F
        self.this = this
        self.depth = depth
        self.hooks = hooks or {}

    def truth(self, v):
        if isinstance(v, dict):
            return True                 # a non-null pointer / engaged smart pointer
        if isinstance(v, list):
            return True
        return super().truth(v)

    # ---- objects ------------------------------------------------------------------------------------------------------
    def base_of(self, n, env):
        """object a MemberExpr is applied to"""
        if not n['ch']:
            return self.this
        b = self.fn.strip(n['ch'][0])
        if b is None or b['k'] == 'CXXThisExpr':
            return self.this
        return self.ev(b['id'], env)

    def load(self, n, env):
        if n['k'] == 'MemberExpr':
            o = self.base_of(n, env)
            if isinstance(o, dict):
                nm = n.get('name')
                if nm in o:
                    return o[nm]
                raise AnalysisBroken('obj: field %s of an abstract object is not modelled (in %s)' % (nm, self.fn.name))
        if n['k'] == 'CXXThisExpr':
            return self.this
        raise AnalysisBroken('obj: read of %s outside the fragment in %s' % (self.fn.fp(n['id']), self.fn.name))

    def store(self, lhs, v, env):
        if lhs is not None and lhs['k'] == 'MemberExpr':
            o = self.base_of(lhs, env)
            if isinstance(o, dict):
                o[lhs.get('name')] = v
                return
        if lhs is not None and lhs['k'] == 'CXXOperatorCallExpr' and lhs.get('oop') == '[]':
            vec = self.ev(lhs['ch'][0], env)
            idx = self.ev(lhs['ch'][1], env)
            vec[idx] = v
            return
        raise AnalysisBroken('obj: store to %s outside the fragment in %s' % (self.fn.fp(lhs['id']) if lhs else '?', self.fn.name))

    def ev(self, nid, env):
        n = self.fn.nodes.get(nid)
        if n is None:
            raise AnalysisBroken('obj: missing node')
        k = n['k']
        if k == 'CXXThisExpr':
            return self.this
        if k == 'CXXConstructExpr' and len(n['ch']) == 0:
            return self.hooks.get('default', lambda ty: None)(n.get('ty') or '')
        if k == 'CXXConstructExpr' and len(n['ch']) == 1:
            v = self.ev(n['ch'][0], env)
            ctor = self.hooks.get('construct')
            if ctor is not None:
                r = ctor(self, n, [v])
                if r is not NotImplemented:
                    return r
            cal = n.get('callee') or ''
            rec = cal.rsplit('::', 1)[0].split('::')[-1] if cal else ''
            if cal and rec and rec not in (n.get('csig') or '') and any(g.d.get('inits') is not None for g in self.F.by_name.get(cal, [])):
                o = self.construct_from_facts(n, env)          # a converting constructor defined in the analysed sources
                if o is not NotImplemented:
                    return o
            return _copy(v)            # copy construction of a value object
        if k == 'CXXNewExpr':
            inner = [self.fn.nodes[c] for c in n['ch'] if self.fn.nodes.get(c) and self.fn.nodes[c]['k'] == 'CXXConstructExpr']
            if inner:
                v = self.construct_from_facts(inner[0], env, ref=True)
                if v is not NotImplemented:
                    return v
            raise AnalysisBroken('obj: new-expression outside the fragment in %s' % self.fn.name)
        if k in ('CXXConstructExpr', 'CXXTemporaryObjectExpr'):
            ctor = self.hooks.get('construct')
            if ctor is not None:
                r = ctor(self, n, [self.ev(c, env) for c in n['ch']])
                if r is not NotImplemented:
                    return r
            raise AnalysisBroken('obj: construction of %s outside the fragment in %s' % (n.get('ty'), self.fn.name))
        if k == 'BinaryOperator' and n.get('op') in ('==', '!='):
            a, b = self.ev(n['ch'][0], env), self.ev(n['ch'][1], env)
            if isinstance(a, dict) or isinstance(b, dict) or a is None or b is None:
                same = a is b
                return same if n['op'] == '==' else not same
        if k == 'BinaryOperator' and n.get('op') == '/':
            a, b = self.ev(n['ch'][0], env), self.ev(n['ch'][1], env)
            from fractions import Fraction
            ty = n.get('ty') or ''
            return Fraction(a) / Fraction(b) if ('double' in ty or 'float' in ty) else int(a) // int(b)
        if k == 'FloatingLiteral':
            from fractions import Fraction
            try:
                return Fraction(str(n['v']))            # exact rationals: 0.5 is 1/2, so results compare exactly
            except Exception:
                return float(n['v'])
        if k == 'CXXDefaultArgExpr':
            return ('default',)
        if k == 'StringLiteral':
            return ('str', n.get('v'))
        return super().ev(nid, env)

    def ex(self, nid, env):
        n = self.fn.nodes.get(nid)
        if n is None:
            return
        if n.get('mac') and n['k'] not in ('ReturnStmt', 'IfStmt', 'CompoundStmt', 'DeclStmt'):
            return                                              # logging / assertion macros
        if n['k'] == 'DeclStmt':
            for d in n.get('decls', []):
                ty = d.get('ty') or ''
                kk = '%s#%d' % (d['name'], d['did'])
                if any(t in ty for t in ('lock_guard', 'unique_lock', 'scoped_lock')):
                    env[kk] = ('lock',)
                    continue
                if not d.get('init'):
                    env[kk] = self.hooks.get('default', lambda ty: None)(ty)
                    continue
                v = self.ev(d['init'], env)
                if isinstance(v, Obj) and not ty.rstrip().endswith('&'):
                    v = _copy(v)                                 # a value declaration copies
                elif isinstance(v, list) and not ty.rstrip().endswith('&') and 'vector' in ty:
                    v = [_copy(x) for x in v]
                env[kk] = v
            return
        if n['k'] == 'IfStmt' and n.get('mac'):
            return
        if n['k'] == 'CXXForRangeStmt':
            rng_node = n.get('range')
            rng = None
            # the range expression: a list-valued member / local (the range variable's initialiser)
            cand = []
            rn = self.fn.nodes.get(rng_node) if rng_node else None
            if rn is not None and rn['k'] == 'DeclStmt' and rn.get('decls') and rn['decls'][0].get('init'):
                cand.append(rn['decls'][0]['init'])         # auto &&__range = <range expression>
            elif rng_node:
                cand.append(rng_node)
            for c in cand:
                try:
                    v = self.ev(c, env) if c else None
                except AnalysisBroken:
                    v = None
                if isinstance(v, list):
                    rng = v
                    break
            if rng is None and n.get('rangeinit'):
                v = self.ev(n['rangeinit'], env)
                rng = v if isinstance(v, list) else None
            if rng is None:
                raise AnalysisBroken('obj: range of a range-based for loop not recognised in %s' % self.fn.name)
            var = self.fn.nodes[n['var']]['decls'][0]
            for item in list(rng):
                env['%s#%d' % (var['name'], var['did'])] = item
                try:
                    self.ex(n['body'], env)
                except fd.Break:
                    break
                except fd.Continue:
                    continue
            return
        return super().ex(nid, env)

    def construct_from_facts(self, cn, env, ref=False):
        """build an object from a constructor whose definition (member initialisers + body) is in the facts"""
        cands = [g for g in self.F.by_name.get(cn.get('callee') or '', []) if g.d.get('inits') is not None]
        if cn.get('csig'):
            cands = [g for g in cands if g.sig == cn['csig']] or cands
        if not cands:
            return NotImplemented
        g = cands[0]
        av = [self.ev(c, env) for c in cn['ch']]
        o = Ref() if ref else Obj()
        sub = self.__class__(self.F, g, this=o, depth=self.depth + 1, hooks=self.hooks)
        e2 = {'%s#%d' % (p_['name'], p_['did']): v for p_, v in zip(g.params, av)}
        for x in g.d.get('inits', []):
            nm = x.get('field') or x.get('name')
            ini = g.nodes.get(x['init'])
            if ini is not None and ini['k'] == 'CXXDefaultInitExpr':
                o[nm] = self.hooks.get('default', lambda ty: None)(nm)
            else:
                o[nm] = sub.ev(x['init'], e2)
        # members without an initialiser are default-constructed: containers start empty
        recname = (cn.get('callee') or '').rsplit('::', 1)[0]
        for r in self.F.records.get(recname, [])[:1]:
            for fl in r.get('fields', []):
                if fl['name'] not in o:
                    ty = fl.get('ty') or ''
                    o[fl['name']] = [] if any(t in ty for t in ('std::vector', 'std::list', 'std::deque', 'std::set')) else \
                        self.hooks.get('default', lambda t: None)(fl['name'])
        if g.body:
            try:
                sub.ex(g.body, e2)
            except fd.Return:
                pass
        return o

    # ---- calls ---------------------------------------------------------------------------------------------------------
    def call(self, n, env):
        fn = self.fn
        c = n.get('callee') or ''
        short = c.split('::')[-1]
        if n['k'] == 'CXXOperatorCallExpr':
            oop = n.get('oop')
            if oop in ('->', '*'):
                return self.ev(n['ch'][0], env)
            if oop == '[]':
                vec, idx = self.ev(n['ch'][0], env), self.ev(n['ch'][1], env)
                if isinstance(vec, list):
                    if not (0 <= idx < len(vec)):
                        raise AnalysisBroken('obj: index %s outside a vector of %d elements while interpreting %s' % (idx, len(vec), fn.name))
                    return vec[idx]
            if oop == '=' and len(n['ch']) == 2:
                v = self.ev(n['ch'][1], env)
                v = _copy(v)
                self.assign(fn.strip(n['ch'][0]), v, env)
                return v
            if oop in ('==', '!=') and len(n['ch']) == 2:
                a, b = self.ev(n['ch'][0], env), self.ev(n['ch'][1], env)
                return (a is b or a == b) if oop == '==' else not (a is b or a == b)
        h = self.hooks.get('call')
        if h is not None:
            r = h(self, n, env)
            if r is not NotImplemented:
                return r
        recv = None
        if n['k'] == 'CXXMemberCallExpr' and n['ch']:
            recv = self.ev(n['ch'][0], env)
        a = args(fn, n) if n['k'] == 'CXXMemberCallExpr' else n['ch']
        if c.startswith('std::vector::') and isinstance(recv, list):
            if short in ('push_back', 'emplace_back'):
                v = self.ev(a[0], env)
                recv.append(_copy(v))
                return None
            if short == 'size':
                return len(recv)
            if short == 'empty':
                return not recv
            if short == 'clear':
                del recv[:]
                return None
            if short == 'back':
                return recv[-1]
            if short == 'front':
                return recv[0]
            if short in ('begin', 'end', 'cbegin', 'cend'):
                return ('iter', id(recv), short)
            if short in ('reserve', 'shrink_to_fit'):
                return None
            if short == 'pop_back':
                recv.pop()
                return None
            if short == 'resize':
                nn = self.ev(a[0], env)
                fill = self.ev(a[1], env) if len(a) > 1 else None
                del recv[nn:]
                while len(recv) < nn:
                    recv.append(fill)
                return None
        if c.startswith('std::') and short in ('operator bool',) and n['ch']:
            v = self.ev(n['ch'][0], env)
            return v is not None
        if c in ('std::sort', 'std::stable_sort'):
            s = self.hooks.get('sort')
            if s is not None:
                return s(self, n, env)
            raise AnalysisBroken('obj: std::sort without a model in %s' % fn.name)
        if c == 'std::swap' and len(a) == 2:
            l0, l1 = fn.strip(a[0]), fn.strip(a[1])
            k0, k1 = self.lkey(l0) if l0 else None, self.lkey(l1) if l1 else None
            if k0 and k1:
                env[k0], env[k1] = env.get(k1), env.get(k0)
                return None
            raise AnalysisBroken('obj: std::swap of non-local l-values in %s' % fn.name)
        if c in ('std::move', 'std::forward', 'std::static_pointer_cast', 'std::dynamic_pointer_cast'):
            return self.ev(a[0], env)
        # a member / free function with a body in the facts
        cands = [g for g in self.F.by_name.get(c, []) if g.body]
        if cands and self.depth < 6:
            g = cands[0]
            if len(cands) > 1 and n.get('csig'):
                ex_ = [x for x in cands if x.sig == n['csig']]
                g = ex_[0] if ex_ else g
            if len(cands) > 1 and not n.get('csig'):
                ex_ = [x for x in cands if len(x.params) == len(a)]
                g = ex_[0] if ex_ else g
            av = [self.ev(x, env) for x in a]
            sub = self.__class__(self.F, g, this=recv if recv is not None else self.this, depth=self.depth + 1, hooks=self.hooks)
            e2 = {}
            for p, v in zip(g.params, av):
                e2['%s#%d' % (p['name'], p['did'])] = v
            for x in g.d.get('inits', []):
                # constructor initialisers are handled by the construct hook
                pass
            r, _ = sub.run(e2)
            # non-const reference parameters bound to local l-values: copy the final value back (reference semantics for scalars
            # and pointers; objects are shared anyway)
            for p, x in zip(g.params, a):
                ty = (p.get('ty') or '').strip()
                if ty.endswith('&') and not ty.endswith('&&') and not ty.startswith('const '):
                    t = fn.strip(x)
                    lk = self.lkey(t) if t is not None else None
                    if lk is not None:
                        env[lk] = e2.get('%s#%d' % (p['name'], p['did']))
            return r
        raise AnalysisBroken('obj: call %s outside the fragment in %s' % (c, fn.name))
