"""C11 -- updatable binary heap (per-operation necessary conditions of the heap invariant).

R11a every operation that places an element at a slot restores order in both directions (or rebuilds)
R11b every slot store is paired with the handle's position store
R11c each removal path deletes one element and shrinks the storage by one; clear deletes all
R11d sift / build index arithmetic and comparison argument order
"""
from engine import facts, paths, lin
from engine.facts import AnalysisBroken, src
from engine.shape import key, args

INST = [facts.INST + '/ds.cpp']
VEC = 'ompl::BinaryHeap::vector_'


def label(fn):
    return fn.name + ('<' + fn.targs + '>' if fn.targs else '')


def is_vec(fn, nid):
    n = fn.strip(nid)
    return n is not None and n['k'] == 'MemberExpr' and n.get('q') == VEC


def slot_index(fn, nid):
    """if expression nid is vector_[I] return canon(lin(I)) else None"""
    n = fn.strip(nid)
    if n is None:
        return None
    if n.get('oop') == '[]' and is_vec(fn, n['ch'][0]):
        return lin.canon(lin.lin(fn, n['ch'][1]))
    if n['k'] == 'CXXMemberCallExpr' and n.get('callee') == 'std::vector::at' and is_vec(fn, n['ch'][0]):
        return lin.canon(lin.lin(fn, n['ch'][1]))
    return None


def slot_store(fn, n):
    """n stores an element pointer into vector_[I]: returns (I, rhs node id)"""
    if n['k'] == 'BinaryOperator' and n.get('op') == '=':
        i = slot_index(fn, n['ch'][0])
        if i is not None:
            return i, n['ch'][1]
    return None


def position_store(fn, n):
    """n is X->position = K: returns (slot index canon if X is vector_[J] else ('var', key), canon(K))"""
    if n['k'] == 'BinaryOperator' and n.get('op') == '=':
        l = fn.strip(n['ch'][0])
        if l is not None and l['k'] == 'MemberExpr' and l.get('name') == 'position':
            base = l['ch'][0]
            j = slot_index(fn, base)
            k = lin.canon(lin.lin(fn, n['ch'][1]))
            if j is not None:
                return ('slot', j), k
            bk = key(fn, base)
            return ('var', bk), k
    return None


def sift_call(fn, n):
    c = n.get('callee')
    if c in ('ompl::BinaryHeap::percolateUp', 'ompl::BinaryHeap::percolateDown', 'ompl::BinaryHeap::build'):
        a = args(fn, n)
        return c.split('::')[-1], (lin.canon(lin.lin(fn, a[0])) if a else None)
    return None


class RestoreClient(paths.Client):
    """auto = frozenset of pending restorations: ('slot', I, needUp, needDown) / ('push', P, needUp)"""

    def __init__(self, fn):
        self.bad = []
        self.events = 0
        self.newpos = {}  # local var -> position given to the new element
        for n in fn.walk():
            ps = position_store(fn, n)
            if ps and ps[0][0] == 'var':
                self.newpos[ps[0][1]] = ps[1]
            if n['k'] == 'DeclStmt':
                for d in n.get('decls', []):
                    if d.get('init'):
                        for c in fn.walk(d['init']):
                            if c.get('callee') == 'ompl::BinaryHeap::newElement':
                                self.newpos['%s#%d' % (d['name'], d['did'])] = lin.canon(lin.lin(fn, args(fn, c)[1]))

    def init(self, fn):
        return frozenset()

    def on_node(self, fn, node, auto, ctx):
        st = slot_store(fn, node)
        if st:
            self.events += 1
            return auto | {('slot', st[0], True, True)}
        if node.get('callee') == 'std::vector::push_back' and is_vec(fn, node['ch'][0]):
            self.events += 1
            a = args(fn, node)
            p = None
            k = key(fn, a[0])
            if k in self.newpos:
                p = self.newpos[k]
            else:
                for c in fn.walk(a[0]):
                    if c.get('callee') == 'ompl::BinaryHeap::newElement':
                        p = lin.canon(lin.lin(fn, args(fn, c)[1]))
            return auto | {('push', p, True, False)}
        sc = sift_call(fn, node)
        if sc:
            what, arg = sc
            out = set()
            for (kind, p, up, down) in auto:
                if what == 'build':
                    continue
                if p == arg or (kind == 'push' and p is None):
                    if what == 'percolateUp':
                        up = False
                    else:
                        down = False
                if up or down:
                    out.add((kind, p, up, down))
            return frozenset(out)
        # whole-vector restore from a backup copy (sort): the heap is what it was before
        if node.get('oop') == '=' and node['k'] == 'CXXOperatorCallExpr' and is_vec(fn, node['ch'][0]):
            return frozenset()
        if node.get('callee') == 'std::vector::clear' and is_vec(fn, node['ch'][0]):
            return frozenset()
        return auto

    def at_exit(self, fn, ret, auto, ctx):
        if auto:
            self.bad.append((sorted(auto, key=str), ctx.path()))


SIFT = ('ompl::BinaryHeap::percolateUp', 'ompl::BinaryHeap::percolateDown')


def r11a(rep, F, fns):
    rep.rule('R11a', 'after a store of an arbitrary element into slot p (outside the sift routines) every path to the '
                     'function exit calls percolateUp(p) and percolateDown(p) (argument equal in linear normal form) or '
                     'build(); after push_back of a new element: percolateUp(its position) or build()')
    n_inst = 0
    for fn in fns:
        if fn.name in SIFT:
            continue
        cl = RestoreClient(fn)
        paths.run_function(fn, cl, F)
        if not cl.events:
            continue
        n_inst += 1
        if cl.bad:
            pend, path = cl.bad[0]
            kind, p, up, down = pend[0]
            missing = ' and '.join(x for x, f in (('percolateUp', up), ('percolateDown', down)) if f)
            det = 'element placed at %s %s but a path reaches the exit without %s(%s)' % (
                'slot' if kind == 'slot' else 'the end (push_back), position', lin.show(p), missing, lin.show(p))
            rep.add('R11a', label(fn), 'restore-after-placement', False, fn.loc, det, path)
        else:
            rep.add('R11a', label(fn), 'restore-after-placement', True, fn.loc,
                    'every placement is followed by the required sift calls on all paths (%d placement sites)' % cl.events)
    return n_inst


class PairClient(paths.Client):
    """auto = pending slot index awaiting its position store"""

    def __init__(self):
        self.bad = []
        self.stores = 0

    def init(self, fn):
        return None

    def on_node(self, fn, node, auto, ctx):
        st = slot_store(fn, node)
        if st:
            self.stores += 1
            if auto is not None:
                self.bad.append(('slot %s overwritten/next slot stored before its position was updated' % lin.show(auto),
                                 ctx.path(), node['id']))
            return st[0]
        ps = position_store(fn, node)
        if ps and ps[0][0] == 'slot':
            j, k = ps[0][1], ps[1]
            if j == auto:
                if k == j:
                    return None
                self.bad.append(('vector_[%s]->position set to %s' % (lin.show(j), lin.show(k)), ctx.path(), node['id']))
                return None
        if node.get('oop') == '=' and node['k'] == 'CXXOperatorCallExpr' and is_vec(fn, node['ch'][0]):
            return None
        return auto

    def at_exit(self, fn, ret, auto, ctx):
        if auto is not None:
            self.bad.append(('slot %s stored without updating the element\'s position' % lin.show(auto), ctx.path(), None))


def r11b(rep, F, fns):
    rep.rule('R11b', 'every store vector_[i] = x is followed, before the next slot store or the function exit, by '
                     'vector_[i]->position = i (indices equal in linear normal form) on every path')
    cnt = 0
    for fn in fns:
        cl = PairClient()
        paths.run_function(fn, cl, F)
        if not cl.stores:
            continue
        cnt += 1
        if cl.bad:
            rep.add('R11b', label(fn), 'slot-position-pairing', False,
                    fn.where(cl.bad[0][2]) if cl.bad[0][2] else fn.loc, cl.bad[0][0], cl.bad[0][1])
        else:
            rep.add('R11b', label(fn), 'slot-position-pairing', True, fn.loc,
                    '%d slot stores, each paired with its position store' % cl.stores)
    # new elements: position initialised before they enter the storage
    for fn in fns:
        if fn.name.endswith('::newElement'):
            ps = [position_store(fn, n) for n in fn.walk()]
            ps = [p for p in ps if p]
            pk = lin.canon({'%s#%d' % (fn.params[1]['name'], fn.params[1]['did']): 1})
            ok = any(p[1] == pk for p in ps)
            rep.add('R11b', label(fn), 'new-element-position', ok, fn.loc,
                    'element->position = pos' if ok else 'newElement does not store the given position')
        if fn.name.endswith('::insert') and 'const std::vector' not in fn.sig:
            # element->position = pos with pos = vector_.size() taken before push_back
            ok = False
            det = 'position of the inserted element is not the size before push_back'
            for ds in [n for n in fn.walk() if n['k'] == 'DeclStmt']:
                for d in ds.get('decls', []):
                    if d.get('init') and any(c.get('callee') == 'std::vector::size' and is_vec(fn, c['ch'][0])
                                             for c in fn.walk(d['init'])) and \
                            lin.lin(fn, d['init']) == {'std::vector::size(this.vector_)': 1}:
                        pk = lin.canon({'%s#%d' % (d['name'], d['did']): 1})
                        if any(p and p[1] == pk and p[0][0] == 'var' for p in [position_store(fn, n) for n in fn.walk()]):
                            ok = True
                            det = 'element->position = vector_.size() (before push_back)'
            rep.add('R11b', label(fn), 'inserted-element-position', ok, fn.loc, det)
    return cnt


class RemoveClient(paths.Client):
    def __init__(self):
        self.exits = []

    def init(self, fn):
        return (0, 0)

    def on_node(self, fn, node, auto, ctx):
        if node['k'] == 'CXXDeleteExpr':
            return (min(auto[0] + 1, 3), auto[1])
        if node.get('callee') == 'std::vector::pop_back' and is_vec(fn, node['ch'][0]):
            return (auto[0], min(auto[1] + 1, 3))
        return auto

    def at_exit(self, fn, ret, auto, ctx):
        self.exits.append((auto, ctx.path()))


def r11c(rep, F, fns):
    rep.rule('R11c', 'removePos deletes exactly one element and pops exactly one slot on every path; the deleted '
                     'element is the one at the removed position; clear() deletes every element and empties the storage; '
                     'remove() removes at the element\'s own position; pop() removes position 0')
    for fn in fns:
        nm = fn.name.split('::')[-1]
        if nm == 'removePos':
            cl = RemoveClient()
            paths.run_function(fn, cl, F)
            bad = [(a, p) for a, p in cl.exits if a != (1, 1)]
            rep.add('R11c', label(fn), 'one-delete-one-pop', not bad, fn.loc,
                    'a path performs %d deletes and %d pop_backs' % bad[0][0] if bad else
                    'exactly one delete and one pop_back on each of %d paths' % len(cl.exits), bad[0][1] if bad else None)
            dels = [n for n in fn.walk() if n['k'] == 'CXXDeleteExpr']
            pk = lin.canon({'%s#%d' % (fn.params[0]['name'], fn.params[0]['did']): 1})
            ok = len(dels) >= 1 and all(slot_index(fn, d['ch'][0]) == pk for d in dels)
            rep.add('R11c', label(fn), 'deletes-removed-slot', ok, fn.loc,
                    'delete vector_[pos]' if ok else 'the deleted element is not the one at the removed position')
            # the element moved into the hole is the last one
            sts = [slot_store(fn, n) for n in fn.walk()]
            sts = [s for s in sts if s]
            ok = bool(sts) and all(s[0] == pk and (fn.strip(s[1]) or {}).get('callee') == 'std::vector::back' for s in sts)
            rep.add('R11c', label(fn), 'hole-filled-with-last', ok, fn.loc,
                    'vector_[pos] = vector_.back()' if ok else 'the hole is not filled with the last element')
        elif nm == 'clear':
            rf = [n for n in fn.walk() if n['k'] == 'CXXForRangeStmt']
            ok = bool(rf) and is_vec(fn, rf[0]['range']) and any(n['k'] == 'CXXDeleteExpr' for n in fn.walk(rf[0]['body'])) \
                and any(n.get('callee') == 'std::vector::clear' and is_vec(fn, n['ch'][0]) for n in fn.walk())
            rep.add('R11c', label(fn), 'clear-deletes-all', ok, fn.loc,
                    'deletes every element of vector_, then vector_.clear()' if ok else
                    'clear() does not delete every element and empty the storage')
        elif nm == 'remove':
            calls = [c for c in fn.calls('ompl::BinaryHeap::removePos')]
            ok = len(calls) == 1
            if ok:
                a = fn.strip(args(fn, calls[0])[0])
                ok = a is not None and a['k'] == 'MemberExpr' and a.get('name') == 'position' and \
                    key(fn, a['ch'][0]) == '%s#%d' % (fn.params[0]['name'], fn.params[0]['did'])
            rep.add('R11c', label(fn), 'remove-own-position', ok, fn.loc,
                    'removePos(element->position)' if ok else 'remove() does not remove at the element\'s own position')
        elif nm == 'pop':
            calls = [c for c in fn.calls('ompl::BinaryHeap::removePos')]
            ok = len(calls) == 1 and lin.lin(fn, args(fn, calls[0])[0]) == {1: 0}
            rep.add('R11c', label(fn), 'pop-removes-top', ok, fn.loc, 'removePos(0)' if ok else 'pop() does not remove slot 0')
        elif nm == 'top':
            # returns slot 0 (or null when empty)
            idx = [slot_index(fn, n['id']) for n in fn.walk()]
            idx = [i for i in idx if i is not None]
            ok = bool(idx) and all(i == lin.canon({1: 0}) for i in idx)
            rep.add('R11c', label(fn), 'top-is-slot-0', ok, fn.loc, 'top() reads slot 0' if ok else 'top() does not return slot 0')
        elif nm == 'size':
            rets = [n for n in fn.walk() if n['k'] == 'ReturnStmt']
            ok = len(rets) == 1 and lin.lin(fn, rets[0]['ch'][0]) == {'std::vector::size(this.vector_)': 1}
            rep.add('R11c', label(fn), 'size-is-storage-size', ok, fn.loc,
                    'size() = vector_.size()' if ok else 'size() is not the storage size')
        elif nm == 'update':
            # restores order at the element's own position in both directions
            ups = [sift_call(fn, c) for c in fn.walk() if sift_call(fn, c)]
            defs = {}
            for ds in [n for n in fn.walk() if n['k'] == 'DeclStmt']:
                for d in ds.get('decls', []):
                    if d.get('init'):
                        defs['%s#%d' % (d['name'], d['did'])] = d['init']
            def own(argc):
                d = dict(argc or ())
                if len(d) != 1:
                    return False
                k = list(d.keys())[0]
                init = defs.get(k)
                n = fn.strip(init) if init else None
                return n is not None and n['k'] == 'MemberExpr' and n.get('name') == 'position' and \
                    key(fn, n['ch'][0]) == '%s#%d' % (fn.params[0]['name'], fn.params[0]['did'])
            kinds = {w for (w, a) in ups if own(a)}
            ok = {'percolateUp', 'percolateDown'} <= kinds or 'build' in {w for w, a in ups}
            rep.add('R11a', label(fn), 'update-both-directions', ok, fn.loc,
                    'update() sifts the element\'s own position up and down' if ok else
                    'update() does not restore order in both directions at element->position (calls: %s)' % sorted(kinds))


def r11d(rep, F, fns):
    rep.rule('R11d', 'sift shape: percolateDown starts at children 2p+1/2p+2, selects the smaller child before comparing '
                     'with the moving element (comparison argument order), handles the single-child tail; percolateUp '
                     'walks parent (c-1)/2 and stops at the root; build() starts at size/2-1 and runs down to 0')
    for fn in fns:
        nm = fn.name.split('::')[-1]
        if nm == 'build':
            fors = [n for n in fn.walk() if n['k'] == 'ForStmt']
            ok = False
            why = 'no loop'
            if fors:
                from engine.shape import for_loop
                idx, start, cond, stride = for_loop(fn, fors[0])
                init = fn.nodes.get(fors[0].get('init') or 0)
                if init and init['k'] == 'DeclStmt' and init['decls'] and init['decls'][0].get('init'):
                    start = lin.lin(fn, init['decls'][0]['init'], lin.local_env(fn))
                want = {('div', lin.canon({'std::vector::size(this.vector_)': 1}), 2): 1, 1: -1}
                calls = [c for c in fn.walk(fors[0]['body']) if c.get('callee') == 'ompl::BinaryHeap::percolateDown']
                if start != want:
                    why = 'build starts at %s, not size/2-1' % lin.show(start)
                elif stride != -1:
                    why = 'build does not step down by one'
                elif cond != ('le0', lin.canon({idx: -1})):
                    why = 'build does not run down to index 0'
                elif len(calls) != 1 or lin.lin(fn, args(fn, calls[0])[0]) != {idx: 1}:
                    why = 'build does not sift down every visited index'
                else:
                    ok = True
            rep.add('R11d', label(fn), 'build-range', ok, fn.loc, 'for i = size/2-1 .. 0: percolateDown(i)' if ok else why)
        elif nm == 'percolateDown':
            why = sift_down_shape(fn)
            rep.add('R11d', label(fn), 'sift-down-shape', why is None, fn.loc,
                    why or 'children 2p+1/2p+2, smaller child selected, moving element compared as lt(child, moving), '
                           'single-child tail handled, final placement at the hole')
        elif nm == 'percolateUp':
            why = sift_up_shape(fn)
            rep.add('R11d', label(fn), 'sift-up-shape', why is None, fn.loc,
                    why or 'parent (c-1)/2, loop guarded by child > 0 and lt(moving, parent), final placement at the hole')


def _lt_calls(fn, root=None):
    out = []
    for n in fn.walk(root):
        if n['k'] in ('CXXOperatorCallExpr', 'CallExpr') and n.get('oop') == '()' or \
                (n['k'] == 'CXXOperatorCallExpr' and n.get('callee', '').endswith('operator()')):
            a = n['ch']
            if len(a) == 3 and 'lt_' in fn.fp(a[0]):
                out.append((n, a[1], a[2]))
    return out


def _data_of(fn, nid):
    """X->data where X = vector_[I] -> ('slot', I) ; X a local -> ('var', key)"""
    n = fn.strip(nid)
    if n is None or n['k'] != 'MemberExpr' or n.get('name') != 'data':
        return None
    j = slot_index(fn, n['ch'][0])
    if j is not None:
        return ('slot', j)
    return ('var', key(fn, n['ch'][0]))


def sift_down_shape(fn):
    pos = '%s#%d' % (fn.params[0]['name'], fn.params[0]['did'])
    decl = {}
    for ds in [n for n in fn.walk() if n['k'] == 'DeclStmt']:
        for d in ds.get('decls', []):
            decl[d['name']] = ('%s#%d' % (d['name'], d['did']), d.get('init'))
    whiles = [n for n in fn.walk() if n['k'] == 'WhileStmt']
    if len(whiles) != 1:
        raise AnalysisBroken('R11d: percolateDown loop shape not recognised')
    w = whiles[0]
    # child variable: the one compared with n in the loop condition
    c = lin.cmp_le0(fn, w['cond'])
    if c is None:
        raise AnalysisBroken('R11d: percolateDown loop condition not recognised')
    d = dict(c[1])
    size_atoms = [k for k in d if 'size' in k or k.startswith('n#')]
    childs = [k for k in d if k not in size_atoms and k != '1']
    if len(childs) != 1:
        raise AnalysisBroken('R11d: percolateDown loop condition not recognised')
    child = childs[0]
    # child < n  <=> child - n + 1 <= 0
    if d.get(child) != 1 or d.get('1', 0) != 1:
        return 'loop condition is not child < size'
    cinit = decl.get(child.split('#')[0], (None, None))[1]
    if cinit is None or lin.lin(fn, cinit) != {pos: 2, 1: 2}:
        return 'first child index is %s, not 2*pos+2 (right child)' % lin.show(lin.lin(fn, cinit) if cinit else None)
    # updates of child in loop: child = 2*child + 2
    ups = [n for n in fn.walk(w['body']) if n['k'] == 'BinaryOperator' and n.get('op') == '=' and key(fn, n['ch'][0]) == child]
    if not ups or any(lin.lin(fn, u['ch'][1]) != {child: 2, 1: 2} for u in ups):
        return 'child is not advanced to 2*child+2'
    lts = _lt_calls(fn, w['body'])
    if len(lts) != 2:
        raise AnalysisBroken('R11d: expected two comparisons in the percolateDown loop')
    (n1, a1, b1), (n2, a2, b2) = lts
    cm1 = lin.canon({child: 1, 1: -1})
    c0 = lin.canon({child: 1})
    if not (_data_of(fn, a1) == ('slot', cm1) and _data_of(fn, b1) == ('slot', c0)):
        return 'sibling comparison is not lt(vector_[child-1], vector_[child])'
    # its then-branch selects child-1
    ifs = [n for n in fn.walk(w['body']) if n['k'] == 'IfStmt' and any(x['id'] == n1['id'] for x in fn.walk(n['cond']))]
    if not ifs:
        raise AnalysisBroken('R11d: sibling selection idiom not recognised')
    sel = [n for n in fn.walk(ifs[0]['then']) if n['k'] == 'UnaryOperator' and n.get('op') == '--' and key(fn, n['ch'][0]) == child]
    sel2 = [n for n in fn.walk(ifs[0]['then']) if n['k'] in ('BinaryOperator', 'CompoundAssignOperator') and
            key(fn, n['ch'][0]) == child]
    if not sel and not (sel2 and ((sel2[0].get('op') == '-=' and lin.lin(fn, sel2[0]['ch'][1]) == {1: 1}) or
                                 (sel2[0].get('op') == '=' and lin.lin(fn, sel2[0]['ch'][1]) == {child: 1, 1: -1}))):
        return 'the smaller sibling (child-1) is not selected when it compares less'
    if ifs[0].get('else'):
        return 'unexpected else-branch in the sibling selection'
    mv = _data_of(fn, b2)
    if not (_data_of(fn, a2) == ('slot', c0) and mv and mv[0] == 'var'):
        return 'moving-element comparison is not lt(vector_[child], moving)'
    tmpk = mv[1]
    tinit = decl.get(tmpk.split('#')[0], (None, None))[1]
    if tinit is None or slot_index(fn, tinit) != lin.canon({pos: 1}):
        return 'moving element is not vector_[pos]'
    ifs2 = [n for n in fn.walk(w['body']) if n['k'] == 'IfStmt' and any(x['id'] == n2['id'] for x in fn.walk(n['cond']))]
    if not ifs2 or not ifs2[0].get('else') or not any(n['k'] == 'BreakStmt' for n in fn.walk(ifs2[0]['else'])):
        return 'the loop does not stop when the moving element is not greater than the smaller child'
    # tail: child == n handled
    tails = [n for n in fn.walk() if n['k'] == 'IfStmt' and not any(a['id'] == w['id'] for a in fn.ancestors(n['id']))
             and lin.cmp_le0(fn, n['cond']) and lin.cmp_le0(fn, n['cond'])[0] == 'eq0' and child in dict(lin.cmp_le0(fn, n['cond'])[1])]
    if not tails:
        return 'single-child tail (child == size) is not handled'
    lts_t = _lt_calls(fn, tails[0]['then'])
    if len(lts_t) != 1 or _data_of(fn, lts_t[0][2]) != ('var', tmpk):
        return 'single-child tail does not compare the last child with the moving element'
    # final placement vector_[parent] = tmp
    fin = [slot_store(fn, n) for n in fn.walk()]
    if not any(s and key(fn, s[1]) == tmpk for s in fin):
        return 'moving element is never stored at its final slot'
    return None


def sift_up_shape(fn):
    pos = '%s#%d' % (fn.params[0]['name'], fn.params[0]['did'])
    decl = {}
    for ds in [n for n in fn.walk() if n['k'] == 'DeclStmt']:
        for d in ds.get('decls', []):
            decl['%s#%d' % (d['name'], d['did'])] = d.get('init')
    whiles = [n for n in fn.walk() if n['k'] == 'WhileStmt']
    if len(whiles) != 1:
        raise AnalysisBroken('R11d: percolateUp loop shape not recognised')
    w = whiles[0]
    lts = _lt_calls(fn, w['cond'])
    if len(lts) != 1:
        raise AnalysisBroken('R11d: percolateUp loop condition not recognised')
    n1, a1, b1 = lts[0]
    mv, par = _data_of(fn, a1), _data_of(fn, b1)
    if not (mv and mv[0] == 'var' and par and par[0] == 'slot'):
        return 'loop comparison is not lt(moving, vector_[parent])'
    tmpk = mv[1]
    if decl.get(tmpk) is None or slot_index(fn, decl[tmpk]) != lin.canon({pos: 1}):
        return 'moving element is not vector_[pos]'
    pd = dict(par[1])
    if len(pd) != 1:
        return 'parent index not a variable'
    parent = list(pd.keys())[0]
    want = {('div', lin.canon({pos: 1, 1: -1}), 2): 1}
    if decl.get(parent) is None or lin.lin(fn, decl[parent]) != want:
        return 'parent index is %s, not (pos-1)/2' % lin.show(lin.lin(fn, decl[parent]) if decl.get(parent) else None)
    ups = [n for n in fn.walk(w['body']) if n['k'] == 'BinaryOperator' and n.get('op') == '=' and key(fn, n['ch'][0]) == parent]
    if not ups or any(lin.lin(fn, u['ch'][1]) != {('div', lin.canon({parent: 1, 1: -1}), 2): 1} for u in ups):
        return 'parent is not advanced to (parent-1)/2'
    # root guard: child > 0 conjunct evaluated before the comparison
    cond = fn.strip(w['cond'])
    if cond is None or cond['k'] != 'BinaryOperator' or cond.get('op') != '&&':
        return 'loop is not guarded by child > 0 && lt(...)'
    g = lin.cmp_le0(fn, cond['ch'][0])
    if g is None or g[0] != 'le0' or len(dict(g[1])) != 2 or dict(g[1]).get('1') != 1:
        return 'root guard is not child > 0'
    fin = [slot_store(fn, n) for n in fn.walk()]
    if not any(s and key(fn, s[1]) == tmpk for s in fin):
        return 'moving element is never stored at its final slot'
    return None


def run(rep, units=None):
    units = units or INST
    F = facts.load_units(units)
    rep.units.update(units)
    fns = [f for f in F.functions if f.record == 'ompl::BinaryHeap']
    rep.functions.update(f.key for f in fns)
    insts = sorted(set(f.targs for f in fns))
    rep.extra['heap_instantiations'] = insts
    if not any(t.startswith('BinaryHeap<int') for t in insts):
        raise AnalysisBroken('C11: BinaryHeap<int> instantiation missing')
    for must in ('removePos', 'update', 'insert', 'percolateUp', 'percolateDown', 'build', 'clear', 'pop', 'remove',
                 'sort', 'buildFrom'):
        if not any(f.name == 'ompl::BinaryHeap::' + must for f in fns):
            raise AnalysisBroken('C11: BinaryHeap::%s vanished' % must)
    n = r11a(rep, F, fns)
    rep.require_count('R11a', 'functions with placements', n, 5)
    n = r11b(rep, F, fns)
    rep.require_count('R11b', 'functions with slot stores', n, 3)
    r11c(rep, F, fns)
    r11d(rep, F, fns)


def thorough(rep):
    """every instantiation the library creates (GridB cells, BIT*/AIT*/EIT* queues, ...)"""
    units = facts.library_units()
    F = facts.load_units(units)
    fns = [f for f in F.functions if f.record == 'ompl::BinaryHeap']
    seen = set(rep.extra.get('heap_instantiations', []))
    new = [f for f in fns if f.targs not in seen]
    rep.units.update(units)
    rep.functions.update(f.key for f in new)
    rep.extra['heap_instantiations'] = sorted(seen | set(f.targs for f in new))
    r11a(rep, F, new)
    r11b(rep, F, new)
    r11c(rep, F, new)
    r11d(rep, F, new)
