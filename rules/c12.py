"""C12 -- weighted sampling structure (PDF): structural necessary conditions.

R12a handle pairing: data_[i] <-> index_ on add and on remove's swap; leaf-row swap uses the same two slots
R12b sample: empty rejection dominates the descent; compared cell == subtracted cell; one doubling and one row step per
     iteration; update adjusts one cell per row by the same delta with index >>= 1 between rows
R12c remove: data_ and the leaf row shrink together on every non-trivial path; sibling special case guard; the removed
     element is deleted exactly once
R12d the right-child step of the descent is guarded by the existence of a right child
"""
from engine import facts, paths, lin
from engine.facts import AnalysisBroken
from engine.shape import key, args, pkey

INST = [facts.INST + '/ds.cpp']
DATA = 'ompl::PDF::data_'
TREE = 'ompl::PDF::tree_'


def label(fn):
    return fn.name + ('<' + fn.targs + '>' if fn.targs else '')


def is_field(fn, nid, q):
    n = fn.strip(nid)
    return n is not None and n['k'] == 'MemberExpr' and n.get('q') == q


def data_slot(fn, nid):
    """data_[I] -> canon(I); data_.back() -> 'back'; data_.front() -> canon(0)"""
    n = fn.strip(nid)
    if n is None:
        return None
    if n.get('oop') == '[]' and is_field(fn, n['ch'][0], DATA):
        return lin.canon(lin.lin(fn, n['ch'][1]))
    if n.get('callee') == 'std::vector::back' and is_field(fn, n['ch'][0], DATA):
        return 'back'
    if n.get('callee') == 'std::vector::front' and is_field(fn, n['ch'][0], DATA):
        return lin.canon({1: 0})
    return None


def leaf_slot(fn, nid):
    """tree_.front()[I] / tree_[0][I] -> canon(I); tree_.front().back() -> 'back'"""
    n = fn.strip(nid)
    if n is None:
        return None

    def is_leafrow(x):
        m = fn.strip(x)
        if m is None:
            return False
        if m.get('callee') == 'std::vector::front' and is_field(fn, m['ch'][0], TREE):
            return True
        if m.get('oop') == '[]' and is_field(fn, m['ch'][0], TREE) and lin.lin(fn, m['ch'][1]) == {1: 0}:
            return True
        return False
    if n.get('oop') == '[]' and is_leafrow(n['ch'][0]):
        return lin.canon(lin.lin(fn, n['ch'][1]))
    if n.get('callee') == 'std::vector::back' and is_leafrow(n['ch'][0]):
        return 'back'
    return None


def row_cell(fn, nid):
    """tree_[R][C] -> (canon(R), canon(C))"""
    n = fn.strip(nid)
    if n is None or n.get('oop') != '[]':
        return None
    m = fn.strip(n['ch'][0])
    if m is None or m.get('oop') != '[]' or not is_field(fn, m['ch'][0], TREE):
        return None
    return lin.canon(lin.lin(fn, m['ch'][1])), lin.canon(lin.lin(fn, n['ch'][1]))


class SwapPair(paths.Client):
    """after std::swap(data_[I], data_.back()) the element now at I must get index_ = I before exit / next data_ change"""

    def __init__(self):
        self.bad = []
        self.swaps = 0
        self.leafswaps = []

    def init(self, fn):
        return None

    def on_node(self, fn, node, auto, ctx):
        if node.get('callee') == 'std::swap' and len(node['ch']) == 2:
            a, b = data_slot(fn, node['ch'][0]), data_slot(fn, node['ch'][1])
            if a is not None and b is not None:
                self.swaps += 1
                idx = a if b == 'back' else (b if a == 'back' else None)
                if idx is None:
                    raise AnalysisBroken('R12a: swap of two interior data slots not recognised in ' + fn.name)
                self.last_data_swap = idx
                return idx
            la, lb = leaf_slot(fn, node['ch'][0]), leaf_slot(fn, node['ch'][1])
            if la is not None and lb is not None:
                self.leafswaps.append((la if lb == 'back' else lb, node['id']))
        if node['k'] == 'BinaryOperator' and node.get('op') == '=':
            l = fn.strip(node['ch'][0])
            if l is not None and l['k'] == 'MemberExpr' and l.get('name') == 'index_':
                s = data_slot(fn, l['ch'][0])
                v = lin.canon(lin.lin(fn, node['ch'][1]))
                if s is not None and auto is not None and s == auto:
                    if v != s:
                        self.bad.append(('data_[%s]->index_ set to %s' % (lin.show(s), lin.show(v)), ctx.path(), node['id']))
                    return None
        if node.get('callee') in ('std::vector::pop_back', 'std::vector::push_back', 'std::vector::clear') and \
                is_field(fn, node['ch'][0], DATA) and auto is not None:
            self.bad.append(('element moved to slot %s keeps its old index_ (handle no longer identifies it)' % lin.show(auto),
                             ctx.path(), node['id']))
            return None
        return auto

    def at_exit(self, fn, ret, auto, ctx):
        if auto is not None:
            self.bad.append(('element moved to slot %s keeps its old index_' % lin.show(auto), ctx.path(), None))


class EmptyGuard(paths.Client):
    def __init__(self):
        self.bad = []
        self.sites = 0

    def init(self, fn):
        return False

    def learn(self, fn, node, value, auto, ctx):
        if node.get('callee') in ('std::vector::empty',) and (is_field(fn, node['ch'][0], DATA) or is_field(fn, node['ch'][0], TREE)) \
                and value is False:
            return True
        if node.get('callee') == 'ompl::PDF::empty' and value is False:
            return True
        return auto

    def on_node(self, fn, node, auto, ctx):
        # first use of the tree: tree_.size() / tree_[..] / tree_.back()
        if node.get('callee', '').startswith('std::vector::') and node['ch'] and is_field(fn, node['ch'][0], TREE) \
                and node['callee'] not in ('std::vector::empty',):
            self.sites += 1
            if not auto:
                self.bad.append(ctx.path())
        return auto


class ShrinkClient(paths.Client):
    """counts pops of data_ and of the leaf row, deletes, on each path"""

    def __init__(self):
        self.exits = []

    def init(self, fn):
        return (0, 0, 0, False)

    def on_node(self, fn, node, auto, ctx):
        d, l, de, cleared = auto
        if node.get('callee') == 'std::vector::pop_back':
            if is_field(fn, node['ch'][0], DATA):
                d = min(d + 1, 3)
            else:
                m = fn.strip(node['ch'][0])
                if m is not None and (m.get('callee') == 'std::vector::front' and is_field(fn, m['ch'][0], TREE) or
                                      (m.get('oop') == '[]' and is_field(fn, m['ch'][0], TREE) and
                                       lin.lin(fn, m['ch'][1]) == {1: 0})):
                    l = min(l + 1, 3)
        if node.get('callee') == 'std::vector::clear' and (is_field(fn, node['ch'][0], DATA) or is_field(fn, node['ch'][0], TREE)):
            cleared = True
        if node['k'] == 'CXXDeleteExpr':
            de = min(de + 1, 3)
        return (d, l, de, cleared)

    def at_exit(self, fn, ret, auto, ctx):
        self.exits.append((auto, ctx.path()))


class MustWalkRows(paths.Client):
    """after the leaf row was edited (push_back / pop_back / store) every path to the exit evaluates the condition of
    the loop that maintains the upper rows (must-pass-through): an early return would leave the partial sums / row
    sizes inconsistent with the leaves"""
    track = 'vars'

    def __init__(self, fn, loops):
        self.loopconds = {x['id'] for l in loops if l.get('cond') for x in fn.walk(l['cond'])}
        self.bad = []
        self.edits = 0

    def init(self, fn):
        return (False, False)

    def on_node(self, fn, node, auto, ctx):
        edited, walked = auto
        if node.get('id') in self.loopconds:
            if edited:
                walked = True
        is_leaf_edit = False
        if node.get('callee') in ('std::vector::push_back', 'std::vector::pop_back') and node['ch']:
            m = fn.strip(node['ch'][0])
            if m is not None and (m.get('callee') == 'std::vector::front' and is_field(fn, m['ch'][0], TREE) or
                                  (m.get('oop') == '[]' and is_field(fn, m['ch'][0], TREE) and lin.lin(fn, m['ch'][1]) == {1: 0})):
                is_leaf_edit = True
        if node['k'] == 'BinaryOperator' and node.get('op') == '=' and leaf_slot(fn, node['ch'][0]) is not None:
            is_leaf_edit = True
        if is_leaf_edit:
            self.edits += 1
            edited, walked = True, False
        return (edited, walked)

    def at_exit(self, fn, ret, auto, ctx):
        if auto[0] and not auto[1]:
            self.bad.append(ctx.path())


def conjuncts(fn, nid, out):
    n = fn.strip(nid)
    if n is not None and n['k'] == 'BinaryOperator' and n.get('op') == '&&':
        conjuncts(fn, n['ch'][0], out)
        conjuncts(fn, n['ch'][1], out)
    else:
        out.append(nid)
    return out


def run(rep):
    F = facts.load_units(INST)
    rep.units.update(INST)
    fns = {f.name.split('::')[-1]: f for f in F.functions if f.record == 'ompl::PDF' and f.targs.startswith('PDF<int')}
    rep.functions.update(f.key for f in fns.values())
    for must in ('add', 'sample', 'update', 'remove', 'clear', 'size', 'getWeight'):
        if must not in fns:
            raise AnalysisBroken('C12: PDF::%s vanished' % must)
    rep.rule('R12a', 'handle pairing: a new element is constructed with index data_.size() and pushed at the end; after '
                     'remove() swaps data_[i] with the last element the element now at i gets index_ = i before the '
                     'storage changes again; the leaf-row swap uses the same slot')
    add = fns['add']
    news = [n for n in add.walk() if n['k'] == 'CXXNewExpr']
    ok = False
    why = 'new Element(d, data_.size()) followed by data_.push_back(elem) not found'
    if len(news) == 1:
        ce = [c for c in add.walk(news[0]['id']) if c['k'] == 'CXXConstructExpr' and c.get('ctor', '').endswith('Element')]
        if ce and len(ce[0]['ch']) == 2:
            idx = lin.lin(add, ce[0]['ch'][1])
            if idx != {'std::vector::size(this.data_)': 1}:
                why = 'new element gets index %s, not data_.size()' % lin.show(idx)
            else:
                # the first mutation of data_ after the allocation is push_back(elem)
                muts = [c for c in add.walk() if c.get('callee', '').startswith('std::vector::') and c['ch'] and
                        is_field(add, c['ch'][0], DATA) and not c.get('cconst')]
                if muts and muts[0].get('callee') == 'std::vector::push_back' and add.line(muts[0]) >= add.line(news[0]):
                    ok = True
                else:
                    why = 'the storage changes between taking data_.size() and push_back'
    rep.add('R12a', label(add), 'new-element-index', ok, add.loc, 'index = data_.size(), then push_back' if ok else why)
    rem = fns['remove']
    cl = SwapPair()
    paths.run_function(rem, cl, F)
    if cl.swaps == 0:
        raise AnalysisBroken('R12a: swap idiom of PDF::remove not recognised')
    rep.add('R12a', label(rem), 'swap-updates-index', not cl.bad, rem.where(cl.bad[0][2]) if cl.bad and cl.bad[0][2] else rem.loc,
            cl.bad[0][0] if cl.bad else 'data_[i]->index_ = i follows the swap on every path', cl.bad[0][1] if cl.bad else None)
    ok = len(cl.leafswaps) >= 1 and all(s[0] == cl.last_data_swap for s in cl.leafswaps)
    rep.add('R12a', label(rem), 'leaf-swap-same-slot', ok, rem.loc,
            'the weights of the same two slots are swapped' if ok else
            'the leaf-row swap does not exchange the weights of the two swapped elements')

    rep.rule('R12b', 'sample(): the empty-structure rejection dominates every use of the tree; the cell compared with r is '
                     'the cell subtracted from r; one `node <<= 1` and one `--row` per iteration; result is data_[node]. '
                     'update(): delta = w - old leaf; leaf stored; exactly one cell per upper row adjusted by that delta, '
                     'index halved between rows; rows 1..size-1')
    sm = fns['sample']
    cl = EmptyGuard()
    paths.run_function(sm, cl, F)
    if cl.sites == 0:
        raise AnalysisBroken('R12b: sample() does not touch the tree')
    rep.add('R12b', label(sm), 'empty-rejected-first', not cl.bad, sm.loc,
            'sample() can reach the tree of an empty structure (row size()-1 of an empty vector)' if cl.bad else
            'every tree access is dominated by the not-empty test (%d access sites)' % cl.sites, cl.bad[0] if cl.bad else None)
    wl = [n for n in sm.walk() if n['k'] == 'WhileStmt']
    if len(wl) != 1:
        raise AnalysisBroken('R12b: descent loop not recognised')
    w = wl[0]
    ifs = [n for n in sm.walk(w['body']) if n['k'] == 'IfStmt']
    if len(ifs) != 1:
        raise AnalysisBroken('R12b: descent step not recognised')
    cj = conjuncts(sm, ifs[0]['cond'], [])
    cmpc = None
    for c in cj:
        n = sm.strip(c)
        if n is not None and n['k'] == 'BinaryOperator' and n.get('op') in ('>', '>=', '<', '<='):
            for side in (0, 1):
                rc = row_cell(sm, n['ch'][side])
                if rc:
                    cmpc = (rc, n.get('op') if side == 1 else {'>': '<', '<': '>', '>=': '<=', '<=': '>='}[n['op']])
    subs = [n for n in sm.walk(ifs[0]['then']) if n['k'] == 'CompoundAssignOperator' and n.get('op') == '-=']
    ok = cmpc is not None and len(subs) == 1 and row_cell(sm, subs[0]['ch'][1]) == cmpc[0]
    rep.add('R12b', label(sm), 'compared-cell-is-subtracted-cell', ok, sm.where(ifs[0]),
            'r is compared with and reduced by the same cell tree_[row][node]' if ok else
            'the cell compared with r is not the cell subtracted from it')
    ok = cmpc is not None and cmpc[1] in ('>', '>=')
    rep.add('R12b', label(sm), 'step-right-when-r-exceeds-left', ok, sm.where(ifs[0]),
            'moves right when r exceeds the left child\'s mass' if ok else 'descent direction reversed')
    rowv = [c for c in cmpc[0][0]] if cmpc else []
    shl = [n for n in sm.walk(w['body']) if n['k'] == 'CompoundAssignOperator' and n.get('op') == '<<=' and lin.lin(sm, n['ch'][1]) == {1: 1}]
    dec = [n for n in sm.walk(w['body']) if n['k'] == 'UnaryOperator' and n.get('op') == '--']
    in_if = lambda n: any(a['id'] == ifs[0]['id'] for a in sm.ancestors(n['id']))
    ok = len(shl) == 1 and not in_if(shl[0]) and len(dec) == 1 and not in_if(dec[0]) and \
        sm.line(dec[0]) <= sm.line(shl[0]) <= sm.line(ifs[0])
    rep.add('R12b', label(sm), 'one-level-per-iteration', ok, sm.where(w),
            'each iteration moves down one row and doubles the node index once, before the comparison' if ok else
            'row step / index doubling is not exactly once per iteration')
    rets = [n for n in sm.walk() if n['k'] == 'ReturnStmt']
    ok = False
    if len(rets) == 1:
        r = sm.strip(rets[0]['ch'][0])
        if r is not None and r['k'] == 'MemberExpr' and r.get('name') == 'data_':
            s = data_slot(sm, r['ch'][0])
            nodev = [n for n in sm.walk(shl[0]['id'])] if shl else []
            ok = s is not None and shl and s == lin.canon(lin.lin(sm, shl[0]['ch'][0]))
    rep.add('R12b', label(sm), 'returns-data-at-leaf', ok, sm.loc, 'returns data_[node]->data_' if ok else
            'the returned element is not the one at the reached leaf')

    rep.rule('R12d', 'the step to the right child (++node) is dominated by a test that node+1 lies inside the row '
                     '(linear normal form), so the descent cannot leave the storage when rounding makes r exceed the '
                     'mass of a last, sibling-less node')
    incs = [n for n in sm.walk(ifs[0]['then']) if (n['k'] == 'UnaryOperator' and n.get('op') == '++') or
            (n['k'] == 'CompoundAssignOperator' and n.get('op') == '+=')]
    ok = False
    why = 'no bound test on the right-child step'
    if len(incs) == 1 and cmpc:
        nodek = lin.lin(sm, incs[0]['ch'][0])
        for c in cj:
            f = lin.cmp_le0(sm, c)
            if f and f[0] == 'le0':
                d = dict(f[1])
                sizes = [k for k in d if k.startswith('std::vector::size(')]
                nk = list(nodek.keys())[0]
                if len(sizes) == 1 and d.get(sizes[0]) == -1 and d.get(str(nk)) == 1 and d.get('1', 0) >= 2 and len(d) == 3 \
                        and 'this.tree_' in sizes[0]:
                    ok = True
    rep.add('R12d', label(sm), 'right-child-exists', ok, sm.where(ifs[0]), 'guarded by node + 1 < row size' if ok else why)

    up = fns['update']
    fors = [n for n in up.walk() if n['k'] == 'ForStmt']
    from engine.shape import for_loop
    ok = False
    why = 'row walk not recognised'
    if len(fors) == 1:
        idx, start, cond, stride = for_loop(up, fors[0])
        body_adds = [n for n in up.walk(fors[0]['body']) if n['k'] == 'CompoundAssignOperator' and n.get('op') == '+=']
        halves_in = [n for n in up.walk(fors[0]['body']) if n['k'] == 'CompoundAssignOperator' and n.get('op') == '>>=' and
                     lin.lin(up, n['ch'][1]) == {1: 1}]
        halves_all = [n for n in up.walk() if n['k'] == 'CompoundAssignOperator' and n.get('op') == '>>=' and
                      lin.lin(up, n['ch'][1]) == {1: 1}]
        leafst = [n for n in up.walk() if n['k'] == 'BinaryOperator' and n.get('op') == '=' and leaf_slot(up, n['ch'][0])]
        if start != {1: 1}:
            why = 'row walk starts at row %s, not 1' % lin.show(start)
        elif cond != ('le0', lin.canon({idx: 1, 'std::vector::size(this.tree_)': -1, 1: 1})):
            why = 'row walk does not cover all rows up to tree_.size()-1'
        elif stride != 1:
            why = 'row stride is not 1'
        elif len(body_adds) != 1:
            why = '%d cells adjusted per row' % len(body_adds)
        elif len(halves_in) != 1 or len(halves_all) != 2:
            why = 'index is not halved exactly once before the walk and once per row'
        elif up.line(halves_in[0]) < up.line(body_adds[0]):
            why = 'index halved before the row cell is adjusted'
        elif len(leafst) != 1 or key(up, leafst[0]['ch'][1]) != pkey(up, 1):
            why = 'leaf weight is not set to the new weight'
        else:
            rc = row_cell(up, body_adds[0]['ch'][0])
            dk = key(up, body_adds[0]['ch'][1])
            dinit = None
            for ds in [n for n in up.walk() if n['k'] == 'DeclStmt']:
                for d in ds.get('decls', []):
                    if '%s#%d' % (d['name'], d['did']) == dk:
                        dinit = (d.get('init'), ds)
            if rc is None or rc[0] != lin.canon({idx: 1}):
                why = 'adjusted cell is not in the current row'
            elif dinit is None or dinit[0] is None:
                why = 'delta is not a local computed once'
            else:
                di = up.strip(dinit[0])
                if di is None or di['k'] != 'BinaryOperator' or di.get('op') != '-' or key(up, di['ch'][0]) != pkey(up, 1) or \
                        leaf_slot(up, di['ch'][1]) is None:
                    why = 'delta is not (new weight - old leaf weight)'
                elif up.line(dinit[1]) > up.line(leafst[0]):
                    why = 'delta computed after the leaf was overwritten (always 0)'
                elif rc[1] != lin.canon(lin.lin(up, halves_in[0]['ch'][0])):
                    why = 'adjusted column is not the halved index'
                else:
                    ok = True
    rep.add('R12b', label(up), 'one-cell-per-row', ok, up.loc,
            'delta = w - old; leaf = w; rows 1..size-1: tree_[row][index>>row] += delta' if ok else why)
    gw = fns['getWeight']
    rets = [n for n in gw.walk() if n['k'] == 'ReturnStmt']
    ok = len(rets) == 1 and leaf_slot(gw, rets[0]['ch'][0]) is not None and 'index_' in gw.fp(rets[0]['ch'][0])
    rep.add('R12b', label(gw), 'weight-is-leaf', ok, gw.loc, 'returns the leaf cell at the element\'s index' if ok else
            'getWeight does not return the element\'s leaf cell')
    sz = fns['size']
    rets = [n for n in sz.walk() if n['k'] == 'ReturnStmt']
    ok = len(rets) == 1 and lin.lin(sz, rets[0]['ch'][0]) == {'std::vector::size(this.data_)': 1}
    rep.add('R12b', label(sz), 'size-is-data-size', ok, sz.loc, 'size() = data_.size()' if ok else 'size() is not data_.size()')

    rep.rule('R12c', 'remove(): every path deletes exactly one element; data_ and the leaf row shrink by one together (or '
                     'both are cleared); the sibling short-cut (recognised by its role) is taken only when the removed slot and the last slot share a parent, decided by '
                     'evaluating the guard on every index < size - 1 <= 40; the '
                     'non-sibling path propagates (moved weight - removed weight) along index>>1; clear() deletes all')
    cl = ShrinkClient()
    paths.run_function(rem, cl, F)
    bad = None
    for ((d, l, de, cleared), p) in cl.exits:
        if de != 1:
            bad = ('a path through remove() deletes %d elements' % de, p)
        elif not cleared and (d != 1 or l != 1):
            bad = ('a path pops data_ %d times and the leaf row %d times' % (d, l), p)
    rep.add('R12c', label(rem), 'shrink-together', bad is None, rem.loc,
            bad[0] if bad else 'one delete; data_ and leaf row popped once each (or both cleared) on %d paths' % len(cl.exits),
            bad[1] if bad else None)
    # sibling guard
    indexk = None
    for ds in [n for n in rem.walk() if n['k'] == 'DeclStmt']:
        for d in ds.get('decls', []):
            if d.get('init') and 'index_' in rem.fp(d['init']):
                indexk = '%s#%d' % (d['name'], d['did'])
    # The site is recognised by its *role*, not by the spelling of its guard: inside the branch that moved the last element into the hole
    # (the else of "index + 1 == size"), the if whose then-branch takes the leaf weight of the last slot and whose else-branch
    # propagates a weight change upwards.  The guard itself is then decided by evaluating it on every (index, size) with
    # 0 <= index < size - 1 <= 40 against "index and size - 1 have the same parent" (index >> 1 == (size - 1) >> 1).
    sib = None
    for i in [n for n in rem.walk() if n['k'] == 'IfStmt' and n.get('else')]:
        if not any(a['k'] == 'IfStmt' and a.get('else') and any(z['id'] == i['id'] for z in rem.walk(a['else'])) for a in rem.ancestors(i['id'])):
            continue
        takes_leaf = any(x['k'] == 'BinaryOperator' and x.get('op') == '=' and 'back' in rem.fp(x['ch'][1]) for x in rem.walk(i['then']))
        propagates = any(x['k'] == 'ForStmt' for x in rem.walk(i['else']))
        if takes_leaf and propagates:
            sib = i
    if sib is None or indexk is None:
        raise AnalysisBroken('R12c: sibling special case of PDF::remove not recognised')

    def ev(nid, env):
        n = rem.strip(nid)
        if n is None:
            raise AnalysisBroken('R12c: empty expression in the sibling guard')
        k = n['k']
        if k == 'IntegerLiteral':
            return int(n.get('v'))
        if k == 'CXXBoolLiteralExpr':
            return 1 if n.get('v') in (True, 'true', 1) else 0
        if k == 'DeclRefExpr' and key(rem, n['id']) == indexk:
            return env['index']
        if (n.get('callee') or '') == 'std::vector::size' and 'data_' in rem.fp(n['id']):
            return env['size']
        if k == 'UnaryOperator' and n.get('op') in ('!', '-', '~', '+'):
            v = ev(n['ch'][0], env)
            return {'!': int(not v), '-': -v, '~': ~v, '+': v}[n['op']]
        if k == 'BinaryOperator':
            op = n.get('op')
            if op == '&&':
                return int(bool(ev(n['ch'][0], env)) and bool(ev(n['ch'][1], env)))
            if op == '||':
                return int(bool(ev(n['ch'][0], env)) or bool(ev(n['ch'][1], env)))
            a, b = ev(n['ch'][0], env), ev(n['ch'][1], env)
            if op in ('/', '%') and b == 0:
                raise AnalysisBroken('R12c: division by zero while evaluating the sibling guard')
            M = 1 << 64    # std::size_t arithmetic wraps
            f = {'+': lambda: (a + b) % M, '-': lambda: (a - b) % M, '*': lambda: (a * b) % M, '/': lambda: a // b, '%': lambda: a % b,
                 '>>': lambda: a >> b, '<<': lambda: (a << b) % M, '&': lambda: a & b, '|': lambda: a | b, '^': lambda: a ^ b,
                 '==': lambda: int(a == b), '!=': lambda: int(a != b), '<': lambda: int(a < b), '<=': lambda: int(a <= b),
                 '>': lambda: int(a > b), '>=': lambda: int(a >= b)}.get(op)
            if f is None:
                raise AnalysisBroken('R12c: operator %s in the sibling guard is outside the evaluated fragment' % op)
            return f()
        raise AnalysisBroken('R12c: %s in the sibling guard is outside the evaluated fragment' % k)

    cex = None
    npts = 0
    hi = 402 if getattr(rep, 'tier', 'quick') == 'thorough' else 42      # thorough tier: sizes up to 400
    for size in range(2, hi):
        for index in range(0, size - 1):
            npts += 1
            got = bool(ev(sib['cond'], {'index': index, 'size': size}))
            want = (index >> 1) == ((size - 1) >> 1)
            # only one direction is an error: the generic path is also right for siblings (their ancestors gain moved - removed and
            # then lose moved), so a guard that takes the short-cut less often changes nothing; taking it for non-siblings leaves the
            # removed weight in the ancestors of the hole
            if got and not want and cex is None:
                cex = (index, size, got)
    ok = cex is None
    rep.add('R12c', label(rem), 'sibling-guard', ok, rem.where(sib),
            'the short-cut is taken only when the removed slot and the last slot share a parent (%d (index, size) pairs evaluated)' % npts if ok else
            ('with index = %d and size = %d the short-cut is %s although slot %d and the last slot %d %s a parent: %s' %
             (cex[0], cex[1], 'taken' if cex[2] else 'not taken', cex[0], cex[1] - 1, 'do not share' if cex[2] else 'share',
              'the ancestors of the removed slot keep its weight, so the partial sums are stale and elements are drawn with the wrong '
              'probability' if cex[2] else 'the generic path subtracts the removed weight along a chain that the pop loop adjusts again')))
    # non-sibling propagation
    fors = [n for n in rem.walk() if n['k'] == 'ForStmt']
    prop = [f for f in fors if any(n['k'] == 'CompoundAssignOperator' and n.get('op') == '+=' for n in rem.walk(f['body']))]
    ok = False
    why = 'propagation loop not recognised'
    if len(prop) == 1:
        f = prop[0]
        idx, start, cond, stride = for_loop(rem, f)
        adds = [n for n in rem.walk(f['body']) if n['k'] == 'CompoundAssignOperator' and n.get('op') == '+=']
        halves = [n for n in rem.walk(f['body']) if n['k'] == 'CompoundAssignOperator' and n.get('op') == '>>=']
        rc = row_cell(rem, adds[0]['ch'][0]) if adds else None
        if start != {1: 1} or stride != 1 or cond != ('le0', lin.canon({idx: 1, 'std::vector::size(this.tree_)': -1, 1: 1})):
            why = 'propagation does not walk rows 1..size-1'
        elif len(adds) != 1 or len(halves) != 1 or rc is None or rc[0] != lin.canon({idx: 1}):
            why = 'propagation does not adjust one cell per row with the index halved each row'
        else:
            pk = list(dict(rc[1]).keys())[0]
            pinit = None
            for ds in [n for n in rem.walk() if n['k'] == 'DeclStmt']:
                for d in ds.get('decls', []):
                    if '%s#%d' % (d['name'], d['did']) == pk:
                        pinit = d.get('init')
            if pinit is None or lin.lin(rem, pinit) != {('div', lin.canon({indexk: 1}), 2): 1}:
                why = 'propagation does not start at index >> 1'
            else:
                ok = True
    rep.add('R12c', label(rem), 'swap-propagation', ok, rem.loc,
            'rows 1..size-1: tree_[row][index >> row] += (moved - removed)' if ok else why)
    rep.rule('R12e', 'add/update/remove: once the leaf row has been edited every path to the exit passes through the loop '
                     'that maintains the upper rows (must-pass-through over the CFG); an early return between the two '
                     'leaves row sizes or partial sums inconsistent with the leaves')
    for nm in ('add', 'update', 'remove'):
        f = fns[nm]
        loops = [n for n in f.walk() if n['k'] in ('ForStmt', 'WhileStmt') and
                 any(row_cell(f, x['id']) is not None or (x.get('callee') in ('std::vector::push_back', 'std::vector::pop_back', 'std::vector::back')
                     and x['ch'] and (f.strip(x['ch'][0]) or {}).get('oop') == '[]' and is_field(f, (f.strip(x['ch'][0]))['ch'][0], TREE))
                     for x in f.walk(n['body']))]
        if not loops:
            raise AnalysisBroken('R12e: upper-row maintenance loop of PDF::%s not recognised' % nm)
        cl = MustWalkRows(f, loops)
        paths.run_function(f, cl, F)
        if cl.edits == 0:
            raise AnalysisBroken('R12e: PDF::%s does not edit the leaf row' % nm)
        rep.add('R12e', label(f), 'upper-rows-maintained', not cl.bad, f.loc,
                'a path returns after editing the leaf row without running the upper-row maintenance loop' if cl.bad else
                'every path from a leaf-row edit to the exit runs the upper-row maintenance (%d edit sites)' % cl.edits,
                cl.bad[0] if cl.bad else None)
    # update(): the new weight is stored on every path that does not throw -- a shortcut for "unchanged" weights decided on an
    # absolute tolerance drops genuine updates of small weights
    upd = fns['update']

    class MustEdit(MustWalkRows):
        def __init__(self, fn, loops):
            super().__init__(fn, loops)
            self.noedit = []
            self.thrown = False

        def on_node(self, fn, node, auto, ctx):
            if node['k'] == 'CXXThrowExpr':
                return ('threw', True)
            if auto and auto[0] == 'threw':
                return auto
            if auto and auto[0] == 'same':
                r = super().on_node(fn, node, (False, False), ctx)
                return r if r[0] else auto
            return super().on_node(fn, node, auto, ctx)

        def learn(self, fn, node, value, auto, ctx):
            # an exact "nothing changes" test (w == old, delta == 0) that holds on this path makes skipping the store harmless
            if node.get('k') == 'BinaryOperator' and ((node.get('op') == '==' and value is True) or (node.get('op') == '!=' and value is False)) \
                    and 'double' in (fn.nodes[node['ch'][0]].get('ty') or '') + (fn.nodes[node['ch'][1]].get('ty') or ''):
                return ('same', True) if not (auto and auto[0] in (True, 'threw')) else auto
            return auto

        def at_exit(self, fn, ret, auto, ctx):
            if auto[0] in ('threw', 'same'):
                return
            if not auto[0]:
                self.noedit.append(ctx.path())
            super().at_exit(fn, ret, auto, ctx)
    uloops = [n for n in upd.walk() if n['k'] in ('ForStmt', 'WhileStmt')]
    cl = MustEdit(upd, uloops)
    paths.run_function(upd, cl, F)
    rep.add('R12e', label(upd), 'update-always-stores', not cl.noedit, upd.loc,
            'a path through update() returns normally without storing the new weight in the leaf row (e.g. an "unchanged weight" '
            'shortcut): getWeight() and sample() keep answering from the old weight' if cl.noedit else
            'every non-throwing path stores the new weight', cl.noedit[0] if cl.noedit else None)
    clr = fns['clear']
    ok = any(n['k'] == 'CXXDeleteExpr' for n in clr.walk()) and \
        any(n.get('callee') == 'std::vector::clear' and is_field(clr, n['ch'][0], DATA) for n in clr.walk()) and \
        any(n.get('callee') == 'std::vector::clear' and is_field(clr, n['ch'][0], TREE) for n in clr.walk())
    rep.add('R12c', label(clr), 'clear-empties-both', ok, clr.loc, 'deletes the elements, clears data_ and tree_' if ok else
            'clear() leaves data_ or tree_ populated')
