"""Shared analyses over planner code for C01 / C02 / C03 (geometric, control and multilevel planners)."""
import glob
import re
from engine import facts, paths, lin
from engine.facts import AnalysisBroken, src
from engine.shape import key, args, pkey, for_loop

B = 'ompl::base::'


def nofp(s):
    return re.sub(r'#\d+', '', s)


def geometric_units():
    return sorted(glob.glob(facts.SRC + '/ompl/geometric/planners/**/*.cpp', recursive=True))


def control_units():
    return sorted(glob.glob(facts.SRC + '/ompl/control/planners/**/*.cpp', recursive=True))


def multilevel_units():
    return sorted(glob.glob(facts.SRC + '/ompl/multilevel/**/*.cpp', recursive=True))


def base_units():
    return [src('base', 'src', 'Planner.cpp'), src('base', 'src', 'ProblemDefinition.cpp'),
            src('geometric', 'src', 'PathGeometric.cpp'), src('base', 'src', 'SpaceInformation.cpp')]


def solve_functions(F, prefix=None):
    out = [f for f in F.functions if f.name.endswith('::solve') and 'PlannerTerminationCondition' in f.sig and
           f.file.endswith('.cpp') and ('/planners/' in f.file or '/multilevel/' in f.file) and
           (prefix is None or f.name.startswith(prefix))]
    return out


# ---------------------------------------------------------------------------------------------------------------
# motion-check dominance (E2)

CHECK_CALLEES = (B + 'SpaceInformation::checkMotion', B + 'MotionValidator::checkMotion')


def is_motion_check(node, wrappers=()):
    c = node.get('callee')
    return c in CHECK_CALLEES or c in wrappers


class MotionGuard(paths.Client):
    """fact bit: 'on this path a motion check succeeded (or a 3-argument check, whose last-valid state is what gets
    linked, was performed) since the enclosing candidate loop was (re-)entered'.
    interest(fn, node) -> key: records for each interesting node whether the fact holds on *all* paths reaching it"""
    track = 'vars'
    fork_bools = True

    def __init__(self, fn, interest, wrappers=(), extra_true=()):
        self.interest = interest
        self.wrappers = wrappers
        self.extra_true = extra_true
        self.at = {}
        self.paths_ = {}
        self.relevant, self.relevant_preds = verdict_relevance(
            fn, lambda n: n.get('callee') is not None and (is_motion_check(n, wrappers) or n['callee'] in extra_true))
        # loops whose body performs a motion check draw a new candidate per iteration: facts established *inside* such a
        # loop die at its header; facts established before the loop was entered survive (they cover e.g. "the parent is
        # the node whose motion was checked before the neighbourhood loop")
        self.loop_of = {}      # node id -> innermost check-loop id containing it
        self.header = {}       # header node id -> loop id
        self.inner = {}        # loop id -> set of loop ids nested in it (incl. itself)
        loops = [n for n in fn.walk() if n['k'] in ('WhileStmt', 'ForStmt', 'DoStmt', 'CXXForRangeStmt') and n.get('body') and
                 any(is_motion_check(c, wrappers) for c in fn.walk(n['id']))]
        for lp in loops:
            self.inner[lp['id']] = {lp['id']}
            for x in fn.walk(lp['id']):
                self.loop_of[x['id']] = lp['id']      # later (inner) loops overwrite: walk is pre-order
            if lp['k'] == 'DoStmt':
                b = fn.nodes[lp['body']]
                first = b['ch'][0] if b['k'] == 'CompoundStmt' and b['ch'] else lp['body']
                self.header[first] = lp['id']
            elif lp.get('cond'):
                for x in fn.walk(lp['cond']):
                    self.header[x['id']] = lp['id']
        for lp in loops:
            for a in fn.ancestors(lp['id']):
                if a['id'] in self.inner:
                    self.inner[a['id']].add(lp['id'])

    def init(self, fn):
        return frozenset()

    def tag(self, node):
        return self.loop_of.get(node.get('id'), 0)

    def on_node(self, fn, node, auto, ctx):
        nid = node.get('id')
        if nid in self.header:
            dead = self.inner[self.header[nid]]
            auto = frozenset(t for t in auto if t not in dead)
        if node.get('callee') is not None and is_motion_check(node, self.wrappers):
            a = args(fn, node)
            if len(a) >= 3 and node['callee'] in CHECK_CALLEES:
                auto = auto | {self.tag(node)}  # validated-prefix contract of the 3-argument form
        if self.interest is not None and nid is not None:
            k = self.interest(fn, node)
            if k is not None:
                self.at[k] = self.at.get(k, True) and bool(auto)
                if not auto and k not in self.paths_:
                    self.paths_[k] = ctx.path()
        return auto

    def _is_ok(self, node, value):
        return value is True and node.get('callee') is not None and (is_motion_check(node, self.wrappers) or node['callee'] in self.extra_true)

    def learn(self, fn, node, value, auto, ctx):
        if self._is_ok(node, value):
            return auto | {self.tag(node)}
        if node.get('k') == 'Either':
            tags = []
            for alt in node['alts']:
                hit = [self.tag(n) for (n, v) in alt if self._is_ok(n, v)]
                if not hit:
                    return auto
                tags.append(hit[0])
            return auto | {tags[0]}
        return auto


def check_wrappers(F):
    """functions whose returned value is (on every return) a motion-check verdict: usable as guards"""
    out = set()
    for f in F.functions:
        if f.d.get('ret') != 'bool' or not f.file.startswith(facts.SRC):
            continue
        rets = [n for n in f.walk() if n['k'] == 'ReturnStmt' and n['ch']]
        if not rets:
            continue
        ok = True
        for r in rets:
            e = f.strip(r['ch'][0])
            if e is None:
                ok = False
                break
            if e.get('callee') in CHECK_CALLEES:
                continue
            if e['k'] == 'CXXBoolLiteralExpr' and e['v'] is False:
                continue
            ok = False
            break
        if ok and any((f.strip(r['ch'][0]) or {}).get('callee') in CHECK_CALLEES for r in rets):
            out.add(f.name)
    return out


# ---------------------------------------------------------------------------------------------------------------
# status <-> registration (E3)

STATUS_ENUM = {'UNKNOWN': (False, None), 'INVALID_START': (False, None), 'INVALID_GOAL': (False, None),
               'UNRECOGNIZED_GOAL_TYPE': (False, None), 'TIMEOUT': (False, None), 'APPROXIMATE_SOLUTION': (True, True),
               'EXACT_SOLUTION': (True, False), 'CRASH': (False, None), 'ABORT': (False, None), 'INFEASIBLE': (False, None)}
ADD = B + 'ProblemDefinition::addSolutionPath'


def status_value(run, fn, nid, vals, depth=0):
    """(is-solution, is-approximate) each True/False/None for a PlannerStatus-valued expression under the valuation"""
    n = fn.strip(nid)
    if n is None or depth > 6:
        return (None, None)
    k = n['k']
    if k == 'DeclRefExpr' and n.get('dk') == 'Enum':
        return STATUS_ENUM.get(n.get('name'), (None, None))
    if k in ('CXXConstructExpr', 'CXXTemporaryObjectExpr', 'InitListExpr', 'CXXFunctionalCastExpr'):
        ch = [c for c in n['ch'] if c]
        if len(ch) == 1:
            return status_value(run, fn, ch[0], vals, depth + 1)
        if len(ch) == 2:
            s = run.eval(ch[0], vals)
            a = run.eval(ch[1], vals)
            if s is False:
                return (False, None)
            return (s, a)
    if k == 'ConditionalOperator':
        c = run.eval(n['cond'], vals)
        if c is True:
            return status_value(run, fn, n['then'], vals, depth + 1)
        if c is False:
            return status_value(run, fn, n['else'], vals, depth + 1)
        a, b = status_value(run, fn, n['then'], vals, depth + 1), status_value(run, fn, n['else'], vals, depth + 1)
        return (a[0] if a[0] == b[0] else None, a[1] if a[1] == b[1] else None)
    if k == 'DeclRefExpr' and n.get('dk') == 'Local':
        d = vals.get(('d', '%s#%d' % (n['name'], n['did'])))
        if d is not None:
            return status_value(run, fn, d, vals, depth + 1)
    if k in ('ImplicitCastExpr', 'MaterializeTemporaryExpr') and n['ch']:
        return status_value(run, fn, n['ch'][0], vals, depth + 1)
    return (None, None)


def _vars_in(fn, nid, out, typed=True):
    for x in fn.walk(nid):
        ty = x.get('ty') or ''
        if typed and not (paths.is_boolish(ty) or paths.is_ptrish(ty) or 'PlannerStatus' in ty):
            continue
        if x['k'] == 'DeclRefExpr' and x.get('dk') in ('Local', 'Parm'):
            out.add('%s#%d' % (x.get('name'), x.get('did')))
        elif x['k'] == 'MemberExpr' and x.get('dk') == 'Field':
            b = fn.strip(x['ch'][0]) if x['ch'] else None
            if b is None or b['k'] == 'CXXThisExpr':
                out.add('this.' + x.get('name'))
            elif b['k'] == 'DeclRefExpr':
                out.add('%s#%d.%s' % (b.get('name'), b.get('did'), x.get('name')))


def relevance(fn, is_site, rounds=2):
    """bool / pointer variables and tested conditions that can influence the sites: mentioned in a site or in a
    condition controlling a site (enclosing if / loop / ?: conditions), plus -- for `rounds` rounds -- the bool / pointer
    variables in the definitions of those variables.  (Deliberately not the full control-dependence closure: every
    variable left out is simply unknown at its tests, which keeps the analysis sound and finite.)"""
    rel = set()
    preds = set()
    sites = [n for n in fn.walk() if is_site(n)]
    for s in sites:
        _vars_in(fn, s['id'], rel)
        for a in fn.ancestors(s['id']):
            c = a.get('cond')
            if c and a['k'] in ('IfStmt', 'WhileStmt', 'ForStmt', 'DoStmt', 'ConditionalOperator'):
                _vars_in(fn, c, rel)
                for x in fn.walk(c):
                    preds.add(fn.fp(x['id']))
    for _ in range(rounds):
        add = set()
        for n in fn.walk():
            if n['k'] == 'DeclStmt':
                for d in n.get('decls', []):
                    if d.get('init') and '%s#%d' % (d['name'], d['did']) in rel:
                        _vars_in(fn, d['init'], add)
                        for x in fn.walk(d['init']):
                            preds.add(fn.fp(x['id']))
            elif n['k'] in ('BinaryOperator', 'CompoundAssignOperator') and n.get('op') in ('=', '|=', '&='):
                t = set()
                _vars_in(fn, n['ch'][0], t)
                if t & rel:
                    _vars_in(fn, n['ch'][1], add)
                    for x in fn.walk(n['ch'][1]):
                        preds.add(fn.fp(x['id']))
        rel |= add
    return rel, preds


def verdict_relevance(fn, is_check):
    """variables that carry a check verdict (their definition contains a check call, to a fixpoint) and everything
    tested together with them or with a check call in one condition"""
    v0 = set()
    for _ in range(3):
        for n in fn.walk():
            rhs = []
            if n['k'] == 'DeclStmt':
                rhs = [('%s#%d' % (d['name'], d['did']), d['init']) for d in n.get('decls', []) if d.get('init')]
            elif n['k'] in ('BinaryOperator', 'CompoundAssignOperator') and n.get('op') in ('=', '|=', '&='):
                t = set()
                _vars_in(fn, n['ch'][0], t)
                rhs = [(k, n['ch'][1]) for k in t]
            for (k, r) in rhs:
                ment = set()
                _vars_in(fn, r, ment)
                if any(is_check(x) for x in fn.walk(r)) or (ment & v0):
                    v0.add(k)
    rel = set(v0)
    preds = set()
    for n in fn.walk():
        c = n.get('cond')
        if c and n['k'] in ('IfStmt', 'WhileStmt', 'ForStmt', 'DoStmt', 'ConditionalOperator'):
            ment = set()
            _vars_in(fn, c, ment)
            if any(is_check(x) for x in fn.walk(c)) or (ment & v0):
                rel |= ment
                for x in fn.walk(c):
                    preds.add(fn.fp(x['id']))
    return rel, preds


class StatusClient(paths.Client):
    """auto = (added: 0/1/2 = no / maybe / yes, flag: None/True/False registered approximate flag)"""
    track = 'all'
    fork_bools = False

    def __init__(self, fn, must_add=(), may_add=()):
        self.exits = []
        self.must_add = must_add
        self.may_add = may_add
        self.relevant, self.relevant_preds = relevance(fn, lambda n: n['k'] == 'ReturnStmt' or n.get('callee') == ADD or
                                                       n.get('callee') in must_add or n.get('callee') in may_add or
                                                       (n.get('callee') or '').endswith('::setApproximate'))

    def init(self, fn):
        return (0, None)

    def on_node(self, fn, node, auto, ctx):
        c = node.get('callee')
        if c == ADD:
            a = args(fn, node)
            flag = None
            if len(a) >= 2:
                flag = ctx.eval(a[1])
                if flag is None:
                    flag = 'expr:' + nofp(fn.fp(a[1]))
            else:
                flag = 'solution-object'
            return (2, flag)
        if c in self.must_add:
            return (2, 'callee')
        if c in self.may_add and auto[0] == 0:
            return (1, 'callee')
        return auto

    def at_exit(self, fn, ret, auto, ctx):
        if ret is None or not ret['ch']:
            return
        st = status_value(ctx.run, fn, ret['ch'][0], ctx.vals)
        self.exits.append((auto, st, ret['id'], ctx.path()))


# ---------------------------------------------------------------------------------------------------------------
# temporary state pairing (E3)

ALLOC = (B + 'SpaceInformation::allocState', B + 'StateSpace::allocState', B + 'SpaceInformation::cloneState', B + 'StateSpace::cloneState')
FREE = (B + 'SpaceInformation::freeState', B + 'StateSpace::freeState')


READ_ONLY_CALLS = ('nearest', 'nearestK', 'nearestR', 'distance', 'distanceFunction', 'isSatisfied', 'isValid', 'checkMotion',
                   'sampleUniform', 'sampleUniformNear', 'sampleGoal', 'sample', 'copyState', 'interpolate', 'computeCoordinates',
                   'project', 'enforceBounds', 'equalStates', 'freeState', 'getStateSpace')


def tkey(fn, nid):
    """key of a temporary: a local variable, or a field of a local aggregate (tgi.xstate)"""
    n = fn.strip(nid)
    if n is None:
        return None
    if n['k'] == 'DeclRefExpr' and n.get('dk') == 'Local':
        return '%s#%d' % (n.get('name'), n.get('did'))
    if n['k'] == 'MemberExpr' and n.get('dk') == 'Field' and n['ch']:
        b = fn.strip(n['ch'][0])
        if b is not None and b['k'] == 'DeclRefExpr' and b.get('dk') == 'Local' and '*' not in (b.get('ty') or '') and '&' not in (b.get('ty') or ''):
            return fn.fp(n['id'])
    return None


class TempStates(paths.Client):
    """auto = frozenset of live temporaries (locals assigned from allocState and not handed over).
    Path-insensitive on purpose: the repository frees its temporaries unconditionally at the function's end, so the only
    way to miss the free is a control-flow exit in between, which needs no valuation to see."""
    track = 'none'

    def __init__(self, fn):
        self.leaks = []
        self.double = []
        self.allocs = 0
        self.locals_ = set()
        for n in fn.walk():
            if n['k'] == 'DeclStmt':
                for d in n.get('decls', []):
                    if d.get('init') and (fn.strip(d['init']) or {}).get('callee') in ALLOC:
                        self.locals_.add('%s#%d' % (d['name'], d['did']))
            if n['k'] == 'BinaryOperator' and n.get('op') == '=' and (fn.strip(n['ch'][1]) or {}).get('callee') in ALLOC:
                t = fn.strip(n['ch'][0])
                if t is not None and t['k'] == 'DeclRefExpr' and t.get('dk') == 'Local' and '&' not in (t.get('ty') or '') \
                        and not any(a['k'] == 'CXXForRangeStmt' and '%s#%d' % (t['name'], t['did']) in
                                    ['%s#%d' % (d['name'], d['did']) for d in fn.nodes[a['var']].get('decls', [])]
                                    for a in fn.ancestors(n['id'])):
                    self.locals_.add('%s#%d' % (t['name'], t['did']))
            if n['k'] == 'BinaryOperator' and n.get('op') == '=' and (fn.strip(n['ch'][1]) or {}).get('callee') in ALLOC:
                t = fn.strip(n['ch'][0])
                if t is not None and t['k'] == 'MemberExpr' and tkey(fn, t['id']):
                    self.locals_.add(tkey(fn, t['id']))
        # scratch objects: T *x = new T(...) that is never handed over must be deleted on every path
        self.news = set()
        for n in fn.walk():
            if n['k'] == 'DeclStmt':
                for d in n.get('decls', []):
                    if d.get('init') and (fn.strip(d['init']) or {}).get('k') == 'CXXNewExpr':
                        self.news.add('%s#%d' % (d['name'], d['did']))
        if self.news:
            esc = set()
            for n in fn.walk():
                if n['k'] in ('BinaryOperator', 'CXXOperatorCallExpr') and (n.get('op') == '=' or n.get('oop') == '=') and len(n['ch']) >= 2:
                    r = fn.strip(n['ch'][-1])
                    if r is not None and r['k'] == 'DeclRefExpr' and '%s#%d' % (r.get('name'), r.get('did')) in self.news:
                        esc.add('%s#%d' % (r['name'], r['did']))
                    l = fn.strip(n['ch'][0])
                    if l is not None and l['k'] == 'DeclRefExpr' and '%s#%d' % (l.get('name'), l.get('did')) in self.news and \
                            (fn.strip(n['ch'][-1]) or {}).get('k') != 'CXXNewExpr':
                        esc.add('%s#%d' % (l['name'], l['did']))      # re-pointed at something else: not a pure scratch object
                if n['k'] == 'DeclStmt':
                    for d in n.get('decls', []):
                        r = fn.strip(d['init']) if d.get('init') else None
                        if r is not None and r['k'] == 'DeclRefExpr' and '%s#%d' % (r.get('name'), r.get('did')) in self.news:
                            esc.add('%s#%d' % (r['name'], r['did']))
                if n['k'] == 'ReturnStmt' and n['ch']:
                    for x in fn.walk(n['ch'][0]):
                        if x['k'] == 'DeclRefExpr' and '%s#%d' % (x.get('name'), x.get('did')) in self.news:
                            esc.add('%s#%d' % (x['name'], x['did']))
                if n.get('callee') and n['callee'].split('::')[-1] not in READ_ONLY_CALLS:
                    for a in args(fn, n):
                        r = fn.strip(a)
                        if r is not None and r['k'] == 'DeclRefExpr' and '%s#%d' % (r.get('name'), r.get('did')) in self.news:
                            esc.add('%s#%d' % (r['name'], r['did']))
                if n['k'] in ('LambdaExpr', 'InitListExpr', 'CXXConstructExpr'):
                    for x in fn.walk(n['id']):
                        if x['id'] != n['id'] and x['k'] == 'DeclRefExpr' and '%s#%d' % (x.get('name'), x.get('did')) in self.news and \
                                n['k'] != 'CXXConstructExpr':
                            esc.add('%s#%d' % (x['name'], x['did']))
                if n['k'] == 'LambdaExpr':
                    for c in n.get('caps', []):
                        if c.get('name') and '%s#%d' % (c['name'], c['did']) in self.news:
                            esc.add('%s#%d' % (c['name'], c['did']))
            self.news -= esc
        # a local that escapes (stored to a field, passed to a non-free call as owner, returned) is not a pure temporary
        self.escapes = set()
        for n in fn.walk():
            if n['k'] == 'BinaryOperator' and n.get('op') == '=':
                r = fn.strip(n['ch'][1])
                l = fn.strip(n['ch'][0])
                if r is not None and r['k'] == 'DeclRefExpr' and '%s#%d' % (r.get('name'), r.get('did')) in self.locals_ and \
                        l is not None and l['k'] in ('MemberExpr', 'ArraySubscriptExpr'):
                    self.escapes.add('%s#%d' % (r['name'], r['did']))
            if n['k'] == 'ReturnStmt' and n['ch']:
                r = fn.strip(n['ch'][0])
                if r is not None and r['k'] == 'DeclRefExpr' and '%s#%d' % (r.get('name'), r.get('did')) in self.locals_:
                    self.escapes.add('%s#%d' % (r['name'], r['did']))
            if n.get('callee') and n['callee'].split('::')[-1] in ('push_back', 'emplace_back', 'append', 'add', 'addStartState', 'insert'):
                for a in args(fn, n):
                    r = fn.strip(a)
                    if r is not None and r['k'] == 'DeclRefExpr' and '%s#%d' % (r.get('name'), r.get('did')) in self.locals_:
                        self.escapes.add('%s#%d' % (r['name'], r['did']))
            if n['k'] == 'LambdaExpr':
                for c in n.get('caps', []):
                    if c.get('name') and '%s#%d' % (c['name'], c['did']) in self.locals_:
                        self.escapes.add('%s#%d' % (c['name'], c['did']))
        self.track_ = (self.locals_ - self.escapes) | self.news

    def init(self, fn):
        return frozenset()

    def on_node(self, fn, node, auto, ctx):
        k = node['k']
        if k == 'DeclStmt':
            for d in node.get('decls', []):
                kk = '%s#%d' % (d['name'], d['did'])
                if kk in self.track_ and d.get('init') and (fn.strip(d['init']) or {}).get('callee') in ALLOC:
                    self.allocs += 1
                    auto = auto | {kk}
                if kk in self.news and d.get('init') and (fn.strip(d['init']) or {}).get('k') == 'CXXNewExpr':
                    self.allocs += 1
                    auto = auto | {kk}
        elif k == 'BinaryOperator' and node.get('op') == '=':
            kk = tkey(fn, node['ch'][0])
            if kk in self.track_ and (fn.strip(node['ch'][1]) or {}).get('callee') in ALLOC:
                self.allocs += 1
                auto = auto | {kk}
        elif k == 'CXXDeleteExpr' and node['ch']:
            kk = tkey(fn, node['ch'][0])
            if kk in self.news:
                if kk not in auto:
                    self.double.append((kk, node['id'], ctx.path()))
                auto = auto - {kk}
        elif node.get('callee') in FREE:
            a = args(fn, node)
            kk = tkey(fn, a[0]) if a else None
            if kk in self.track_:
                if kk not in auto:
                    self.double.append((kk, node['id'], ctx.path()))
                auto = auto - {kk}
        return auto

    def at_exit(self, fn, ret, auto, ctx):
        if auto:
            self.leaks.append((sorted(auto), ret['id'] if ret else None, ctx.path()))
