"""C02 -- control planners' solutions replay through the propagator (structural clauses).

R02a step-count provenance: the steps stored in a tree node / returned by a directed control sampler are the count that
     propagateWhileValid (or sampleTo) actually returned, never the requested count
R02c path triples: PathControl::append(state, control, duration) takes state and control from one node and the duration
     is that node's steps x propagation step size
R02d propagateWhileValid: every propagated state is validated before it can become the result; the returned count is the
     number of validated steps
R02e controls are drawn with uniformReal(low[i], high[i]) for every component
R02f the node whose state satisfied the goal is recorded as the solution before the search loop is left
R02g parallel solution arrays (states / controls / steps) are cleared together
R02s status <-> registration for control planners (shared engine with C03/R03a)
"""
import re
from engine import facts, paths, lin
from engine.facts import AnalysisBroken, src
from engine.shape import key, args, pkey, for_loop
from rules import planners as P
from rules import c03
from rules.planners import B, nofp

C = 'ompl::control::'
PROP_SOURCES = (C + 'SpaceInformation::propagateWhileValid', C + 'DirectedControlSampler::sampleTo',
                C + 'SimpleDirectedControlSampler::getBestControl', C + 'SimpleDirectedControlSampler::sampleTo',
                C + 'SteeredControlSampler::sampleTo')
STEP_EXCEPTIONS = {
    (C + 'KPIECE1::solve', 'steps#1'): 'nextIndex - index + 1: a sub-range of the state vector filled by the vector overload of '
                                      'propagateWhileValid (cd states), split at cell boundaries by findNextMotion',
}


class StepTaint(paths.Client):
    """auto = frozenset of variable keys currently holding a count returned by a propagation routine"""
    track = 'none'

    def __init__(self, fn, sink):
        self.sink = sink          # (fn, node) -> value node id to check, or None
        self.res = {}
        self.paths_ = {}

    def init(self, fn):
        return frozenset()

    def _is_prop(self, fn, nid, auto):
        n = fn.strip(nid)
        if n is None:
            return False
        if n.get('callee') in PROP_SOURCES:
            return True
        if n['k'] == 'DeclRefExpr':
            return '%s#%d' % (n.get('name'), n.get('did')) in auto
        if n['k'] == 'IntegerLiteral' and n['v'] == 0:
            return True
        if n['k'] in ('CStyleCastExpr', 'CXXStaticCastExpr', 'CXXFunctionalCastExpr') and n['ch']:
            return self._is_prop(fn, n['ch'][0], auto)
        return False

    def on_node(self, fn, node, auto, ctx):
        v = self.sink(fn, node)
        if v is not None:
            ok = self._is_prop(fn, v, auto)
            if not ok:
                # `if (propagated == requested) { ... steps = requested; }` : equal to a propagated count
                vk = key(fn, v)
                for a in fn.ancestors(node['id']):
                    if a['k'] == 'IfStmt' and a.get('then') and any(z['id'] == node['id'] for z in fn.walk(a['then'])):
                        c = fn.strip(a['cond'])
                        if c is not None and c['k'] == 'BinaryOperator' and c.get('op') == '==':
                            l, r = key(fn, c['ch'][0]), key(fn, c['ch'][1])
                            if vk and ((l == vk and r in auto) or (r == vk and l in auto)):
                                ok = True
            self.res[node['id']] = self.res.get(node['id'], True) and ok
            if not ok and node['id'] not in self.paths_:
                self.paths_[node['id']] = ctx.path()
        if node['k'] == 'DeclStmt':
            for d in node.get('decls', []):
                k = '%s#%d' % (d['name'], d['did'])
                if d.get('init') and self._is_prop(fn, d['init'], auto):
                    auto = auto | {k}
                else:
                    auto = auto - {k}
        elif node['k'] == 'BinaryOperator' and node.get('op') == '=':
            k = key(fn, node['ch'][0])
            if k:
                if self._is_prop(fn, node['ch'][1], auto):
                    auto = auto | {k}
                else:
                    auto = auto - {k}
        elif node['k'] in ('CompoundAssignOperator',) or (node['k'] == 'UnaryOperator' and node.get('op') in ('++', '--')):
            k = key(fn, node['ch'][0])
            if k:
                auto = auto - {k}
        return auto


def r02a(rep, F):
    rep.rule('R02a', 'value-flow over the CFG: a variable holds a *propagated count* after being assigned the result of '
                     'propagateWhileValid / sampleTo / getBestControl (or another such variable) and loses that on any other '
                     'write; every store into a node\'s steps field in a control planner and every count returned by a '
                     'directed control sampler must be a propagated count on all paths (literal 1 per state of the vector '
                     'overload is accepted for RRT\'s intermediate states)')
    n = 0
    for f in F.functions:
        if not f.file.endswith('.cpp') or '/control/' not in f.file:
            continue
        is_sampler = f.name in (C + 'SimpleDirectedControlSampler::getBestControl', C + 'SimpleDirectedControlSampler::sampleTo',
                                C + 'SteeredControlSampler::sampleTo')
        stores = {}
        ordn = 0
        for x in f.walk():
            if x['k'] == 'BinaryOperator' and x.get('op') == '=':
                t = f.strip(x['ch'][0])
                if t is not None and t['k'] == 'MemberExpr' and t.get('name') in ('steps', 'steps_') and '/planners/' in f.file:
                    ordn += 1
                    stores[x['id']] = ('steps#%d' % ordn, x['ch'][1])
            if is_sampler and x['k'] == 'ReturnStmt' and x['ch']:
                ordn += 1
                stores[x['id']] = ('returned-count#%d' % ordn, x['ch'][0])
        if not stores:
            continue

        def sink(fn, node, stores=stores):
            s = stores.get(node.get('id'))
            return s[1] if s else None
        cl = StepTaint(f, sink)
        paths.run_function(f, cl, F)
        for sid, (role, v) in sorted(stores.items()):
            if sid not in cl.res:
                continue
            n += 1
            ok = cl.res[sid]
            vn = f.strip(v)
            if not ok and vn is not None and vn['k'] == 'IntegerLiteral' and vn['v'] == 1 and f.name == C + 'RRT::solve':
                ok = True  # one step per intermediate state of the vector overload
                det = 'one step per state returned by the vector overload of propagateWhileValid'
            elif not ok and (f.name, role) in STEP_EXCEPTIONS:
                rep.undecided('R02a', f.name, role, STEP_EXCEPTIONS[(f.name, role)])
                continue
            else:
                det = 'the stored/returned count is what the propagation routine returned' if ok else \
                    'the count %s is not the value returned by propagateWhileValid / sampleTo on every path (e.g. the *requested* ' \
                    'number of steps): when an obstacle truncates the motion the recorded duration no longer reproduces the stored ' \
                    'state' % nofp(f.fp(v))
            rep.add('R02a', f.name, role, ok, f.where(sid), det, cl.paths_.get(sid))
    rep.require_count('R02a', 'step-count sinks', n, 9)


APPEND_EXCEPTIONS = {
    C + 'PDST::solve': 'PDST motions store start/end states; durations are recomputed per motion by findDurationAndAncestor',
    C + 'LTLProblemDefinition::getLowerSolutionPath': 'projects an already assembled path triple by triple (getState/getControl/getControlDuration of index i)',
}


def r02c(rep, F):
    rep.rule('R02c', 'every 3-argument PathControl::append in a planner: state and control come from the same node (or from '
                     'parallel arrays at indices i and i-1 by the documented convention) and the duration is <that node>.steps * '
                     'getPropagationStepSize()')
    n = 0
    for f in F.functions:
        if not f.file.endswith('.cpp') or '/control/planners/' not in f.file:
            continue
        for c in f.walk():
            if c.get('callee') != C + 'PathControl::append' or len(args(f, c)) != 3:
                continue
            if f.name in APPEND_EXCEPTIONS:
                rep.undecided('R02c', f.name, 'append#%d' % f.line(c), APPEND_EXCEPTIONS[f.name])
                continue
            n += 1
            s, ctl, d = [nofp(f.fp(a)) for a in args(f, c)]
            dn = f.strip(args(f, c)[2])
            if dn is not None and dn['k'] == 'DeclRefExpr' and dn.get('dk') == 'Local':
                inits = [dd['init'] for ds in f.walk() if ds['k'] == 'DeclStmt' for dd in ds['decls']
                         if '%s#%d' % (dd['name'], dd['did']) == '%s#%d' % (dn['name'], dn['did']) and dd.get('init')]
                if len(inits) == 1:
                    d = nofp(f.fp(inits[0]))
            why = None
            m = re.match(r'^(.*)\.(state|state_)$', s)
            if m:
                node = m.group(1)
                if not re.match(r'^%s\.(control|control_)$' % re.escape(node), ctl):
                    why = 'state is taken from %s but the control from %s' % (node, ctl)
                elif not re.search(r'%s\.(steps|steps_)' % re.escape(node), d) or 'getPropagationStepSize' not in d:
                    why = 'the duration %s is not %s.steps * getPropagationStepSize()' % (d, node)
            else:
                # parallel arrays: states[i], controls[i-1], steps[i-1] * stepSize
                mi = re.search(r'operator\[\]\((this\.\w+),(\w+)\)', s)
                ok = mi and re.search(r'operator\[\]\(this\.\w*[Cc]ontrols\w*,\(%s - 1\)\)' % re.escape(mi.group(2)), ctl) and \
                    re.search(r'operator\[\]\(this\.\w*[Ss]teps\w*,\(%s - 1\)\)' % re.escape(mi.group(2)), d) and 'getPropagationStepSize' in d
                if not ok:
                    why = 'append(%s, %s, %s) does not take the triple of one motion' % (s, ctl, d)
            rep.add('R02c', f.name, 'append#%d' % f.line(c), why is None, f.where(c), why or 'state, control and steps*stepSize of the same node')
    rep.require_count('R02c', '3-argument append sites', n, 6)


class PropagateClient(paths.Client):
    """single-state propagateWhileValid: auto = frozenset of state keys written by propagate and not yet validated"""
    fork_bools = True

    def __init__(self):
        self.bad = []

    def init(self, fn):
        return frozenset()

    def on_node(self, fn, node, auto, ctx):
        c = node.get('callee') or ''
        if c.endswith('StatePropagator::propagate'):
            a = args(fn, node)
            k = nofp(fn.fp(a[3]))
            return auto | {('dirty', k)}
        if c == 'std::swap' and len(node['ch']) == 2:
            a, b = nofp(fn.fp(node['ch'][0])), nofp(fn.fp(node['ch'][1]))
            out = set()
            for x in auto:
                if len(x) >= 2 and x[1] == a:
                    out.add((x[0], b) + tuple(x[2:]))
                elif len(x) >= 2 and x[1] == b:
                    out.add((x[0], a) + tuple(x[2:]))
                else:
                    out.add(x)
            return frozenset(out)
        if c.endswith('::isValid') and args(fn, node):
            k = nofp(fn.fp(args(fn, node)[0]))
            return frozenset([x for x in auto if x != ('dirty', k)] + ([('pending', k, node['id'])] if ('dirty', k) in auto else []))
        return auto

    def learn(self, fn, node, value, auto, ctx):
        if (node.get('callee') or '').endswith('::isValid'):
            out = set()
            for x in auto:
                if x[0] == 'pending' and x[2] == node['id']:
                    if not value:
                        out.add(('invalid', x[1]))
                else:
                    out.add(x)
            return frozenset(out)
        return auto

    def at_exit(self, fn, ret, auto, ctx):
        unchecked = [x for x in auto if x[0] in ('dirty', 'pending')]
        if unchecked:
            self.bad.append((unchecked, ctx.path()))


def r02d(rep, F):
    rep.rule('R02d', 'propagateWhileValid (single-state form): every state written by statePropagator_->propagate is passed to '
                     'isValid before the function returns (no propagated-but-unchecked state can be the result); the count '
                     'returned after a failed step i is i (the loop index), the full count otherwise, 0 when the first step fails')
    fn = F.one(C + 'SpaceInformation::propagateWhileValid', sig_contains='int, base::State *) const')
    cl = PropagateClient()
    paths.run_function(fn, cl, F)
    rep.add('R02d', fn.name, 'validate-before-result', not cl.bad, fn.loc,
            'a path returns while %s was propagated but never validated' % [x[1] for x in cl.bad[0][0]] if cl.bad else
            'every propagated state is validated on every path', cl.bad[0][1] if cl.bad else None)
    fors = [x for x in fn.walk() if x['k'] == 'ForStmt']
    why = None
    if len(fors) != 1:
        raise AnalysisBroken('R02d: step loop not found')
    idx, start, cond, stride = for_loop(fn, fors[0])
    st = [x for x in fn.walk(fors[0]['body']) if x['k'] == 'BinaryOperator' and x.get('op') == '=' and (fn.strip(x['ch'][0]) or {}).get('k') == 'DeclRefExpr']
    rk = None
    for ds in [x for x in fn.walk() if x['k'] == 'DeclStmt']:
        for d in ds['decls']:
            if d['name'] == 'r' or (d.get('init') and key(fn, d['init']) == pkey(fn, 2) and d['ty'].startswith('unsigned')):
                rk = '%s#%d' % (d['name'], d['did'])
                rinit = d.get('init')
    stp = pkey(fn, 2)
    if start != {1: 1} or stride != 1 or cond != ('le0', lin.canon({idx: 1, stp: -1, 1: 1})):
        why = 'the remaining steps are not i = 1 .. steps-1'
    elif rk is None or lin.lin(fn, rinit) != {stp: 1}:
        why = 'the returned count does not start as the requested count'
    else:
        fail = [x for x in st if key(fn, x['ch'][0]) == rk]
        if len(fail) != 1 or lin.lin(fn, fail[0]['ch'][1]) != {idx: 1}:
            why = 'after a failed step the returned count is not the number of validated steps (r = i)'
        elif not any(y['k'] == 'BreakStmt' for y in fn.walk(fors[0]['body'])):
            why = 'the loop does not stop at the first invalid step'
        rets = [r for r in fn.walk() if r['k'] == 'ReturnStmt' and r['ch']]
        if why is None and not any(key(fn, r['ch'][0]) == rk for r in rets):
            why = 'the count of validated steps is not what is returned'
    rep.add('R02d', fn.name, 'returned-count', why is None, fn.loc, why or 'r = steps, r = i at the first invalid step i, 0 if the first step is invalid')
    # vector overload: each stored state is validated before the index advances
    fv = F.one(C + 'SpaceInformation::propagateWhileValid', sig_contains='std::vector')
    cl = PropagateClient()
    paths.run_function(fv, cl, F)
    rets = [r for r in fv.walk() if r['k'] == 'ReturnStmt' and r['ch']]
    rep.add('R02d', fv.name + '(vector)', 'validate-before-result', not [b for b in cl.bad if any(x[0] == 'dirty' for x in b[0])], fv.loc,
            'a propagated state is kept without validation' if [b for b in cl.bad if any(x[0] == 'dirty' for x in b[0])] else
            'every propagated state is validated before it is kept')


def r02e(rep, F):
    rep.rule('R02e', 'RealVectorControlUniformSampler::sample: one loop over every dimension assigning values[i] = '
                     'uniformReal(bounds.low[i], bounds.high[i]) with the same index in all three places')
    fn = F.one(C + 'RealVectorControlUniformSampler::sample')
    fors = [x for x in fn.walk() if x['k'] == 'ForStmt']
    why = None
    if len(fors) != 1:
        raise AnalysisBroken('R02e: loop not found')
    env = lin.local_env(fn)
    idx, start, cond, stride = for_loop(fn, fors[0])
    draws = [c for c in fn.walk(fors[0]['body']) if (c.get('callee') or '').endswith('RNG::uniformReal')]
    dimok = cond is not None and cond[0] == 'le0' and any('dim' in k or 'Dimension' in k for k, v in cond[1] if v == -1)
    if start != {1: 0} or stride != 1 or not dimok:
        why = 'the loop does not cover every control dimension'
    elif len(draws) != 1:
        why = 'not exactly one draw per dimension'
    else:
        lo, hi = [nofp(fn.fp(a)) for a in args(fn, draws[0])]
        i = nofp(idx)
        if not (re.fullmatch(r'std::vector::operator\[\]\(bounds\.low,%s\)' % re.escape(i), lo) and
                re.fullmatch(r'std::vector::operator\[\]\(bounds\.high,%s\)' % re.escape(i), hi)):
            why = 'the draw is uniformReal(%s, %s), not (low[i], high[i])' % (lo, hi)
        else:
            st = [x for x in fn.walk(fors[0]['body']) if x['k'] == 'BinaryOperator' and x.get('op') == '=']
            if len(st) != 1 or not re.search(r'values\[%s\]' % re.escape(i), nofp(fn.fp(st[0]['ch'][0]))):
                why = 'the drawn value is not stored in values[i]'
    rep.add('R02e', fn.name, 'within-bounds-draw', why is None, fn.loc, why or 'values[i] = uniformReal(low[i], high[i]) for every i')


class MustRecord(paths.Client):
    """after goal->isSatisfied(M.state) was learned true, M must be stored into a node pointer before the test is evaluated
    again or the function is left"""
    fork_bools = True

    def __init__(self, fn, call):
        self.call = call
        a = args(fn, call)
        x = fn.strip(a[0])
        self.M = nofp(fn.fp(x['ch'][0]))
        self.bad = []
        self.relevant, self.relevant_preds = P.verdict_relevance(fn, lambda n: n.get('id') == call['id'])

    def init(self, fn):
        return None           # None: verdict not known on this path; 'pending'; 'recorded'

    def on_node(self, fn, node, auto, ctx):
        if node.get('id') == self.call['id']:
            if auto == 'pending':
                self.bad.append(ctx.path())
            return None       # a new evaluation of the test starts a new obligation
        if auto == 'pending' and node['k'] == 'BinaryOperator' and node.get('op') == '=':
            t = fn.strip(node['ch'][0])
            if t is not None and '*' in (t.get('ty') or '') and re.search(r'Motion', t.get('ty') or '') and \
                    not (t['k'] == 'MemberExpr' and t.get('name') in ('parent', 'parent_')) and nofp(fn.fp(node['ch'][1])) == self.M:
                return 'recorded'
        if auto == 'pending' and (node.get('callee') or '').split('::')[-1] in ('push_back', 'emplace_back', 'insert') and \
                any(nofp(fn.fp(a)) == self.M for a in args(fn, node)) and 'this.' in nofp(fn.fp(node['ch'][0])):
            return 'recorded'      # optimizing planners keep a member list of goal nodes
        return auto

    def learn(self, fn, node, value, auto, ctx):
        if node.get('id') == self.call['id'] and value is True and auto is None:
            return 'pending'
        return auto

    def at_exit(self, fn, ret, auto, ctx):
        if auto == 'pending':
            self.bad.append(ctx.path())


RECORD_EXCEPTIONS = {
    C + 'SST::solve': 'optimizing planner: a goal-satisfying node is recorded only when it improves on the exact solution already held',
    'ompl::geometric::SST::solve': 'optimizing planner: a goal-satisfying node is recorded only when it improves on the exact solution already held',
}


def r02f(rep, F, files_pat='/control/planners/', rule='R02f', frozen=5):
    rep.rule(rule, 'on every path on which goal->isSatisfied(M->state) was true, M is stored as the solution node before the test '
                   'is evaluated again or the function returns -- otherwise an exact status is reported for a path that ends '
                   'at an earlier best-so-far node')
    n = 0
    for f in F.functions:
        if not f.file.endswith('.cpp') or files_pat not in f.file or not f.name.endswith(('::solve', '::threadSolve')):
            continue
        for c in f.walk():
            if not ((c.get('callee') or '').endswith('::isSatisfied') and 'Goal' in c['callee']):
                continue
            x = f.strip(args(f, c)[0])
            if x is None or x['k'] != 'MemberExpr' or x.get('name') not in ('state', 'state_', 'endState_'):
                continue
            M = nofp(f.fp(x['ch'][0]))
            recs = [y for y in f.walk() if y['k'] == 'BinaryOperator' and y.get('op') == '=' and nofp(f.fp(y['ch'][1])) == M and
                    re.search(r'Motion', (f.strip(y['ch'][0]) or {}).get('ty') or '') and
                    not ((f.strip(y['ch'][0]) or {}).get('k') == 'MemberExpr' and (f.strip(y['ch'][0])).get('name') in ('parent', 'parent_'))]
            if not recs:
                continue
            if f.name in RECORD_EXCEPTIONS:
                rep.undecided(rule, f.name, 'goal-node-recorded#%d' % f.line(c), RECORD_EXCEPTIONS[f.name])
                continue
            n += 1
            cl = MustRecord(f, c)
            paths.run_function(f, cl, F)
            rep.add(rule, f.name, 'goal-node-recorded#%d' % f.line(c), not cl.bad, f.where(c),
                    'a path on which %s satisfied the goal leaves without recording it as the solution node' % M if cl.bad else
                    'the satisfying node is recorded on every such path', cl.bad[0] if cl.bad else None)
    rep.require_count(rule, 'goal tests with recorded nodes', n, frozen)


def r02g(rep, F):
    rep.rule('R02g', 'parallel solution arrays (prevSolution_, prevSolutionControls_, prevSolutionSteps_): every block that clears '
                     'one clears all three, so indices keep corresponding to one motion')
    n = 0
    for f in F.functions:
        if f.record != C + 'SST':
            continue
        for blk in [x for x in f.walk() if x['k'] == 'CompoundStmt']:
            cleared = set()
            for c in blk['ch']:
                cn = f.nodes.get(c)
                if cn is not None and cn.get('callee') == 'std::vector::clear':
                    m = re.match(r'^this\.(prevSolution\w*)$', nofp(f.fp(cn['ch'][0])))
                    if m:
                        cleared.add(m.group(1))
            if not cleared:
                continue
            n += 1
            want = {'prevSolution_', 'prevSolutionControls_', 'prevSolutionSteps_'}
            rep.add('R02g', f.name, 'cleared-together#%d' % f.line(blk), cleared == want, f.where(blk),
                    'all three arrays cleared' if cleared == want else
                    '%s cleared but %s keeps its old entries: steps/controls of an earlier solution are paired with the new states' % (
                        sorted(cleared), sorted(want - cleared)))
    rep.require_count('R02g', 'blocks clearing the solution arrays', n, 4)


def r02h(rep, F):
    rep.rule('R02h', 'sibling agreement in PathControl: every conversion of a stored control duration into a step count '
                     '(controlDurations_[i] / res in interpolate, check and print) rounds to the nearest integer, floor(0.5 + d / res); '
                     'durations are k * stepSize in floating point, and a truncating cast turns k into k - 1 whenever the quotient lands '
                     'just below k, so the replayed segment stops one step short of the recorded next state')
    n = 0
    for f in F.functions:
        if f.record != C + 'PathControl' or not f.body:
            continue
        for x in f.walk():
            if x['k'] != 'BinaryOperator' or x.get('op') != '/' or 'controlDurations_' not in f.fp(x['ch'][0]):
                continue
            n += 1
            ok = False
            prev = x['id']
            for a in f.ancestors(x['id']):
                if a['k'] in ('ParenExpr', 'ImplicitCastExpr'):
                    prev = a['id']
                    continue
                if a['k'] == 'BinaryOperator' and a.get('op') == '+':
                    other = [c for c in a['ch'] if c != prev]
                    o = f.strip(other[0]) if other else None
                    if o is not None and o['k'] == 'FloatingLiteral' and abs(float(o['v']) - 0.5) < 1e-12:
                        par = next((b for b in f.ancestors(a['id']) if b['k'] not in ('ParenExpr', 'ImplicitCastExpr')), None)
                        if par is not None and (par.get('callee') or '').split('::')[-1] == 'floor':
                            ok = True
                break
            rep.add('R02h', f.name, 'steps-from-duration#%d' % f.line(x), ok, f.where(x), 'floor(0.5 + duration / stepSize)' if ok else
                    'the step count is obtained from duration / stepSize without rounding to nearest (the sibling conversions in this class use '
                    'floor(0.5 + .)): k * stepSize / stepSize can be k - epsilon')
    rep.require_count('R02h', 'duration-to-steps conversions', n, 3)


def r02i(rep, F):
    rep.rule('R02i', 'control::SpaceInformation advances the system only in propagation steps: every call of StatePropagator::propagate in '
                     'its propagate / propagateWhileValid overloads passes +stepSize_ or -stepSize_ (directly or through a local whose '
                     'every definition selects between the two) as the duration -- never a multiple.  Planners and PathControl replay '
                     'k steps as k calls; one call of k * stepSize follows a different trajectory for any non-additive propagator')
    n = 0
    for f in F.functions:
        if f.record != C + 'SpaceInformation' or not f.body:
            continue
        defs = {}
        for x in f.walk():
            if x['k'] == 'DeclStmt':
                for d in x.get('decls', []):
                    if d.get('init'):
                        defs.setdefault('%s#%d' % (d['name'], d['did']), []).append(d['init'])
            elif x['k'] == 'BinaryOperator' and x.get('op') == '=' and key(f, x['ch'][0]):
                defs.setdefault(key(f, x['ch'][0]), []).append(x['ch'][1])

        def unit(nid, depth=0):
            e = f.strip(nid)
            if e is None or depth > 4:
                return False
            if e['k'] == 'MemberExpr' and e.get('name') == 'stepSize_':
                return True
            if e['k'] == 'UnaryOperator' and e.get('op') == '-':
                return unit(e['ch'][0], depth + 1)
            if e['k'] == 'ConditionalOperator':
                return unit(e['ch'][1], depth + 1) and unit(e['ch'][2], depth + 1)
            if e['k'] == 'DeclRefExpr' and e.get('dk') == 'Local':
                ds = defs.get('%s#%d' % (e['name'], e['did']), [])
                return bool(ds) and all(unit(d, depth + 1) for d in ds)
            return False
        for c in f.walk():
            if (c.get('callee') or '').endswith('StatePropagator::propagate') and len(args(f, c)) >= 4:
                n += 1
                ok = unit(args(f, c)[2])
                rep.add('R02i', f.name, 'one-step-duration#%d' % f.line(c), ok, f.where(c), 'duration is +/- stepSize_' if ok else
                        'the propagator is called with duration %s, not with one propagation step: the result is not the state that '
                        'step-by-step replay reaches' % nofp(f.fp(args(f, c)[2])))
    rep.require_count('R02i', 'propagator calls in control::SpaceInformation', n, 8)


def r02j(rep, F):
    rep.rule('R02j', 'control PDST keeps its motions replayable when it splits them across cells and when it recomputes durations: '
                     'PDST::addMotion is interpreted over an abstract trajectory (states are step indices 0..D of one control, D = 1..5; '
                     'the cell of every state comes from every script over two cells) and afterwards the pieces linked through parent_ '
                     'form one contiguous chain from step 0 to step D whose stored durations equal end - start step, sum to D, and every '
                     'piece was added to exactly one cell; PDST::findDurationAndAncestor, interpreted on every such chain, returns for '
                     'every step k of the chain the number of steps from the start of the (merged, same-control) ancestor it reports')
    from engine import obj
    import itertools
    PD_ = C + 'PDST::'
    am = [g for g in F.by_name.get(PD_ + 'addMotion', []) if g.body]
    fda = [g for g in F.by_name.get(PD_ + 'findDurationAndAncestor', []) if g.body]
    if not am or not fda:
        raise AnalysisBroken('R02j: control PDST::addMotion / findDurationAndAncestor vanished')
    am, fda = am[0], fda[0]

    # structural clause: "this motion continues its parent" (a split piece) is decided by the IDENTITY of the control object the pieces share,
    # never by its value: a child that branched off with a freshly sampled control of equal value (any discrete control space) is a new motion
    fda = F.one(C + 'PDST::findDurationAndAncestor')
    conds = [x for x in fda.walk() if x['k'] in ('WhileStmt', 'ForStmt') and x.get('cond') and 'control_' in fda.fp(x['cond'])]
    if not conds:
        raise AnalysisBroken('R02j: the continuation test of findDurationAndAncestor was not found')
    byvalue = [c for c in fda.walk(conds[0]['cond']) if (c.get('callee') or '').endswith('::equalControls')]
    ident = [x for x in fda.walk(conds[0]['cond']) if x['k'] == 'BinaryOperator' and x.get('op') == '==' and 'control_' in fda.fp(x['ch'][0]) and
             'control_' in fda.fp(x['ch'][1])]
    rep.add('R02j', fda.name, 'continuation-by-identity', bool(ident) and not byvalue, fda.where(conds[0]),
            'a piece continues its parent iff both hold the same control object' if ident and not byvalue else
            'the continuation test compares control VALUES (equalControls): a child that branched off with an equal-valued fresh control is merged '
            'with its parent into one segment of summed duration, and the replayed path leaves the recorded states')
    def mk_hooks(script, cells, log):
        def default(_):
            return None

        def call(it, n, env):
            c = n.get('callee') or ''
            short = c.split('::')[-1]
            a = args(it.fn, n) if n['k'] == 'CXXMemberCallExpr' else n['ch']
            if short == 'project' and len(a) == 2:
                st_, pj = it.ev(a[0], env), it.ev(a[1], env)
                pj['of'] = st_
                return None
            if short == 'stab':
                pj = it.ev(a[0], env)
                if not isinstance(pj.get('of'), int) or not (0 <= pj['of'] < len(script)):
                    raise AnalysisBroken('R02j: projection of a state outside the trajectory (%r)' % (pj.get('of'),))
                return cells[script[pj['of']]]
            if c.endswith('Cell::addMotion'):
                cell = it.ev(n['ch'][0], env)
                mo = it.ev(a[0], env)
                cell['motions'].append(mo)
                log.append(mo)
                mo['cell_'] = cell
                return None
            if short == 'updateHeapElement':
                return None
            if short == 'copyState' and len(a) == 2:
                dst = it.fn.strip(a[0])
                k_ = it.lkey(dst)
                if k_ is None:
                    raise AnalysisBroken('R02j: copyState into a non-local')
                env[k_] = it.ev(a[1], env)
                return None
            if short == 'cloneState':
                return it.ev(a[0], env)
            if short == 'cloneControl':
                return it.ev(a[0], env)
            if short == 'equalControls' and len(a) == 2:
                return it.ev(a[0], env) == it.ev(a[1], env)
            if short == 'propagate' and len(a) == 4:
                frm, ctl, steps = it.ev(a[0], env), it.ev(a[1], env), it.ev(a[2], env)
                out = it.fn.strip(a[3])
                k_ = it.lkey(out)
                if k_ is None or not isinstance(frm, int):
                    raise AnalysisBroken('R02j: propagate from / into an unrecognised state')
                env[k_] = frm + steps
                log.append(('prop', ctl))
                return None
            if short == 'distance' and len(a) == 2:
                x, y = it.ev(a[0], env), it.ev(a[1], env)
                if isinstance(x, int) and isinstance(y, int):
                    return abs(x - y)
                raise AnalysisBroken('R02j: distance between unrecognised states')
            if c.endswith('DenseBase::swap') or short == 'swap' and 'Eigen' in c:
                p0, p1 = it.ev(n['ch'][0], env), it.ev(a[0], env)
                p0['of'], p1['of'] = p1.get('of'), p0.get('of')
                return None
            if c.endswith('numeric_limits::epsilon'):
                from fractions import Fraction
                return Fraction(1, 1000)
            return NotImplemented
        return {'default': default, 'call': call}

    def chain_of(mo, root):
        out = []
        cur = mo
        guard = 0
        while cur is not None and cur is not root and guard < 20:
            out.append(cur)
            cur = cur.get('parent_')
            guard += 1
        return list(reversed(out)), cur

    bad = None
    bad2 = None
    runs = runs2 = 0
    for D in range(1, 6):
        for script in itertools.product((0, 1), repeat=D + 1):
            cells = {0: obj.Ref(motions=[], id=0), 1: obj.Ref(motions=[], id=1)}
            log = []
            hooks = mk_hooks(script, cells, log)
            root = obj.Ref(startState_=-1, endState_=0, control_=('u', 0), controlDuration_=1, priority_=1, parent_=None, cell_=None, heapElement_=None, isSplit_=False)
            mo = obj.Ref(startState_=0, endState_=D, control_=('u', 1), controlDuration_=D, priority_=2, parent_=root, cell_=None, heapElement_=None, isSplit_=False)
            it = obj.ObjInterp(F, am, this=obj.Ref(projectionEvaluator_=('pe',), si_=('si',), siC_=('siC',), priorityQueue_=('pq',)), hooks=hooks)
            names = ['%s#%d' % (p_['name'], p_['did']) for p_ in am.params]
            env = dict(zip(names, [mo, obj.Ref(name='bsp'), ('scratch', 1), ('scratch', 2), obj.Ref(of=None), obj.Ref(of=None)]))
            it.run(env)
            runs += 1
            pieces, end = chain_of(mo, root)
            msg = None
            if end is not root:
                msg = 'the pieces no longer chain back to the motion\'s original parent'
            elif pieces[0]['startState_'] != 0 or pieces[-1]['endState_'] != D or pieces[-1] is not mo:
                msg = 'the chain runs from step %s to step %s, not from 0 to %d' % (pieces[0]['startState_'], pieces[-1]['endState_'], D)
            else:
                for a_, b_ in zip(pieces, pieces[1:]):
                    if a_['endState_'] != b_['startState_']:
                        msg = 'piece ending at step %s is followed by a piece starting at step %s' % (a_['endState_'], b_['startState_'])
                for pc in pieces:
                    if pc['endState_'] - pc['startState_'] != pc['controlDuration_']:
                        msg = msg or 'a piece from step %s to step %s stores a duration of %s steps' % (pc['startState_'], pc['endState_'], pc['controlDuration_'])
                    if len([1 for x in log if x is pc]) != 1:
                        msg = msg or 'a piece is added to %d cells' % len([1 for x in log if x is pc])
                    if pc['control_'] != ('u', 1):
                        msg = msg or 'a piece carries another control than the motion it was split from'
            if msg and bad is None:
                bad = 'D = %d, cells of the states %s: %s' % (D, list(script), msg)
            if msg:
                continue
            # durations recomputed from the chain
            for k in range(0, D + 1):
                for start_piece in pieces:
                    if not (start_piece['startState_'] <= k <= start_piece['endState_']):
                        continue
                    # the planner asks a motion that has been split since: start the search at the last piece (the original object)
                    it2 = obj.ObjInterp(F, fda, this=obj.Ref(si_=('si',), siC_=('siC',)), hooks=mk_hooks(script, cells, []))
                    n2 = ['%s#%d' % (p_['name'], p_['did']) for p_ in fda.params]
                    holder = {}
                    env2 = dict(zip(n2, [mo, k, ('scratch', 3), None]))
                    r, e_out = it2.run(env2)
                    runs2 += 1
                    anc = e_out.get(n2[3])
                    if not isinstance(anc, dict):
                        bad2 = bad2 or 'D = %d, cells %s, step %d: no ancestor is reported' % (D, list(script), k)
                    elif anc['startState_'] + r != k and not (k == 0 and r == 0):
                        bad2 = bad2 or 'D = %d, cells %s: for the state at step %d the reported ancestor starts at step %s and the duration is %s' % (
                            D, list(script), k, anc['startState_'], r)
                    break
    rep.add('R02j', am.name, 'split-conserves-trajectory', bad is None, am.loc, bad or 'contiguous chain with exact durations on %d abstract runs' % runs)
    rep.add('R02j', fda.name, 'duration-from-ancestor-start', bad2 is None, fda.loc, bad2 or 'duration = steps from the reported ancestor\'s start on %d abstract queries' % runs2)
    rep.require_count('R02j', 'abstract PDST runs', runs, 100)


def run(rep):
    units = P.control_units() + [src('control', 'src', 'SpaceInformation.cpp'), src('control', 'src', 'SimpleDirectedControlSampler.cpp'),
                                 src('control', 'src', 'PathControl.cpp'),
                                 src('control', 'spaces', 'src', 'RealVectorControlSpace.cpp')]
    F = facts.load_units(units)
    rep.units.update(units)
    rep.functions.update(f.key for f in F.functions if f.file.endswith('.cpp') and '/control/' in f.file)
    r02a(rep, F)
    r02c(rep, F)
    r02d(rep, F)
    r02e(rep, F)
    r02f(rep, F)
    r02g(rep, F)
    r02h(rep, F)
    r02i(rep, F)
    r02j(rep, F)
    from rules import c01
    c01.r01w(rep, F, rule='R02k', pat=('/control/planners/',), frozen=6)
    c01.r01A(rep, F, rule='R02n', pat='/control/planners/sst/')
    c03.r03y(rep, F, rule='R02p', names=('ompl::control::PDST::solve',))
    # R02m: stored controls stay replayable -- control::PlannerData::decoupleFromPlanner clones every edge control on every call (C09's R09n,
    # control clause, under C02's id)
    from rules import c09
    Fd = facts.load_units([src('base', 'src', 'PlannerData.cpp'), src('control', 'src', 'PlannerData.cpp')])
    rep.units.update([src('base', 'src', 'PlannerData.cpp'), src('control', 'src', 'PlannerData.cpp')])
    before = len(rep.obl)
    c09.r09n(rep, Fd)
    keep = [o for o in rep.obl[before:] if o['role'] == 'edge-loop-on-every-path']
    del rep.obl[before:]
    for o in keep:
        o['rule'] = 'R02m'
        rep.obl.append(o)
    rep.nontrivial = {(('R02m' if r == 'R09n' else r), fn_, role) for (r, fn_, role) in rep.nontrivial if not (r == 'R09n' and role != 'edge-loop-on-every-path')}
    rep.rule_text.pop('R09n', None)
    rep.rule('R02m', 'recorded controls stay replayable after the planner is gone: control::PlannerData::decoupleFromPlanner() reaches the loop that '
                     'clones the edge controls on every path (no early return before it), so an edge added after an earlier decoupling does not '
                     'keep pointing at planner / caller memory')
    solves = [f for f in P.solve_functions(F) if f.name.startswith(C)]
    must, may = c03.add_summaries(F)
    c03.r03a(rep, F, solves, must, may, rule='R02s', frozen=6)
