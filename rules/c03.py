"""C03 -- interrupting, resuming or clearing a planner never corrupts its result (structural clauses).

R03a a solution status is returned only on paths on which a path was registered; status flag == registered flag
R03b path assembly loops cover every extracted node including index 0 (nothing half built)
R03c clear(): chains to the base class; resets every node-pointer member that solve writes; PlannerInputStates::clear
     resets every per-query field (R03h)
R03d temporaries from allocState are freed on every path to every return (no early exit between alloc and free)
R03e the main loop of every solve consults the termination condition
R03g a data member deleted in a re-runnable function is re-assigned on all paths afterwards
R03i setProblemDefinition overrides call the base and clear the query unconditionally
"""
import re
from engine import facts, paths, lin
from engine.facts import AnalysisBroken, src
from engine.shape import key, args, pkey, for_loop
from rules import planners as P
from rules.planners import B, nofp

# status exceptions: one symbol each, with the reason (DESIGN.md C03/R03a)
STATUS_EXCEPTIONS = {
    'ompl::geometric::PDST::solve': 'answers EXACT from the goal motion kept by an earlier solve(); the early return is guarded by '
                                    'lastGoalMotion_, which is only set together with addSolutionPath (reset by clear())',
    'ompl::control::PDST::solve': 'same as geometric PDST',
    'ompl::geometric::XXL::solve': 'status is the verdict of searchForPath/constructSolutionPath, which register the path themselves',
    'ompl::geometric::BITstar::solve': 'status and publication are guarded by the same side-effect-free expression '
                                       '(hasExactSolution_ || trackApproximateSolutions) evaluated twice',
    'ompl::geometric::CForest::solve': 'status read from the problem definition itself (pdef_->hasSolution())',
    'ompl::geometric::AnytimePathShortening::solve': 'status read from the problem definition itself',
    'ompl::geometric::AITstar::solve': 'status computed by updateSolution helpers from the problem definition',
    'ompl::geometric::EITstar::solve': 'status computed by updateSolution helpers from the problem definition',
    'ompl::multilevel::BundleSpace::solve': 'abstract placeholder',
}


def add_summaries(F):
    """must-add / may-add helper functions (bound 3): every / some path to the exit registers a solution path"""
    must, may = set(), set()
    cands = [f for f in F.functions if f.file.startswith(facts.SRC) and not f.name.endswith('::solve')]
    for _ in range(3):
        changed = False
        for f in cands:
            if f.name in must:
                continue
            calls = [c for c in f.walk() if c.get('callee') == P.ADD or c.get('callee') in must or c.get('callee') in may]
            if not calls:
                continue
            if f.name not in may:
                may.add(f.name)
                changed = True

            class C(paths.Client):
                track = 'none'

                def __init__(s):
                    s.ok = True
                    s.n = 0

                def init(s, fn):
                    return False

                def on_node(s, fn, node, auto, ctx):
                    if node.get('callee') == P.ADD or node.get('callee') in must:
                        return True
                    return auto

                def at_exit(s, fn, ret, auto, ctx):
                    s.n += 1
                    s.ok = s.ok and auto
            c = C()
            try:
                paths.run_function(f, c, F)
            except AnalysisBroken:
                continue
            if c.ok and c.n:
                must.add(f.name)
                changed = True
        if not changed:
            break
    return must, may - must


def r03a(rep, F, solves, must, may, rule='R03a', frozen=38):
    rep.rule(rule, 'path-sensitive typestate over every solve(): a return whose PlannerStatus can be EXACT/APPROXIMATE is '
                     'reached only after addSolutionPath (or a helper that registers on all its paths), and the status\' '
                     'approximate component equals the registered flag when both are decided; local verdict booleans, pointer '
                     'null-ness and smart-pointer truthiness are tracked, irrelevant variables sliced away. Frozen exceptions '
                     'with reasons for planners that answer from the problem definition or from an earlier solve')
    n = 0
    for f in solves:
        if f.name in STATUS_EXCEPTIONS:
            rep.undecided(rule, f.name, 'status-vs-registration', STATUS_EXCEPTIONS[f.name])
            continue
        cl = P.StatusClient(f, must_add=must, may_add=may)
        paths.run_function(f, cl, F)
        if not cl.exits:
            raise AnalysisBroken(rule + ': no exit reached in ' + f.name)
        n += 1
        bad = None
        unk = 0
        for (auto, st, rid, p) in cl.exits:
            added, flag = auto
            sol, ap = st
            if sol is None:
                unk += 1
                continue
            if sol and added == 0:
                bad = bad or ('returns a solution status on a path that registered no solution path (line %d)' % f.line(rid), p, rid)
            if sol and added == 2 and isinstance(flag, bool) and ap is not None and flag != ap:
                bad = bad or ('path registered with approximate=%s but the returned status says approximate=%s (line %d)' % (flag, ap, f.line(rid)), p, rid)
        if unk and bad is None:
            raise AnalysisBroken(rule + ': status of %s not decided on %d exit states (unrecognised idiom)' % (f.name, unk))
        rep.add(rule, f.name, 'status-vs-registration', bad is None, f.where(bad[2]) if bad else f.loc,
                bad[0] if bad else 'status and registration agree on %d exit states' % len(cl.exits), bad[1] if bad else None,
                sample={'exit_states': len(cl.exits)})
    rep.require_count(rule, 'decided solve functions', n, frozen)


def r03b(rep, F, fns, rule='R03b', frozen=25):
    rep.rule(rule, 'every loop that appends the extracted node list to the reported path (path->append(list[i]->state ...)) '
                     'runs over all indices of the list, index 0 included, in linear normal form -- so the reported path is '
                     'never missing its first or last extracted node')
    n = 0
    for f in fns:
        for lp in [x for x in f.walk() if x['k'] == 'ForStmt']:
            apps = [c for c in f.walk(lp['body']) if (c.get('callee') or '').endswith(('PathGeometric::append', 'PathControl::append'))
                    and next((a['id'] for a in f.ancestors(c['id']) if a['k'] in ('ForStmt', 'WhileStmt', 'DoStmt', 'CXXForRangeStmt')), None) == lp['id']]
            if not apps:
                continue
            idx, start, cond, stride = for_loop(f, lp)
            env = lin.local_env(f)
            init = f.nodes.get(lp.get('init') or 0)
            if init and init['k'] == 'DeclStmt' and init['decls'] and init['decls'][0].get('init'):
                start = lin.lin(f, init['decls'][0]['init'], env)
            if lp.get('cond'):
                cond = lin.cmp_le0(f, lp['cond'], env) or cond
            if idx is None or stride not in (1, -1):
                continue
            # the appended state must be list[idx]->...
            a0 = nofp(f.fp(args(f, apps[0])[0]))
            m = re.search(r'operator\[\]\((\w+(?:\.\w+)*),%s\)' % re.escape(nofp(idx)), a0)
            if not m:
                continue
            lst = m.group(1)
            n += 1
            size = 'std::vector::size(%s)' % lst

            def nl(d):
                return {(nofp(k) if isinstance(k, str) else k): v for k, v in (d or {}).items()}
            st = nl(start)
            cd = {nofp(k): v for k, v in cond[1]} if cond else {}
            ix = nofp(idx)
            ok = False
            why = 'loop bounds not recognised'
            if stride == -1:
                lower = None
                if cond and cond[0] == 'le0' and cd.get(ix) == -1 and set(cd) <= {ix, '1'}:
                    lower = cd.get('1', 0)          # i >= lower
                if st != {size: 1, 1: -1}:
                    why = 'the loop does not start at the last extracted node (start %s)' % lin.show(start)
                elif lower == 0:
                    ok = True
                elif lower == 1:
                    # accepted idiom: index 0 (the root, which has no incoming control) appended separately after the loop
                    tail = [c for c in f.walk() if (c.get('callee') or '').endswith(('PathGeometric::append', 'PathControl::append')) and
                            re.search(r'operator\[\]\(%s,0\)' % re.escape(lst), nofp(f.fp(args(f, c)[0]))) and f.line(c) > f.line(lp)]
                    ok = bool(tail)
                    why = 'the loop stops before index 0 and the first extracted node is not appended afterwards either'
                else:
                    why = 'the loop stops before index 0: the first extracted node is not appended'
            else:
                ok = st == {1: 0} and cond is not None and cond[0] == 'le0' and cd == {ix: 1, size: -1, '1': 1}
                why = 'the loop does not run from 0 to size-1 (start %s, bound %s)' % (lin.show(start), lin.show(cond[1]) if cond else '?')
            rep.add(rule, f.name, 'assembly-loop:%s#%d' % (lst, f.line(lp)), ok, f.where(lp),
                    'appends %s[i] for every i in the list' % lst if ok else why)
    rep.require_count(rule, 'path assembly loops', n, frozen)


def r03d(rep, F, fns):
    rep.rule('R03d', 'every local obtained from allocState that is not handed over (stored, appended, captured, returned) is '
                     'released by freeState on every CFG path to every return; never released twice on one path.  The same pairing holds '
                     'for temporaries kept in a field of a local aggregate (tgi.xstate = allocState() ... freeState(tgi.xstate)) and for '
                     'scratch objects (T *x = new T(...) that is never stored, returned, captured or passed to anything but a query): '
                     'deleted on every path to every return')
    n = 0
    for f in fns:
        cl = P.TempStates(f)
        if not cl.track_:
            continue
        paths.run_function(f, cl, F)
        if not cl.allocs:
            continue
        n += 1
        if cl.leaks:
            l = cl.leaks[0]
            rep.add('R03d', f.name, 'temp-state-pairing', False, f.where(l[1]) if l[1] else f.loc,
                    'a path returns with the temporary state(s) %s still allocated (early exit between allocState and '
                    'freeState)' % [nofp(x) for x in l[0]], l[2])
        elif cl.double:
            d = cl.double[0]
            rep.add('R03d', f.name, 'temp-state-pairing', False, f.where(d[1]), 'temporary %s released twice on one path' % nofp(d[0]), d[2])
        else:
            rep.add('R03d', f.name, 'temp-state-pairing', True, f.loc, 'temporaries %s released on every path' % sorted(nofp(x) for x in cl.track_))
    rep.require_count('R03d', 'functions with temporary states', n, 20)


RESET_EXCEPTIONS = {
    ('ompl::geometric::LazyLBTRRT::clear', 'startMotion_'):
        're-assigned by solve() before any use: clear() resets the input-state iterator, so the start loop runs again',
    ('ompl::geometric::LazyLBTRRT::clear', 'goalMotion_'):
        're-assigned unconditionally (createGoalMotion) in every solve() before any use',
}


def r03c(rep, F):
    rep.rule('R03c', 'every planner class that overrides clear() calls a base-class clear() in it (the chain ends in '
                     'Planner::clear, which resets the input-state iterator); node-pointer members that solve() assigns '
                     '(lastGoalMotion_, bestGoalMotion_, ...) are reset in clear() or in a helper it calls')
    planners = F.subclasses(B + 'Planner')
    n = 0
    for f in F.functions:
        if not f.name.endswith('::clear') or f.record not in planners or f.params:
            continue
        n += 1
        rec = F.record(f.record, required=False)
        bases = rec['bases'] if rec else []
        calls = [c.get('callee') for c in f.walk() if (c.get('callee') or '').endswith('::clear')]
        anc = set()
        work = list(bases)
        while work:
            b = work.pop()
            if b not in anc:
                anc.add(b)
                r = F.record(b, required=False)
                if r:
                    work.extend(r['bases'])
        ok = any(c.rsplit('::', 1)[0] in anc for c in calls)
        rep.add('R03c', f.name, 'chains-to-base', ok, f.loc, 'calls %s' % [c for c in calls if c.rsplit('::', 1)[0] in anc][:1] if ok else
                'clear() does not call its base class: the input-state iterator keeps the old query\'s progress and the '
                'next solve() skips the new start states')
        # node pointer members assigned in solve and not reset
        solve = [g for g in F.functions if g.record == f.record and g.name.endswith('::solve')]
        if not solve or not rec:
            continue
        helpers = [f] + [g for g in F.functions if g.record == f.record and g.name in [c.get('callee') for c in f.walk() if c.get('callee')]]
        written_in_clear = set()
        for h in helpers:
            for x in h.walk():
                t = None
                if x['k'] == 'BinaryOperator' and x.get('op') == '=':
                    t = h.strip(x['ch'][0])
                elif x['k'] == 'CXXOperatorCallExpr' and x.get('oop') == '=' and x['ch']:
                    t = h.strip(x['ch'][0])
                elif x['k'] == 'CXXMemberCallExpr' and (x.get('callee') or '').split('::')[-1] in ('clear', 'reset') and x['ch']:
                    t = h.strip(x['ch'][0])
                if t is not None and t['k'] == 'MemberExpr' and t.get('dk') == 'Field':
                    written_in_clear.add(t['name'])
        for fld in rec['fields']:
            if not (fld['ty'].endswith('*') and ('Motion' in fld['ty'] or 'Vertex' in fld['ty'])):
                continue
            assigned = False
            for g in solve:
                for x in g.walk():
                    if x['k'] == 'BinaryOperator' and x.get('op') == '=':
                        t = g.strip(x['ch'][0])
                        if t is not None and t['k'] == 'MemberExpr' and t.get('name') == fld['name'] and \
                                (g.strip(t['ch'][0]) or {}).get('k') == 'CXXThisExpr':
                            assigned = True
            if assigned and (f.name, fld['name']) in RESET_EXCEPTIONS:
                rep.undecided('R03c', f.name, 'resets:' + fld['name'], RESET_EXCEPTIONS[(f.name, fld['name'])])
                continue
            if assigned:
                ok = fld['name'] in written_in_clear
                rep.add('R03c', f.name, 'resets:' + fld['name'], ok, f.loc, '%s reset' % fld['name'] if ok else
                        '%s is assigned by solve() but not reset by clear(): the next query can return nodes of the previous '
                        'one (freed memory)' % fld['name'])
    rep.require_count('R03c', 'planner clear() overrides', n, 40)


def r03h(rep, F):
    rep.rule('R03h', 'PlannerInputStates: clear() writes every per-query field (counters, temp state after freeing it, pdef_, '
                     'si_); restart() both counters; use() clears exactly when the problem definition changes; nextStart '
                     'advances the start counter once per examined state and returns only states that passed '
                     'satisfiesBounds and isValid (also nextGoal)')
    cl = F.one(B + 'PlannerInputStates::clear')
    txt = nofp(' ; '.join(cl.fp(n['id']) for n in cl.walk() if n['k'] in ('BinaryOperator',) or n.get('callee')))
    need = ['(this.addedStartStates_ = 0)', '(this.sampledGoalsCount_ = 0)', 'this.tempState_ = ', 'reset(this.pdef_)', '(this.si_ = ']
    miss = [x for x in need if x not in txt]
    ok = not miss and 'freeState' in txt
    rep.add('R03h', cl.name, 'resets-every-field', ok, cl.loc, 'all per-query fields reset, temp state freed' if ok else
            'clear() does not reset %s' % miss)
    rs = F.one(B + 'PlannerInputStates::restart')
    txt = nofp(' ; '.join(rs.fp(n['id']) for n in rs.walk() if n['k'] == 'BinaryOperator'))
    ok = '(this.addedStartStates_ = 0)' in txt and '(this.sampledGoalsCount_ = 0)' in txt
    rep.add('R03h', rs.name, 'resets-both-counters', ok, rs.loc, 'both counters reset' if ok else 'restart() keeps a counter')
    us = F.one(B + 'PlannerInputStates::use')

    class U(paths.Client):
        def __init__(s):
            s.exits = []

        def init(s, fn):
            return (False, False)

        def on_node(s, fn, node, auto, ctx):
            if node.get('callee') == B + 'PlannerInputStates::clear':
                return (True, auto[1])
            if (node['k'] == 'CXXOperatorCallExpr' and node.get('oop') == '=' and 'this.pdef_' in nofp(fn.fp(node['ch'][0]))):
                return (auto[0], True)
            return auto

        def at_exit(s, fn, ret, auto, ctx):
            s.exits.append((auto, ctx.eval(ret['ch'][0]) if ret and ret['ch'] else None, ctx.path()))
    u = U()
    paths.run_function(us, u, F)
    bad = [e for e in u.exits if (e[1] is True and e[0] != (True, True)) or (e[1] is False and e[0] != (False, False)) or e[1] is None]
    rep.add('R03h', us.name, 'clears-iff-changed', not bad, us.loc, 'returns true exactly on the paths that cleared and adopted the new '
            'problem definition' if not bad else 'use() and its verdict disagree about whether the iterator was reset', bad[0][2] if bad else None)
    ns = F.one(B + 'PlannerInputStates::nextStart')

    class N(paths.Client):
        fork_bools = True

        def __init__(s):
            s.bad = []
            s.incs_on_iter = []

        def init(s, fn):
            return (False, False, 0)

        def learn(s, fn, node, value, auto, ctx):
            c = node.get('callee') or ''
            if value is True and c.endswith('::satisfiesBounds'):
                return (True, auto[1], auto[2])
            if value is True and c.endswith('SpaceInformation::isValid'):
                return (auto[0], True, auto[2])
            return auto

        def on_node(s, fn, node, auto, ctx):
            if node.get('callee', '').endswith('::getStartState') or node.get('callee', '').endswith('::sampleGoal'):
                return (False, False, auto[2])
            return auto

        def at_exit(s, fn, ret, auto, ctx):
            if ret is None or not ret['ch']:
                return
            e = fn.strip(ret['ch'][0])
            nonnull = e is not None and e['k'] not in ('CXXNullPtrLiteralExpr', 'GNUNullExpr') and not \
                (e['k'] == 'ImplicitCastExpr' and (fn.strip(e['ch'][0]) or {}).get('k') == 'CXXNullPtrLiteralExpr')
            if nonnull and not (auto[0] and auto[1]):
                s.bad.append(ctx.path())
    for fn in (ns, F.one(B + 'PlannerInputStates::nextGoal', sig_contains='PlannerTerminationCondition')):
        c = N()
        paths.run_function(fn, c, F)
        rep.add('R03h', fn.name + ('(ptc)' if fn.params else ''), 'returns-only-checked-states', not c.bad, fn.loc,
                'a state is handed to the planner without both satisfiesBounds and isValid having succeeded on it' if c.bad else
                'every non-null result passed satisfiesBounds and isValid', c.bad[0] if c.bad else None)
    wl = [n for n in ns.walk() if n['k'] == 'WhileStmt']
    incs = [n for n in ns.walk(wl[0]['body']) if n['k'] == 'UnaryOperator' and n.get('op') == '++' and 'addedStartStates_' in ns.fp(n['ch'][0])] if wl else []
    ok = len(incs) == 1 and not any(a['k'] == 'IfStmt' for a in ns.ancestors(incs[0]['id']) if any(z['id'] == a['id'] for z in ns.walk(wl[0]['body'])))
    rep.add('R03h', ns.name, 'counter-once-per-state', ok, ns.loc, 'addedStartStates_ advances once per examined start state' if ok else
            'the start counter does not advance exactly once per examined state: a resumed solve re-adds or skips starts')


def r03e(rep, F, solves):
    rep.rule('R03e', 'every unbounded loop (while / do-while whose condition is not a counter comparison) in a solve() that '
                     'performs sampling or tree growth mentions the termination condition in its condition or exits on it in '
                     'its body')
    n = 0
    for f in solves:
        ptc = pkey(f, 0) if f.params else None
        if not ptc:
            continue
        for lp in [x for x in f.walk() if x['k'] in ('WhileStmt', 'DoStmt')]:
            if any(a['k'] in ('WhileStmt', 'DoStmt', 'ForStmt', 'CXXForRangeStmt') for a in f.ancestors(lp['id'])):
                continue  # inner loops are bounded retries or extraction walks
            cfp = f.fp(lp['cond']) if lp.get('cond') else ''
            body_mentions = any(x['k'] == 'DeclRefExpr' and '%s#%d' % (x.get('name'), x.get('did')) == ptc for x in f.walk(lp['body']))
            # loops that do not call anything growing (pure pointer walks) are bounded by the structure
            grows = any((c.get('callee') or '').split('::')[-1] in ('sampleUniform', 'sample', 'sampleGoal', 'sampleUniformNear', 'checkMotion',
                                                                     'propagateWhileValid', 'sampleTo', 'nextGoal') for c in f.walk(lp['body']))
            if not grows:
                continue
            n += 1
            ok = ptc in cfp or body_mentions
            rep.add('R03e', f.name, 'main-loop#%d' % f.line(lp), ok, f.where(lp), 'consults the termination condition' if ok else
                    'a growth loop of solve() never consults the termination condition: an interrupt is not honoured')
    rep.require_count('R03e', 'growth loops', n, 28)


class DeleteReset(paths.Client):
    track = 'none'

    def __init__(self, members):
        self.members = members
        self.bad = []
        self.n = 0

    def init(self, fn):
        return frozenset()

    def on_node(self, fn, node, auto, ctx):
        if node['k'] == 'CXXDeleteExpr' and node['ch']:
            t = fn.strip(node['ch'][0])
            if t is not None and t['k'] == 'MemberExpr' and t.get('dk') == 'Field' and (fn.strip(t['ch'][0]) or {}).get('k') == 'CXXThisExpr' \
                    and t['name'] in self.members:
                self.n += 1
                return auto | {t['name']}
        tgt = None
        if node['k'] == 'BinaryOperator' and node.get('op') == '=':
            tgt = fn.strip(node['ch'][0])
        elif node['k'] == 'CXXMemberCallExpr' and (node.get('callee') or '').endswith('::reset') and node['ch']:
            tgt = fn.strip(node['ch'][0])
        if tgt is not None and tgt['k'] == 'MemberExpr' and tgt.get('name') in auto:
            return auto - {tgt['name']}
        return auto

    def at_exit(self, fn, ret, auto, ctx):
        if auto:
            self.bad.append((sorted(auto), ctx.path()))


def r03g(rep, F):
    rep.rule('R03g', 'a raw-pointer data member deleted in a function that can run more than once in an object\'s life (anything '
                     'but the destructor) is assigned again on every path to the function\'s exit: otherwise clear() followed '
                     'by destruction or a second clear() deletes it twice')
    n = 0
    for f in F.functions:
        if not f.record or f.d.get('kind') == 'dtor' or not f.file.startswith(facts.SRC):
            continue
        rec = F.record(f.record, required=False)
        if not rec:
            continue
        members = {x['name'] for x in rec['fields'] if x['ty'].endswith('*')}
        if not members or not any(x['k'] == 'CXXDeleteExpr' for x in f.walk()):
            continue
        cl = DeleteReset(members)
        paths.run_function(f, cl, F)
        if not cl.n:
            continue
        n += 1
        rep.add('R03g', f.name, 'delete-then-reset', not cl.bad, f.loc,
                'member(s) %s deleted and left dangling on a path to the exit' % cl.bad[0][0] if cl.bad else
                'every deleted pointer member is re-assigned before the function returns', cl.bad[0][1] if cl.bad else None)
    rep.require_count('R03g', 'functions deleting pointer members', n, 4)


def r03i(rep, F):
    rep.rule('R03i', 'sibling agreement over the setProblemDefinition overrides (PRM, LazyPRM, SPARS, SPARStwo): each calls the '
                     'base Planner::setProblemDefinition and then clearQuery() unconditionally, so switching the problem '
                     'definition forgets the old query\'s start and goal milestones')
    n = 0
    for f in F.functions:
        if not f.name.endswith('::setProblemDefinition') or f.record == B + 'Planner' or '/planners/' not in f.file:
            continue
        n += 1
        base = [c for c in f.walk() if c.get('callee') == B + 'Planner::setProblemDefinition']
        cq = [c for c in f.walk() if (c.get('callee') or '').endswith('::clearQuery')]
        why = None
        if not base:
            why = 'does not call Planner::setProblemDefinition'
        elif not cq:
            why = 'does not clear the query'
        elif any(a['k'] in ('IfStmt', 'ConditionalOperator', 'WhileStmt', 'ForStmt') for a in f.ancestors(cq[0]['id'])):
            why = 'clearQuery() is conditional: the base call has already consumed the "problem definition changed" signal, so the ' \
                  'old query\'s start/goal milestones survive the switch'
        rep.add('R03i', f.name, 'clears-query', why is None, f.loc, why or 'base call, then unconditional clearQuery()')
    rep.require_count('R03i', 'setProblemDefinition overrides', n, 4)


PUSHES = ('push', 'push_back', 'push_front', 'emplace', 'emplace_back', 'emplace_front', 'insert')
POPS = ('pop', 'pop_front', 'pop_back')


def r03j(rep, F, planner_fns):
    rep.rule('R03j', 'pruning conserves nodes: a function that empties the nearest-neighbour structure of a raw-pointer tree (NN->clear(), '
                     'outside clear / freeMemory / setup) holds the nodes only in its local work-lists; every local container of node '
                     'pointers that is pushed to must be drained after (or around) its last push: by a loop `while (!C.empty())` that '
                     'pops at the top level of its body, or by a traversal of C whose body unconditionally hands each element on (re-adds '
                     'it to a nearest-neighbour structure, frees / deletes it, or pushes it to another container).  A node left in a '
                     'work-list is neither in the tree index nor freed: clear() and the destructor, which walk the index, leak it')
    n = 0
    for f in planner_fns:
        short = f.name.split('::')[-1]
        if short in ('clear', 'freeMemory', 'setup', 'clearQuery') or short.startswith('~'):
            continue
        if not any((c.get('callee') or '').endswith('NearestNeighbors::clear') for c in f.walk()):
            continue
        conts = {}
        for x in f.walk():
            if x['k'] == 'DeclStmt':
                for d in x.get('decls', []):
                    ty = d.get('ty') or ''
                    if re.match(r'std::(queue|list|vector|deque|stack)<', ty) and 'Motion *' in ty and 'shared_ptr' not in ty:
                        conts[d['did']] = (d['name'], x)
        if not conts:
            continue

        def on(c, did):
            """is this member call made on container `did`?"""
            if not c['ch']:
                return False
            r = f.strip(c['ch'][0])
            if r is not None and r['k'] == 'UnaryOperator' and r.get('op') in ('*', '&'):
                r = f.strip(r['ch'][0])
            return r is not None and r['k'] == 'DeclRefExpr' and r.get('did') == did
        for did, (name, decl) in sorted(conts.items()):
            pushes = [c for c in f.walk() if c['k'] == 'CXXMemberCallExpr' and (c.get('callee') or '').split('::')[-1] in PUSHES and on(c, did)]
            # a push of an element that the same block also adds to a nearest-neighbour structure is a view, not a hand-over
            def is_view(c):
                a = args(f, c)
                if not a:
                    return False
                efp = f.fp(a[0])
                for anc in f.ancestors(c['id']):
                    if anc['k'] == 'CompoundStmt':
                        return any((y.get('callee') or '').endswith('NearestNeighbors::add') and args(f, y) and f.fp(args(f, y)[0]) == efp
                                   for y in f.walk(anc['id']))
                return False
            pushes = [c for c in pushes if not is_view(c)]
            if not pushes:
                continue
            last_push = max(f.line(c) for c in pushes)
            drains = []
            for lp in [x for x in f.walk() if x['k'] in ('WhileStmt', 'DoStmt', 'ForStmt', 'CXXForRangeStmt')]:
                body = f.nodes.get(lp.get('body'))
                if body is None:
                    continue
                top = body['ch'] if body['k'] == 'CompoundStmt' else [body['id']]
                kind = None
                if lp['k'] in ('WhileStmt', 'DoStmt') and lp.get('cond') and \
                        any((c.get('callee') or '').endswith('::empty') and on(c, did) for c in f.walk(lp['cond'])):
                    # pops at the top level of the body (possibly inside a nested loop with the same emptiness condition)
                    def pops_top(stmts):
                        for s_ in stmts:
                            sn = f.strip(s_) or f.nodes[s_]
                            if sn['k'] == 'CXXMemberCallExpr' and (sn.get('callee') or '').split('::')[-1] in POPS and on(sn, did):
                                return True
                            if sn['k'] in ('WhileStmt', 'DoStmt') and sn.get('cond') and \
                                    any((c.get('callee') or '').endswith('::empty') and on(c, did) for c in f.walk(sn['cond'])):
                                b2 = f.nodes.get(sn.get('body'))
                                if b2 is not None and pops_top(b2['ch'] if b2['k'] == 'CompoundStmt' else [b2['id']]):
                                    return True
                        return False
                    if pops_top(top):
                        kind = 'emptied'
                elif lp['k'] == 'CXXForRangeStmt':
                    rng = f.strip(lp.get('range')) if lp.get('range') else None
                    if rng is not None and rng['k'] == 'DeclRefExpr' and rng.get('did') == did:
                        handed = False
                        for s_ in top:
                            sn = f.strip(s_) or f.nodes[s_]
                            cal = (sn.get('callee') or '')
                            if sn['k'] == 'CXXDeleteExpr' or cal.endswith(('NearestNeighbors::add', '::freeState', '::freeMotion')) or \
                                    cal.split('::')[-1] in PUSHES:
                                handed = True
                        if handed:
                            kind = 'handed on'
                if kind:
                    drains.append((lp, kind))
            # handing the whole container to one of the planner's own functions after the last push is a drain as well
            for c in f.walk():
                if c.get('callee') and c.get('crepo') and f.line(c) >= last_push and \
                        any(on({'ch': [a_]}, did) for a_ in args(f, c)):
                    drains.append((c, 'passed to ' + c['callee'].split('::')[-1]))
            ok = any(lp['k'] not in ('WhileStmt', 'DoStmt', 'ForStmt', 'CXXForRangeStmt') or f.d['line'] <= f.line(lp) and (f.nodes.get(lp.get('body')) is not None) and
                     max(f.line(x) for x in f.walk(lp['id'])) >= last_push or f.line(lp) > last_push for lp, kind in drains)
            n += 1
            rep.add('R03j', f.name, 'work-list:' + name, ok, f.where(decl),
                    'drained (%s)' % ', '.join(sorted(set(k for _, k in drains))) if ok else
                    'nodes pushed to `%s` (last at line %d) are never drained by an emptying loop or an unconditional hand-over traversal: '
                    'those left in it are neither in the tree index nor freed' % (name, last_push))
    rep.require_count('R03j', 'work-lists in pruning functions', n, 4)


# ---------------------------------------------------------------------------------------------------------------
MUTATORS = ('clear', 'reset', 'push_back', 'emplace_back', 'insert', 'emplace', 'add', 'resize', 'assign', 'erase', 'pop_back', 'swap')
C = 'ompl::control::'
G_ = 'ompl::geometric::'
PERQUERY_EXCEPTIONS = {
    # (planner class, member): reason read from the code
    (C + 'LTLPlanner', 'sampler_'): 'lazily allocated sampler (if (!sampler_) ...): holds a random stream, no query data',
    (C + 'LTLPlanner', 'controlSampler_'): 'lazily allocated control sampler: holds a random stream, no query data',
    (C + 'Syclop', 'numMotions_'): 'zeroed by solve() under if (!graphReady_), and clear() resets graphReady_',
    (G_ + 'AITstar', 'numProcessedEdges_'): 'statistic: read only by log messages',
    (G_ + 'AITstar', 'numEdgeCollisionChecks_'): 'statistic: read only by log messages and a progress property',
    (G_ + 'EITstar', 'iteration_'): 'statistic: read only by log messages and the "iterations" progress property',
    (G_ + 'EITstar', 'numProcessedEdges_'): 'statistic: read only by log messages (clearQuery() does reset it)',
    (G_ + 'EITstar', 'numCollisionCheckedEdges_'): 'statistic: read only by log messages and a progress property',
    (G_ + 'BFMT', 'NNk_'): 'recomputed by every solve() from the sample count before use (under nearestK_, the flag under which it is read)',
    (G_ + 'BFMT', 'NNr_'): 'recomputed by every solve() from the sample count before use (under !nearestK_)',
    (G_ + 'BFMT', 'tree_'): 'solve() selects the forward tree (useFwdTree()) unconditionally before the first use',
    (G_ + 'FMT', 'NNk_'): 'recomputed by every solve() before use (under nearestK_)',
    (G_ + 'FMT', 'NNr_'): 'recomputed by every solve() before use (under !nearestK_)',
    (G_ + 'FMT', 'goalState_'): 'assureGoalIsSampled() re-assigns it for every goal state the new query yields; it is read only as the target of the '
                                'optional cost-to-go heuristic.  Observation (not claimed): with heuristics on and a query that yields no valid '
                                'goal state it still points at a state freed by clear()',
    (G_ + 'BITstar', 'isFinalSearchOnBatch_'): 'after clear() the queue is empty and hasExactSolution_ is false, so the first iterate() takes the '
                                               'new-batch branch whatever this flag holds, and assigns it',
    (G_ + 'BITstar', 'isSearchDone_'): 'read only in isSearchDone_ || queue.isEmpty(); after clear() the queue is empty, and the branch assigns it',
    (G_ + 'BITstar', 'truncationFactor_'): 'assigned by the new-batch branch that the first iterate() after clear() always takes, before it is read',
    (G_ + 'LazyLBTRRT', 'startMotion_'): 're-assigned by solve() from the first start state before any use: clear() resets the input-state iterator',
    (G_ + 'LazyPRM', 'componentSize_'): 'entries are keyed by component id; clear() zeroes componentCount_, and every id is assigned (= 1 / = 0) when it is '
                                        'handed out again, before it is read',
    (G_ + 'LightningRetrieveRepair', 'nearestPathsChosenID_'): 'assigned by findBestPath() in every solve() that retrieved candidates, read only after it',
    (G_ + 'LightningRetrieveRepair', 'repairPlannerDatas_'): 'debug record of the repair planner data, appended per repair and only handed out by '
                                                             'getRepairPlannerDatas(); never read by the planner',
    (G_ + 'RRTConnect', 'startTree_'): 'which tree grows first: either value is a valid initial side (the side-flag invariant R03k is stated relative to it)',
    (G_ + 'RRTXstatic', 'rrg_k_'): 'recomputed by calculateRRG() in every iteration before use',
    (G_ + 'RRTXstatic', 'rrg_r_'): 'recomputed by calculateRRG() in every iteration before use',
    (G_ + 'SPARS', 'queryVertex_'): 'checkQueryStateInitialization() re-creates the query vertices whenever the graph is empty, which it is after clear()',
    (G_ + 'SPARS', 'sparseQueryVertex_'): 'see queryVertex_',
    (G_ + 'SPARStwo', 'queryVertex_'): 'checkQueryStateInitialization() re-creates the query vertex whenever the graph is empty, which it is after clear()',
}


def _ancestors(F, rec):
    anc, work = set(), [rec]
    while work:
        r = F.record(work.pop(), required=False)
        for b in (r['bases'] if r else []):
            if b not in anc:
                anc.add(b)
                work.append(b)
    return anc


def _class_closure(F, byrec, rec, anc, start):
    seen = {}
    work = [g for g in byrec.get(rec, []) if g.name.split('::')[-1] == start and (start != 'clear' or not g.params)]
    while work:
        g = work.pop()
        if g.key in seen:
            continue
        seen[g.key] = g
        for c in g.walk():
            cal = c.get('callee')
            for h in F.by_name.get(cal, []) if cal else []:
                if h.body and (h.record == rec or h.record in anc or (h.d.get('lambda_of') or '').startswith(rec + '::')):
                    work.append(h)
        # lambdas defined inside g run on its behalf
        for h in byrec.get(None, []):
            pass
    return list(seen.values())


def _field_writes(fs):
    """{field of *this: [(kind, function, node, fn)]} over the given functions"""
    out = {}
    for g in fs:
        for x in g.walk():
            t = kind = None
            if x['k'] in ('BinaryOperator', 'CompoundAssignOperator') and (x.get('op') or '').endswith('=') and x.get('op') not in ('==', '!=', '<=', '>='):
                t, kind = g.strip(x['ch'][0]), '='
            elif x['k'] == 'CXXOperatorCallExpr' and x.get('oop') in ('=', '+=', '-=', '++', '--') and x['ch']:
                t, kind = g.strip(x['ch'][0]), '='
            elif x['k'] == 'UnaryOperator' and x.get('op') in ('++', '--'):
                t, kind = g.strip(x['ch'][0]), '++'
            elif x['k'] == 'CXXMemberCallExpr' and (x.get('callee') or '').split('::')[-1] in MUTATORS and x['ch']:
                t, kind = g.strip(x['ch'][0]), (x.get('callee') or '').split('::')[-1]
                if t is not None and t['k'] == 'CXXOperatorCallExpr' and t.get('oop') == '->':
                    t = g.strip(t['ch'][0])
            if t is not None and t['k'] == 'MemberExpr' and t.get('dk') == 'Field' and t['ch'] and \
                    (g.strip(t['ch'][0]) or {}).get('k') == 'CXXThisExpr':
                out.setdefault(t['name'], []).append((kind, g.name.split('::')[-1], x, g))
    return out


def r03l(rep, F):
    rep.rule('R03l', 'clear() forgets what solve() learned: for every planner class with its own clear() and solve(), every data member of '
                     '*this that the solve() closure (solve and the member functions / lambdas of the class and its bases it calls) '
                     'assigns, increments or mutates as a container is (a) also written by the clear() closure, or (b) a derived '
                     'configuration value (also written by setup() or a set* method), or (c) assigned by a top-level statement of solve() '
                     'itself on every call; anything else is a frozen exception with the reason read from the code')
    planners = F.subclasses(B + 'Planner')
    byrec = {}
    for f in F.functions:
        if f.body:
            byrec.setdefault(f.record, []).append(f)
    n = 0
    for rec in sorted(planners):
        fs = byrec.get(rec, [])
        if not any(g.name.endswith('::clear') and not g.params for g in fs) or not any(g.name.endswith('::solve') for g in fs):
            continue
        anc = _ancestors(F, rec)
        W = _field_writes(_class_closure(F, byrec, rec, anc, 'solve'))
        C = _field_writes(_class_closure(F, byrec, rec, anc, 'clear'))
        S = _field_writes(_class_closure(F, byrec, rec, anc, 'setup'))
        setters = _field_writes([g for g in fs if g.name.split('::')[-1].startswith('set') and g.name.split('::')[-1] != 'setup'])
        for fld, ws in sorted(W.items()):
            role = 'per-query:' + fld
            if fld in C:
                n += 1
                rep.add('R03l', rec + '::clear', role, True, C[fld][0][3].where(C[fld][0][2]), 'reset by ' + C[fld][0][1] + '()')
                continue
            if fld in S or fld in setters:
                continue
            top = False
            for (kind, fn, x, g) in ws:
                if fn == 'solve' and g.record == rec and kind in ('=', 'clear'):
                    par = [a for a in g.ancestors(x['id']) if a['k'] in ('IfStmt', 'ForStmt', 'WhileStmt', 'DoStmt', 'CXXForRangeStmt', 'SwitchStmt',
                                                                            'ConditionalOperator', 'LambdaExpr')]
                    if not par:
                        top = True
            if top:
                n += 1
                rep.add('R03l', rec + '::clear', role, True, ws[0][3].where(ws[0][2]), 're-initialised unconditionally by every solve()')
                continue
            if (rec, fld) in PERQUERY_EXCEPTIONS:
                rep.undecided('R03l', rec + '::clear', role, PERQUERY_EXCEPTIONS[(rec, fld)])
                continue
            n += 1
            rep.add('R03l', rec + '::clear', role, False, ws[0][3].where(ws[0][2]),
                    '%s is written during solve() (%s in %s) and neither reset by clear() nor re-initialised at the start of solve(): the next '
                    'query after clear() starts from what the previous one left there' % (fld, ws[0][0], ws[0][1]))
    rep.require_count('R03l', 'members written by solve() and accounted for', n, 240)


SAMPLING_CALLS = ('sampleUniform', 'sample', 'sampleGoal', 'sampleUniformNear', 'sampleNear', 'sampleGaussian', 'sampleTo', 'sampleNext', 'nextGoal')


def r03m(rep, F):
    rep.rule('R03m', 'every while / do-while loop, at any nesting depth, of a function that receives the termination condition and whose '
                     'body draws samples (sampleUniform, sample, sampleGoal, sampleNear, nextGoal, ...) consults that condition in its '
                     'loop condition or body, or is bounded by a counter compared with a compile-time constant (the '
                     'FIND_VALID_STATE_ATTEMPTS_WITHOUT_TERMINATION_CHECK idiom).  A rejection loop bounded only by run-time '
                     'quantities (maxSampleCount() is UINT_MAX for a goal region) does not return after the condition fires')
    n = 0
    for f in F.functions:
        if not f.body or not f.file.startswith(facts.SRC):
            continue
        pt = [p for p in f.params if 'PlannerTerminationCondition' in (p.get('ty') or '')]
        if not pt:
            continue
        pk = '%s#%d' % (pt[0]['name'], pt[0]['did'])
        for lp in [x for x in f.walk() if x['k'] in ('WhileStmt', 'DoStmt')]:
            if not any((c.get('callee') or '').split('::')[-1] in SAMPLING_CALLS for c in f.walk(lp['body'])):
                continue
            n += 1
            cfp = f.fp(lp['cond']) if lp.get('cond') else ''
            body = any(x['k'] == 'DeclRefExpr' and '%s#%d' % (x.get('name'), x.get('did')) == pk for x in f.walk(lp['body']))
            const_bound = False
            for x in (f.walk(lp['cond']) if lp.get('cond') else []):
                if x['k'] == 'BinaryOperator' and x.get('op') in ('<', '<=', '!='):
                    l, r = f.strip(x['ch'][0]), f.strip(x['ch'][1])
                    if l is not None and r is not None and l['k'] == 'DeclRefExpr' and l.get('dk') == 'Local' and \
                            (r['k'] == 'IntegerLiteral' or (r['k'] == 'DeclRefExpr' and 'ompl::magic::' in (r.get('q') or f.fp(r['id'])))):
                        const_bound = True
            ok = pk in cfp or body or const_bound
            rep.add('R03m', f.name, 'sampling-loop#%d' % len([1 for o in rep.obl if o['rule'] == 'R03m' and o['function'] == f.name]), ok, f.where(lp),
                    ('consults the termination condition' if (pk in cfp or body) else 'bounded by a constant number of attempts') if ok else
                    'a sampling loop bounded only by run-time quantities never consults the termination condition %s: once it fires the '
                    'function keeps drawing samples' % pt[0]['name'])
    rep.require_count('R03m', 'sampling loops in termination-aware functions', n, 55)


def r03n(rep, F, solves):
    rep.rule('R03n', 'resumed solves re-measure the preserved solution into the reported difference: where solve() reports '
                     'addSolutionPath(path, approximate, D) with D a local, and D is elsewhere assigned together with a solution-node '
                     'variable S (the (node, distance) pair of the best motion so far), every goal test applied to S itself -- '
                     'isSatisfied(S->state, &X), the re-evaluation of the solution kept from an earlier call -- writes X = D.  Otherwise '
                     'a resumed call reports the old path with an unrelated (infinite) difference and lets any new motion replace it')
    n = 0
    for f in solves:
        Ds = set()
        for c in f.walk():
            if (c.get('callee') or '').endswith('ProblemDefinition::addSolutionPath') and len(args(f, c)) >= 3:
                d = f.strip(args(f, c)[2])
                if d is not None and d['k'] == 'DeclRefExpr' and d.get('dk') == 'Local':
                    Ds.add('%s#%d' % (d['name'], d['did']))
        if not Ds:
            continue
        paired = set()
        for blk in [x for x in f.walk() if x['k'] == 'CompoundStmt']:
            tg = []
            for cid in blk['ch']:
                y = f.nodes.get(cid)
                if y is not None and y['k'] == 'BinaryOperator' and y.get('op') == '=':
                    tg.append(y)
            if any(key(f, y['ch'][0]) in Ds for y in tg):
                for y in tg:
                    t = f.strip(y['ch'][0])
                    if t is not None and '*' in (t.get('ty') or '') and re.search(r'Motion|Vertex', t.get('ty') or ''):
                        paired.add(f.fp(t['id']))
        for c in f.walk():
            if not ((c.get('callee') or '').endswith('::isSatisfied') and 'Goal' in c['callee']) or len(args(f, c)) < 1:
                continue
            x = f.strip(args(f, c)[0])
            if x is None or x['k'] != 'MemberExpr' or not x['ch'] or f.fp(x['ch'][0]) not in paired:
                continue
            n += 1
            # the one-argument form measures nothing: the reported difference keeps its initial value
            outs = {'%s#%d' % (z['name'], z['did']) for z in f.walk(args(f, c)[1]) if z['k'] == 'DeclRefExpr'} if len(args(f, c)) >= 2 else set()
            ok = bool(outs & Ds)
            rep.add('R03n', f.name, 'preserved-solution-remeasured', ok, f.where(c),
                    'the kept solution node is measured into the reported difference' if ok else
                    'the goal test of the kept solution node %s writes its distance into %s, not into the difference that is reported with '
                    'the path' % (nofp(f.fp(x['ch'][0])), sorted(nofp(o) for o in outs) or 'nothing (one-argument form)'))
    rep.require_count('R03n', 'preserved-solution goal tests', n, 2)


HELPER_EXCEPTIONS = {
    # (helper class, reset method, member): reason read from the code
    (G_ + 'BITstar::SearchQueue', 'reset', 'isCascadingOfRewiringsEnabled_'): 'configuration flag set by enableCascadingRewirings()',
    (G_ + 'BITstar::SearchQueue', 'clear', 'isCascadingOfRewiringsEnabled_'): 'configuration flag',
    (G_ + 'BITstar::SearchQueue', 'clear', 'numEdgesPopped_'): 'clear() empties the queue between batches of one query; the statistics and the solution cost '
                                                               'belong to the query and are reset by reset()',
    (G_ + 'BITstar::SearchQueue', 'clear', 'hasExactSolution_'): 'per query, not per batch: reset by reset()',
    (G_ + 'BITstar::SearchQueue', 'clear', 'solutionCost_'): 'per query, not per batch: reset by reset()',
    (G_ + 'BITstar::SearchQueue', 'clear', 'inconsistentVertices_'): 'per query, not per batch: reset by reset() (clearInconsistentSet is called by the planner when it needs it)',
    (G_ + 'aitstar::ImplicitGraph', 'clear', 'sampler_'): 're-allocated by updateStartAndGoalStates() of the next query; holds no query data besides the informed-set definition it is rebuilt with',
    (G_ + 'aitstar::ImplicitGraph', 'clear', 'numNearestNeighborsCalls_'): 'statistic: only handed out by its getter',
    (G_ + 'eitstar::ForwardQueue', 'clear', 'front_'): 'cache of the best edge, valid only while cacheQueueLookup_ says so; every modification (including clear) invalidates through the lookup flag',
    (G_ + 'eitstar::ForwardQueue', 'clear', 'cachedMinEdgeEffort_'): 'cache recomputed by the next peek()/getMinEffortToCome() on a modified queue',
    (G_ + 'eitstar::RandomGeometricGraph', 'clear', 'currentNumSamples_'): 'index into buffer_, which clear() empties: the guard currentNumSamples_ < buffer_.size() is then false and new states are drawn (clearQuery() zeroes it for multiquery reuse)',
    (G_ + 'eitstar::RandomGeometricGraph', 'clear', 'numValidSamples_'): 'statistic: only handed out by its getter',
    (G_ + 'eitstar::RandomGeometricGraph', 'clear', 'numSampledStates_'): 'statistic: only handed out by its getter',
    (G_ + 'eitstar::RandomGeometricGraph', 'clear', 'numNearestNeighborCalls_'): 'statistic: only handed out by its getter',
    (G_ + 'eitstar::RandomGeometricGraph', 'clear', 'sampler_'): 're-allocated by updateStartAndGoalStates() of the next query',
    (G_ + 'eitstar::RandomGeometricGraph', 'clear', 'minPossibleCost_'): 'recomputed by updateStartAndGoalStates() whenever starts or goals change, before it is read',
    (G_ + 'eitstar::RandomGeometricGraph', 'clear', 'whitelistedStates_'): 'multiquery feature: read only as "is non-empty" under isMultiqueryEnabled_ (lowerBoundEffortToCome); listed, not decided',
    (G_ + 'eitstar::RandomGeometricGraph', 'clear', 'isPruningEnabled_'): 'configuration flag',
    (G_ + 'eitstar::RandomGeometricGraph', 'clear', 'isMultiqueryEnabled_'): 'configuration flag',
    ('ompl::multilevel::BundleSpaceGraphSampler', 'clear', 'segmentBias_'): 'configuration value changed by disableSegmentBias()',
}


def r03o(rep, F):
    rep.rule('R03o', 'helper classes of the planners (graphs, queues, samplers: any class under planners/ that is not itself a Planner and has '
                     'a parameterless clear() or reset()): every data member that one of its other member functions assigns, increments or '
                     'mutates as a container is also written by the clear()/reset() closure; exceptions (configuration, statistics, '
                     'caches, per-batch vs per-query clears) are frozen with the reason read from the code')
    planners = F.subclasses(B + 'Planner')
    byrec = {}
    for f in F.functions:
        if f.body:
            byrec.setdefault(f.record, []).append(f)
    n = 0
    for rec, fs in sorted(byrec.items(), key=lambda kv: str(kv[0])):
        if not rec or rec in planners or '(lambda' in rec or not any('/planners/' in g.file or '/multilevel/' in g.file for g in fs):
            continue
        starts = sorted({g.name.split('::')[-1] for g in fs if g.name.split('::')[-1] in ('clear', 'reset') and not g.params})
        if not starts:
            continue
        anc = _ancestors(F, rec)
        others = [g for g in fs if g.d.get('kind') not in ('ctor', 'dtor') and g.name.split('::')[-1] not in ('clear', 'reset', 'setup') and
                  not g.name.split('::')[-1].startswith('set')]
        W = _field_writes(others)
        for start in starts:
            C = _field_writes(_class_closure(F, byrec, rec, anc, start))
            for fld, ws in sorted(W.items()):
                role = 'helper-reset:' + fld
                if fld in C:
                    n += 1
                    rep.add('R03o', rec + '::' + start, role, True, C[fld][0][3].where(C[fld][0][2]), 'reset by ' + C[fld][0][1] + '()')
                elif (rec, start, fld) in HELPER_EXCEPTIONS:
                    rep.undecided('R03o', rec + '::' + start, role, HELPER_EXCEPTIONS[(rec, start, fld)])
                else:
                    n += 1
                    rep.add('R03o', rec + '::' + start, role, False, ws[0][3].where(ws[0][2]),
                            '%s is modified by %s() but %s() does not touch it: what the previous query put there survives' % (fld, ws[0][1], start))
    rep.require_count('R03o', 'helper members reset', n, 60)


class RejectClient(paths.Client):
    """after a rejection loop do { draw X; V = valid(X) } while (!V && !ptc): every later use of X happens with V known true"""
    track = 'vars'
    fork_bools = True

    def __init__(self, vkey, uses, inside):
        self.vkey, self.uses, self.inside = vkey, uses, inside
        self.relevant = {vkey}
        self.relevant_preds = set()
        self.bad = {}
        self.seen = set()

    def init(self, fn):
        return False

    def on_node(self, fn, node, auto, ctx):
        nid = node.get('id')
        if nid in self.inside:
            return True          # this path went through the rejection loop
        if auto and nid in self.uses:
            self.seen.add(nid)
            if ctx.val(('v', self.vkey)) is not True and nid not in self.bad:
                self.bad[nid] = ctx.path()
        return auto


def r03p(rep, F):
    rep.rule('R03p', 'interrupted rejection sampling: after a loop do { draw X; V = isValid(X) / sampler->sample(X) } while (!V && !ptc) the '
                     'loop can end with V false because the termination condition fired; every later use of X in the function (storing it '
                     'in a container, cloning it into a milestone, returning it) lies on paths where V is known to be true '
                     '(path-sensitive over the CFG, V forked at its assignment)')
    n = 0
    for f in F.functions:
        if not f.body or not f.file.startswith(facts.SRC) or not any('PlannerTerminationCondition' in (p.get('ty') or '') for p in f.params):
            continue
        for lp in [x for x in f.walk() if x['k'] in ('WhileStmt', 'DoStmt') and x.get('cond')]:
            negs = [key(f, u['ch'][0]) for u in f.walk(lp['cond']) if u['k'] == 'UnaryOperator' and u.get('op') == '!' and key(f, u['ch'][0])]
            hit = None
            for y in f.walk(lp['body']):
                if y['k'] == 'BinaryOperator' and y.get('op') == '=' and key(f, y['ch'][0]) in negs:
                    c = f.strip(y['ch'][1])
                    if c is not None and (c.get('callee') or '').split('::')[-1] in ('isValid', 'sample', 'sampleValid') and args(f, c):
                        xs = [z for z in f.walk(args(f, c)[0]) if z['k'] == 'DeclRefExpr' and z.get('dk') in ('Local', 'Parm')]
                        if xs:
                            hit = (key(f, y['ch'][0]), '%s#%d' % (xs[0]['name'], xs[0]['did']))
            if not hit:
                continue
            vkey, xkey = hit
            inside = {z['id'] for z in f.walk(lp['id'])}
            end = max(f.line(z) for z in f.walk(lp['id']))
            uses = set()
            for z in f.walk():
                if z['id'] in inside or f.line(z) <= end:
                    continue
                if z['k'] == 'ReturnStmt' or (z.get('callee') and (z['callee'].split('::')[-1] not in ('freeState', 'log'))):
                    sub = z['ch'] if z['k'] == 'ReturnStmt' else args(f, z) + (z['ch'][:1] if z['k'] == 'CXXMemberCallExpr' else [])
                    if any(w['k'] == 'DeclRefExpr' and '%s#%d' % (w.get('name'), w.get('did')) == xkey for a in sub for w in f.walk(a)):
                        uses.add(z['id'])
            if not uses:
                continue
            n += 1
            cl = RejectClient(vkey, uses, inside)
            paths.run_function(f, cl, F)
            rep.add('R03p', f.name, 'reject-loop#%d[%s]' % (f.line(lp), nofp(xkey)), not cl.bad, f.where(lp),
                    'every later use of %s is on paths with %s true (%d uses)' % (nofp(xkey), nofp(vkey), len(cl.seen)) if not cl.bad else
                    '%s is used at line %d on a path on which %s may be false (the loop was left because the termination condition fired): an '
                    'unvalidated state is admitted' % (nofp(xkey), f.line(f.nodes[sorted(cl.bad)[0]]), nofp(vkey)),
                    cl.bad[sorted(cl.bad)[0]] if cl.bad else None)
    rep.require_count('R03p', 'interruptible rejection loops', n, 5)


class SubQuery(paths.Client):
    """auto = frozenset of problem-definition fingerprints whose solution set was cleared on this path"""
    track = 'none'

    def __init__(self):
        self.at_solve = []

    def init(self, fn):
        return frozenset()

    def on_node(self, fn, node, auto, ctx):
        c = node.get('callee') or ''
        if c == B + 'ProblemDefinition::clearSolutionPaths' and node['ch']:
            return auto | {nofp(fn.fp(node['ch'][0]))}
        if c.endswith('::solve') and node['k'] == 'CXXMemberCallExpr' and node['ch'] and 'Planner' in c:
            self.at_solve.append((node['id'], auto, ctx.path()))
        return auto


def r03q(rep, F):
    rep.rule('R03q', 'sub-queries are isolated: a planner function that runs another planner (a member) on a problem definition it owns '
                     '(a member other than its own pdef_) and afterwards reads that definition\'s solution (getSolutionPath, getSolutions, '
                     'hasApproximateSolution, getSolutionDifference, ...) clears the definition\'s solution set on every path before the '
                     'sub-planner\'s solve(): setStartAndGoalStates replaces starts and goal but keeps the solutions, and the set hands '
                     'out its best element -- possibly the path of an earlier sub-query, spliced into the current one and reported as exact')
    READS = ('getSolutionPath', 'getSolutions', 'hasApproximateSolution', 'getSolutionDifference', 'hasExactSolution', 'hasSolution')
    n = 0
    for f in F.functions:
        if not f.body or not f.file.endswith('.cpp') or '/planners/' not in f.file:
            continue
        solves = [c for c in f.walk() if (c.get('callee') or '').endswith('::solve') and c['k'] == 'CXXMemberCallExpr' and c['ch'] and
                  'Planner' in c['callee'] and nofp(f.fp(c['ch'][0])).startswith(('std::__shared_ptr_access::operator->(this.', 'this.'))]
        if not solves:
            continue
        pds = set()
        for c in f.walk():
            if c.get('callee', '').startswith(B + 'ProblemDefinition::') and c['callee'].split('::')[-1] in READS and c['ch']:
                fp = nofp(f.fp(c['ch'][0]))
                if 'this.' in fp and 'this.pdef_' not in fp:
                    pds.add(fp)
        if not pds:
            continue
        cl = SubQuery()
        paths.run_function(f, cl, F)
        for pd in sorted(pds):
            for (sid, cleared, path) in cl.at_solve:
                if sid not in {c['id'] for c in solves}:
                    continue
                n += 1
                ok = pd in cleared
                rep.add('R03q', f.name, 'solutions-cleared-before-sub-solve[%s]' % pd.split('this.')[-1].rstrip(')'), ok, f.where(sid),
                        'clearSolutionPaths() on every path before the sub-planner runs' if ok else
                        'the sub-planner is run and its problem definition\'s solution is read, but the solutions of earlier sub-queries '
                        'are not cleared first: getSolutionPath() may return the path of a previous sub-query', None if ok else path)
    rep.require_count('R03q', 'sub-planner runs on an owned problem definition', n, 2)


REFUSALS = ('INVALID_START', 'INVALID_GOAL', 'UNRECOGNIZED_GOAL_TYPE')
SIZE_CALLS = ('size', 'getMotionCount', 'empty', 'getExperiencesCount', 'isEmpty')


def _own_measure(f, n):
    """n (stripped) measures one of the planner's own data members: member->size(), member.size (Grid tree), member.empty() ..."""
    n = f.strip(n['id']) if n is not None else None
    if n is None:
        return None
    if n.get('callee') and n['callee'].split('::')[-1] in SIZE_CALLS:
        fp = f.fp(n['id'])
        if 'this.' in fp:
            return ('empty' if n['callee'].split('::')[-1] in ('empty', 'isEmpty') else 'count', nofp(fp))
    if n['k'] == 'MemberExpr' and n.get('name') == 'size' and 'this.' in f.fp(n['id']):
        return ('count', nofp(f.fp(n['id'])))
    return None


def _growth_satisfiable(f, nid, pos=True):
    """does the guard (with polarity pos) hold as soon as the measured member has grown?  returns the offending sub-expression or None.
    Emptiness tests (== 0, empty(), !size(), < 1, <= 0) can only be falsified by growth.  A disjunction is satisfied by one disjunct; a
    conjunction needs every conjunct, so only a conjunction of growth-satisfiable tests counts."""
    n = f.strip(nid)
    if n is None:
        return None
    if n['k'] == 'UnaryOperator' and n.get('op') == '!':
        return _growth_satisfiable(f, n['ch'][0], not pos)
    if n['k'] == 'BinaryOperator' and n.get('op') in ('||', '&&'):
        parts = [_growth_satisfiable(f, c, pos) for c in n['ch']]
        disj = (n['op'] == '||') == pos
        if disj:
            return next((x for x in parts if x), None)
        return parts[0] if all(parts) else None
    m = _own_measure(f, n)
    if m is not None:
        # bare truth value: empty() is an emptiness test; size() as a boolean is "non-empty"
        if m[0] == 'empty':
            return None if pos else nofp(f.fp(n['id']))
        return nofp(f.fp(n['id'])) if pos else None
    if n['k'] == 'BinaryOperator' and n.get('op') in ('==', '!=', '<', '<=', '>', '>='):
        l, r = f.strip(n['ch'][0]), f.strip(n['ch'][1])
        op = n['op']
        if r is not None and _own_measure(f, r) and l is not None and l['k'] == 'IntegerLiteral':
            l, r = r, l
            op = {'<': '>', '<=': '>=', '>': '<', '>=': '<=', '==': '==', '!=': '!='}[op]
        m = _own_measure(f, l) if l is not None else None
        if m is None or m[0] != 'count' or r is None or r['k'] != 'IntegerLiteral':
            return None
        c = int(r.get('v') or 0)
        if not pos:
            op = {'<': '>=', '<=': '>', '>': '<=', '>=': '<', '==': '!=', '!=': '=='}[op]
        # set of counts satisfying (count op c); growth-satisfiable iff it contains a value >= 1 other than through emptiness alone
        sat = {'==': c >= 1, '!=': True, '>': True, '>=': True, '<': c >= 2, '<=': c >= 1}[op]
        return nofp(f.fp(n['id'])) if sat else None
    return None


def r03r(rep, F, solves):
    rep.rule('R03r', 'resumed solves are not refused: solve() keeps its tree between calls, so a refusal exit (INVALID_START, INVALID_GOAL, '
                     'UNRECOGNIZED_GOAL_TYPE) whose guard measures one of the planner\'s own data members (nn_->size(), motions_.empty(), '
                     'tree_.grid.size(), disc_.getMotionCount() ...) may only test *emptiness* (== 0, empty(), < 1), which growth can only '
                     'falsify.  A guard that holds once the member has grown (size() > 1, size() != 1, size() >= k) turns the second '
                     'solve() on the same query into a refusal instead of a continuation.  Polarity through !, ||, && and else-branches '
                     'is followed; a conjunction counts only if every conjunct is growth-satisfiable')
    n = 0
    for f in solves:
        for r in f.walk():
            if r['k'] != 'ReturnStmt' or not r['ch']:
                continue
            fp = f.fp(r['ch'][0])
            st = next((s for s in REFUSALS if s in fp), None)
            if st is None:
                continue
            prev = r['id']
            guards = []
            for a in f.ancestors(r['id']):
                if a['k'] == 'IfStmt' and a.get('cond'):
                    in_then = a.get('then') is not None and (a['then'] == prev or any(x['id'] == prev for x in f.walk(a['then'])))
                    guards.append((a, in_then))
                prev = a['id']
            measured = [(a, pos) for a, pos in guards
                        if any(_own_measure(f, x) for x in f.walk(a['cond']))]
            if not measured:
                continue
            n += 1
            bad = None
            for a, pos in measured:
                bad = _growth_satisfiable(f, a['cond'], pos)
                if bad:
                    break
            k = len([1 for o in rep.obl if o['rule'] == 'R03r' and o['function'] == f.name and o['role'].startswith('refusal:' + st)])
            rep.add('R03r', f.name, 'refusal:%s#%d' % (st, k), not bad, f.where(r),
                    'the guard is an emptiness test of the planner\'s own structure: growth can only falsify it' if not bad else
                    'the refusal is taken when %s holds, which the tree grown by an earlier solve() satisfies: the resumed solve() returns %s '
                    'instead of continuing the preserved search' % (bad, st))
    rep.require_count('R03r', 'refusal exits guarded by a measure of the planner\'s own structures', n, 46)


class PreservedExact(paths.Client):
    """at every store M = S of the preserved solution node: can the approximate flag be true?"""
    track = 'vars'

    def __init__(self, fn, member, flagnode_of, relevant):
        self.relevant = relevant
        self.member = member
        self.flagnode_of = flagnode_of
        self.bad = []
        self.stores = 0

    def on_node(self, fn, node, auto, ctx):
        if node['k'] == 'BinaryOperator' and node.get('op') == '=':
            l = fn.strip(node['ch'][0])
            if l is not None and l['k'] == 'MemberExpr' and l.get('name') == self.member and (fn.strip(l['ch'][0]) or {}).get('k') == 'CXXThisExpr':
                r = fn.strip(node['ch'][1])
                if r is not None and r['k'] not in ('CXXNullPtrLiteralExpr', 'GNUNullExpr'):
                    self.stores += 1
                    fl = self.flagnode_of(node)
                    v = ctx.eval(fl) if fl is not None else None
                    if v is not False:
                        self.bad.append((node['id'], ctx.path()))
        return auto


def r03t(rep, F, solves, rule='R03t'):
    rep.rule(rule, 'a solution node preserved for the next solve() is an exact one: where solve() seeds its exact-solution variable from a member '
                   '(Motion *solution = lastGoalMotion_;) and decides "exact" by that variable being non-null, every store back into the member '
                   'happens on paths where the approximate flag of the returned status is known false.  Storing the node after the '
                   'fall-back "solution = approxSol; approximate = true" makes the next solve() start with the approximate node as its exact '
                   'solution: it reports EXACT_SOLUTION for a path that does not reach the goal')
    n = 0
    for f in solves:
        seeds = {}
        for ds in [x for x in f.walk() if x['k'] == 'DeclStmt']:
            for d in ds.get('decls', []):
                i = f.strip(d['init']) if d.get('init') else None
                if i is not None and i['k'] == 'MemberExpr' and (f.strip(i['ch'][0]) or {}).get('k') == 'CXXThisExpr' and '*' in (d.get('ty') or '') \
                        and re.search(r'Motion|Vertex', d.get('ty') or ''):
                    seeds['%s#%d' % (d['name'], d['did'])] = i.get('name')
        if not seeds:
            continue
        # the approximate flag: second boolean local of the returned status
        flag = None
        for r in [x for x in f.walk() if x['k'] == 'ReturnStmt' and x['ch']]:
            bl = [x for x in f.walk(r['ch'][0]) if x['k'] == 'DeclRefExpr' and x.get('dk') == 'Local' and (x.get('ty') or '').replace('const ', '') == 'bool']
            if len(bl) == 2:
                flag = '%s#%d' % (bl[1]['name'], bl[1]['did'])
        if flag is None:
            continue
        for skey, member in sorted(seeds.items()):
            stores = [x for x in f.walk() if x['k'] == 'BinaryOperator' and x.get('op') == '=' and (f.strip(x['ch'][0]) or {}).get('name') == member
                      and (f.strip(x['ch'][0]) or {}).get('k') == 'MemberExpr' and key(f, x['ch'][1]) == skey]
            if not stores:
                continue
            n += 1

            def flagnode_of(node, f=f, flag=flag):
                # any later read of the flag evaluates the same tracked variable: use its declaration's name through a DeclRefExpr node
                for x in f.walk():
                    if x['k'] == 'DeclRefExpr' and '%s#%d' % (x.get('name'), x.get('did')) == flag:
                        return x['id']
                return None
            cl = PreservedExact(f, member, flagnode_of, {flag, skey})
            paths.run_function(f, cl, F)
            ok = not cl.bad
            rep.add(rule, f.name, 'preserved-node-is-exact:' + member, ok, f.where(cl.bad[0][0]) if cl.bad else f.where(stores[0]),
                    '%s is stored only where %s is known false' % (member, nofp(flag)) if ok else
                    '%s = %s is reached with %s possibly true (after the approximate fall-back): the next solve() seeds its exact solution '
                    'from it and reports an exact status for a path that ends outside the goal' % (member, nofp(skey), nofp(flag)),
                    cl.bad[0][1] if cl.bad else None)
    rep.require_count(rule, 'solve() functions that seed their exact solution from a preserved node', n, 2)


CLEARQUERY_EXCEPTIONS = {
    # (class, member): why clearQuery() legitimately keeps what clear() empties
    (G_ + 'PRM', 'nn_'): 'the roadmap is kept between queries by design (clearQuery forgets the query, not the roadmap)',
    (G_ + 'PRM', 'g_'): 'the roadmap is kept between queries by design',
    (G_ + 'LazyPRM', 'nn_'): 'the roadmap is kept between queries by design',
    (G_ + 'LazyPRM', 'g_'): 'the roadmap is kept between queries by design',
    (G_ + 'SPARS', 'nn_'): 'the roadmap is kept between queries by design', (G_ + 'SPARS', 'snn_'): 'the roadmap is kept between queries by design',
    (G_ + 'SPARS', 'g_'): 'the roadmap is kept between queries by design', (G_ + 'SPARS', 's_'): 'the roadmap is kept between queries by design',
    (G_ + 'SPARStwo', 'nn_'): 'the roadmap is kept between queries by design', (G_ + 'SPARStwo', 'g_'): 'the roadmap is kept between queries by design',
}


def _cleared_members(g):
    out = {}
    for c in g.walk():
        cal = (c.get('callee') or '').split('::')[-1]
        if cal in ('clear', 'reset', 'clearQuery', 'restart') and c['k'] == 'CXXMemberCallExpr' and c['ch']:
            if 'shared_ptr' in (c.get('callee') or '') or 'unique_ptr' in (c.get('callee') or ''):
                continue      # dropping a lazily allocated helper (a sampler): re-allocated on the next use, holds no query data
            t = g.strip(c['ch'][0])
            while t is not None and t['k'] == 'CXXOperatorCallExpr' and t.get('oop') in ('->', '*'):
                t = g.strip(t['ch'][0])
            if t is not None and t['k'] == 'MemberExpr' and t.get('dk') == 'Field' and (g.strip(t['ch'][0]) or {}).get('k') == 'CXXThisExpr':
                out.setdefault(t['name'], []).append((cal, c))
    return out


def r03v(rep, F):
    rep.rule('R03v', 'clearQuery() forgets the query completely: (a) every planner with its own clearQuery() and clear(): each member object that '
                     'clear() empties through clear() / reset() is also emptied by clearQuery() (clear, reset, clearQuery or restart), unless the '
                     'member IS what clearQuery() is meant to keep (the roadmap: frozen table with reasons); (b) the input-state iterator is '
                     'restarted (pis_.restart()), not merely updated -- update() only resets the counters when the problem-definition pointer '
                     'changed, so a new query set in the SAME problem definition would find every start already consumed')
    n = 0
    for rec in sorted(F.records):
        cq = [g for g in F.by_name.get(rec + '::clearQuery', []) if g.body and not g.params]
        cl = [g for g in F.by_name.get(rec + '::clear', []) if g.body and not g.params]
        if not cq or not cl or rec not in F.subclasses(B + 'Planner'):
            continue
        a, b = _cleared_members(cl[0]), _cleared_members(cq[0])
        for m in sorted(a):
            if (rec, m) in CLEARQUERY_EXCEPTIONS:
                rep.undecided('R03v', rec + '::clearQuery', 'query-forgotten:' + m, CLEARQUERY_EXCEPTIONS[(rec, m)])
                continue
            if m in ('pis_',):
                continue
            n += 1
            ok = m in b
            rep.add('R03v', rec + '::clearQuery', 'query-forgotten:' + m, ok, cq[0].where(b[m][0][1]) if ok else cq[0].loc,
                    'emptied by %s()' % b[m][0][0] if ok else
                    '%s is emptied by clear() but survives clearQuery(): what the previous query left in it (edges, cached sources, marks) is '
                    'used by the next query' % m)
        # (b) input states restarted
        touches_pis = [c for c in cq[0].walk() if c['k'] == 'CXXMemberCallExpr' and 'this.pis_' in cq[0].fp(c['ch'][0])]
        if touches_pis:
            n += 1
            ok = any((c.get('callee') or '').endswith('PlannerInputStates::restart') or (c.get('callee') or '').endswith('PlannerInputStates::clear') for c in touches_pis)
            rep.add('R03v', rec + '::clearQuery', 'input-states-restarted', ok, cq[0].where(touches_pis[0]),
                    'pis_.restart()' if ok else
                    'clearQuery() calls %s on the input-state iterator: the consumed-start / consumed-goal counters survive when the same '
                    'problem definition object carries the next query' % sorted({(c.get('callee') or '').split('::')[-1] for c in touches_pis}))
    rep.require_count('R03v', 'members emptied by clearQuery() and input-state restarts', n, 9)


def r03x(rep, F):
    rep.rule('R03x', 'a goal state added between two solve() calls is handed out next: GoalStates::sampleGoal hands out states_[position mod size] '
                     'and leaves position = that index + 1, NOT reduced modulo the size (the reduction happens lazily at the next call, with the '
                     'size of that moment).  Decided by evaluating the function\'s stores to samplePosition_ for every size 1..6 and every '
                     'position 0..2*size: a position wrapped eagerly returns to 0 after the last state, so a state appended afterwards is '
                     'skipped and PlannerInputStates, which counts calls against maxSampleCount(), never asks for it')
    Fg = facts.load_units([src('base', 'goals', 'src', 'GoalStates.cpp')])
    rep.units.add(src('base', 'goals', 'src', 'GoalStates.cpp'))
    fn = Fg.one(B + 'GoalStates::sampleGoal')

    def ev(nid, env):
        n = fn.strip(nid)
        k = n['k']
        if k == 'IntegerLiteral':
            return int(n.get('v'))
        if k == 'MemberExpr' and n.get('name') == 'samplePosition_':
            return env['pos']
        if (n.get('callee') or '').endswith('::size') and 'states_' in fn.fp(n['id']):
            return env['size']
        if k == 'BinaryOperator' and n.get('op') in ('+', '-', '*', '%', '/'):
            a, b = ev(n['ch'][0], env), ev(n['ch'][1], env)
            return {'+': a + b, '-': a - b, '*': a * b, '%': a % b if b else 0, '/': a // b if b else 0}[n['op']]
        raise AnalysisBroken('R03x: %s outside the evaluated fragment of sampleGoal' % k)

    stores = [x for x in fn.walk() if (x['k'] in ('BinaryOperator', 'CompoundAssignOperator') and (x.get('op') or '').endswith('=') and
                                       x.get('op') not in ('==', '!=', '<=', '>=') and (fn.strip(x['ch'][0]) or {}).get('name') == 'samplePosition_') or
              (x['k'] == 'UnaryOperator' and x.get('op') in ('++', '--') and (fn.strip(x['ch'][0]) or {}).get('name') == 'samplePosition_')]
    reads = [c for c in fn.walk() if (c.get('callee') or '').endswith('::copyState')]
    if not stores or len(reads) != 1:
        raise AnalysisBroken('R03x: stores to samplePosition_ / the copy of the sampled state not found')
    order = sorted(stores + reads, key=lambda x: (fn.line(x), x['id']))
    bad = None
    pts = 0
    for size in range(1, 7):
        for pos in range(0, 2 * size + 1):
            env = {'pos': pos, 'size': size}
            handed = None
            for x in order:
                if x in reads:
                    idx = [y for y in fn.walk(args(fn, x)[1]) if y['k'] == 'MemberExpr' and y.get('name') == 'samplePosition_']
                    handed = env['pos'] if idx else None
                elif x['k'] == 'UnaryOperator':
                    env['pos'] += 1 if x['op'] == '++' else -1
                elif x['k'] == 'CompoundAssignOperator':
                    v = ev(x['ch'][1], env)
                    env['pos'] = {'+=': env['pos'] + v, '-=': env['pos'] - v, '%=': env['pos'] % v if v else 0}.get(x['op'], env['pos'])
                else:
                    env['pos'] = ev(x['ch'][1], env)
            pts += 1
            if bad is None and (handed != pos % size or env['pos'] != pos % size + 1):
                bad = (size, pos, handed, env['pos'])
    rep.add('R03x', fn.name, 'position-not-wrapped-eagerly', bad is None, fn.where(stores[-1]),
            'hands out states_[p mod n] and leaves p mod n + 1 (%d (size, position) pairs evaluated)' % pts if bad is None else
            'with %d goal states and position %d the call hands out index %s and leaves position %d (expected index %d, position %d): after the '
            'last state the position is back at the first one, and a state appended before the next call is never sampled' %
            (bad[0], bad[1], bad[2], bad[3], bad[1] % bad[0], bad[1] % bad[0] + 1))


class ExactNeedsGoalTest(paths.Client):
    """auto = True once a goal test (Goal::isSatisfied) succeeded on this path"""
    track = 'vars'
    fork_bools = True

    def __init__(self, fn, relevant):
        self.relevant = relevant
        self.bad = []
        self.regs = 0

    def init(self, fn):
        return False

    def learn(self, fn, node, value, auto, ctx):
        if value is True and (node.get('callee') or '').endswith('::isSatisfied') and 'Goal' in (node.get('callee') or ''):
            return True
        return auto

    def on_node(self, fn, node, auto, ctx):
        if (node.get('callee') or '').endswith('ProblemDefinition::addSolutionPath') and len(args(fn, node)) >= 2:
            self.regs += 1
            v = ctx.eval(args(fn, node)[1])
            if v is False and not auto:
                self.bad.append((node['id'], ctx.path()))
        return auto


def r03y(rep, F, rule='R03y', names=(G_ + 'PDST::solve', 'ompl::control::PDST::solve')):
    rep.rule(rule, 'an exact registration needs a goal test that succeeded in THIS call: in the PDST planners (which keep their solution motion '
                     'across calls and derive the approximate flag from it) every path that reaches addSolutionPath(path, approximate = false, ...) '
                     'has passed a Goal::isSatisfied(...) that returned true -- for the new motion, or for the preserved one re-tested at the start '
                     'of the call.  A flag derived from "a solution motion exists" alone is stale: a resumed call that adds nothing re-registers '
                     'the old approximate path as exact')
    n = 0
    for name in names:
        for f in F.by_name.get(name, []):
            if not f.body:
                continue
            regs = [c for c in f.walk() if (c.get('callee') or '').endswith('ProblemDefinition::addSolutionPath') and len(args(f, c)) >= 2]
            if not regs:
                continue
            fl = key(f, args(f, regs[0])[1])
            if fl is None:
                continue
            rel = {fl}
            defs_ = [x for x in f.walk() if x['k'] == 'DeclStmt']
            for ds in defs_:
                for d in ds.get('decls', []):
                    if (d.get('ty') or '').replace('const ', '') == 'bool':
                        rel.add('%s#%d' % (d['name'], d['did']))
            n += 1
            cl = ExactNeedsGoalTest(f, rel)
            paths.run_function(f, cl, F)
            ok = not cl.bad
            rep.add(rule, f.name, 'exact-needs-goal-test', ok, f.where(cl.bad[0][0]) if cl.bad else f.where(regs[0]),
                    'every exact registration follows a successful goal test' if ok else
                    'addSolutionPath(..., approximate = false, ...) is reached on a path on which no goal test succeeded in this call: the flag is '
                    'derived from state kept from an earlier call', cl.bad[0][1] if cl.bad else None)
    rep.require_count(rule, 'PDST solve functions', n, len(names))


def run(rep):
    units = P.geometric_units() + P.control_units() + P.multilevel_units() + P.base_units()
    F = facts.load_units(units)
    rep.units.update(units)
    solves = P.solve_functions(F)
    rep.functions.update(f.key for f in F.functions if f.file.endswith('.cpp'))
    must, may = add_summaries(F)
    rep.extra['must_add_helpers'] = sorted(must)
    r03a(rep, F, solves, must, may)
    planner_fns = [f for f in F.functions if f.file.endswith('.cpp') and ('/planners/' in f.file or '/multilevel/' in f.file)]
    r03b(rep, F, planner_fns)
    r03c(rep, F)
    from engine import effects
    cg = effects.CallGraph(F)
    reach = cg.reach(solves)
    rep.extra['functions_reachable_from_solve'] = len(reach)
    r03d(rep, F, [f for f in planner_fns if f in reach])
    r03e(rep, F, solves)
    r03g(rep, F)
    r03h(rep, F)
    r03i(rep, F)
    r03j(rep, F, planner_fns)
    r03l(rep, F)
    r03o(rep, F)
    r03m(rep, F)
    r03p(rep, F)
    r03n(rep, F, solves)
    r03q(rep, F)
    r03r(rep, F, solves)
    r03t(rep, F, solves)
    r03v(rep, F)
    r03x(rep, F)
    r03y(rep, F)
    # R03w: what a resumed solve re-registers describes the path it registers (C01's R01y under C03's id)
    from rules import c01_informed
    c01_informed.r01y(rep, F, rule='R03w')
    # the RRTConnect side-flag invariant decides which branch is reported as the approximate solution of an interrupted solve
    from rules import c01
    c01.r01k(rep, F)
    rep.rule_text['R03k'] = rep.rule_text.pop('R01k')
    for o in rep.obl:
        if o['rule'] == 'R01k':
            o['rule'] = 'R03k'
    # R03s: an interrupted lazy validation never reports the part it did not look at (C01's R01b, loop-coverage clause, under C03's id)
    before = len(rep.obl)
    bb = len(rep.broken)
    c01.r01b(rep, F)
    keep = [o for o in rep.obl[before:] if o['role'] == 'validation-covers-every-node']
    del rep.obl[before:]
    for o in keep:
        o['rule'] = 'R03s'
        rep.obl.append(o)
    rep.nontrivial = {(('R03s' if (r == 'R01b' and role == 'validation-covers-every-node') else r), fn_, role) for (r, fn_, role) in rep.nontrivial
                      if not (r == 'R01b' and role != 'validation-covers-every-node')}
    rep.broken[bb:] = [b.replace('R01b', 'R03s') for b in rep.broken[bb:] if 'extraction-time validation loops' in b]
    rep.rule_text.pop('R01b', None)
    # R03u: a terminate() request is seen by the very next evaluation, also in periodic mode (C18's R18e under C03's id): it is what makes
    # "solve() returns after a bounded number of further evaluations" true for a planner stopped from outside
    from rules import c18
    Fp = facts.load_units([src('base', 'src', 'PlannerTerminationCondition.cpp')])
    rep.units.add(src('base', 'src', 'PlannerTerminationCondition.cpp'))
    before = len(rep.obl)
    c18.r18e(rep, Fp)
    rep.rule_text['R03u'] = 'a stop request is honoured by the next evaluation: ' + rep.rule_text.pop('R18e')
    for o in rep.obl[before:]:
        if o['rule'] == 'R18e':
            o['rule'] = 'R03u'
    rep.nontrivial = {(('R03u' if r == 'R18e' else r), fn_, role) for (r, fn_, role) in rep.nontrivial}
    rep.rule('R03s', 'the extraction-time validation of a lazy planner looks at every extracted node before the path is reported: the loop that '
                     'validates mpath[i] runs over the whole list and can stop early only through the failure verdict (a flag the failing branch '
                     'clears, or return false) -- never through the termination condition or another conjunct while the verdict is still '
                     'positive, which would register a half-validated path as a solution of an interrupted solve()')
