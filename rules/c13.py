"""C13 -- grid discretisations track cells, neighbours, borders and heaps (structural / finite-domain clauses).

R13a neighbour probes are exactly -1 and +1 per dimension, every dimension, coordinate restored
R13b every write of a neighbour counter re-establishes  border <=> neighbors < limit  (finite domain)
R13c border flip <=> move between the two heaps; stay => update in the same heap; add/remove use the heap selected by
     the flag (finite domain over (wasBorder, counter vs limit), recording the heap operations)
R13d create/remove are duals: same neighbour set, +1/-1 on every neighbour, on every path with a non-null cell; the hash
     entry is erased only after the neighbour pass; Grid::add/remove/getCell use the coordinate key
R13e connected components: breadth-first shape (mark when dequeued unmarked, expand through neighbors, drop duplicates,
     new component only from an unmarked cell)
"""
import itertools
from engine import facts, fd, lin, paths
from engine.facts import AnalysisBroken
from engine.shape import key, args, for_loop

INST = [facts.INST + '/ds.cpp']
LIMIT = 4
MAXN = 6


def label(fn):
    return fn.name + ('<' + fn.targs + '>' if fn.targs else '')


def pick(F, name, targ):
    fs = [f for f in F.by_name.get(name, []) if f.targs.startswith(targ)]
    if not fs:
        raise AnalysisBroken('C13: %s<%s> vanished' % (name, targ))
    return fs


# ---------------------------------------------------------------------------------------------------------------
def r13a(rep, F):
    rep.rule('R13a', 'Grid::neighbors(Coord&): one loop over every dimension; along the body the coordinate\'s running delta '
                     'is -1 at the first lookup, +1 at the second and 0 at the end (constant tracking of the += / -= / ++ / -- '
                     'on coord[i]); each found cell is appended once')
    fn = [f for f in pick(F, 'ompl::Grid::neighbors', 'Grid<int>') if 'Coord &,' in f.sig and 'const ompl::Grid<int>::Coord &' not in f.sig
          and 'const Eigen' not in f.sig]
    fn = [f for f in fn if f.params[0]['ty'].startswith('ompl::Grid') and 'const' not in f.params[0]['ty']]
    if len(fn) != 1:
        raise AnalysisBroken('R13a: Grid::neighbors(Coord&, CellArray&) not found uniquely')
    fn = fn[0]
    fors = [n for n in fn.walk() if n['k'] == 'ForStmt']
    if len(fors) != 1:
        raise AnalysisBroken('R13a: dimension loop not recognised')
    idx, start, cond, stride = for_loop(fn, fors[0])
    D = 'this.dimension_'
    down = (start == {D: 1, 1: -1} and stride == -1 and cond == ('le0', lin.canon({idx: -1})))
    up = (start == {1: 0} and stride == 1 and cond == ('le0', lin.canon({idx: 1, D: -1, 1: 1})))
    rep.add('R13a', label(fn), 'all-dimensions', down or up, fn.where(fors[0]),
            'visits every dimension once' if (down or up) else 'the loop does not visit every dimension (start %s, stride %s)' % (lin.show(start), stride))
    body = fn.nodes[fors[0]['body']]
    stmts = body['ch'] if body['k'] == 'CompoundStmt' else [body['id']]
    delta = 0
    probes = []
    pushes = 0
    why = None
    pk = '%s#%d' % (fn.params[0]['name'], fn.params[0]['did'])

    def coord_elem(nid):
        n = fn.strip(nid)
        if n is not None and n.get('oop') in ('[]', '()') and key(fn, n['ch'][0]) == pk and lin.lin(fn, n['ch'][1]) == {idx: 1}:
            return True
        return False
    for s in stmts:
        for n in fn.walk(s):
            if n['k'] == 'UnaryOperator' and n.get('op') in ('++', '--') and coord_elem(n['ch'][0]):
                delta += 1 if n['op'] == '++' else -1
            elif n['k'] == 'CompoundAssignOperator' and n.get('op') in ('+=', '-=') and coord_elem(n['ch'][0]):
                c = lin.lin(fn, n['ch'][1])
                if c is None or set(c) - {1}:
                    why = 'coordinate changed by a non-constant'
                else:
                    delta += c.get(1, 0) * (1 if n['op'] == '+=' else -1)
            elif n['k'] in ('BinaryOperator',) and n.get('op') == '=' and coord_elem(n['ch'][0]):
                why = 'coordinate overwritten inside the probe loop'
            elif n.get('callee', '').endswith('::find') and 'hash_' in fn.fp(n['ch'][0]):
                probes.append(delta)
            elif n.get('callee') == 'std::vector::push_back' and key(fn, n['ch'][0]) == '%s#%d' % (fn.params[1]['name'], fn.params[1]['did']):
                pushes += 1
                g = [a for a in fn.ancestors(n['id']) if a['k'] == 'IfStmt']
                if not g:
                    why = 'a looked-up cell is appended without testing that it exists'
    if why is None:
        if sorted(probes) != [-1, 1]:
            why = 'lookups happen at coordinate offsets %s, expected exactly -1 and +1' % probes
        elif delta != 0:
            why = 'the coordinate is left changed by %+d after the probes' % delta
        elif pushes != 2:
            why = '%d append sites for 2 probes' % pushes
    rep.add('R13a', label(fn), 'probe-offsets', why is None, fn.where(fors[0]),
            why or 'lookups at offsets -1 and +1, coordinate restored, found cells appended')
    # the const overloads copy the coordinate and forward
    for f in pick(F, 'ompl::Grid::neighbors', 'Grid<int>'):
        if f is fn:
            continue
        calls = [c for c in f.walk() if c.get('callee') == 'ompl::Grid::neighbors']
        ok = len(calls) == 1
        rep.add('R13a', label(f) + f.sig[:60], 'forwards-copy', ok, f.loc, 'copies the coordinate and forwards' if ok else
                'does not forward to the probing overload')


# ---------------------------------------------------------------------------------------------------------------
class CellInterp(fd.Interp):
    """interprets statements over one abstract cell (border, neighbors) and records heap operations"""

    def __init__(self, fn, st, opaque=0):
        super().__init__(fn)
        self.st = st
        self.ops = []
        self.opaque = opaque

    def load(self, n, env):
        if n['k'] == 'MemberExpr':
            nm = n.get('name')
            if nm in ('border', 'neighbors'):
                return self.st[nm]
            if nm == 'interiorCellNeighborsLimit_':
                return LIMIT
            if nm == 'maxNeighbors_':
                return MAXN                   # 2 * dimension: the largest possible count, above the configurable limit
            if nm in ('heapElement', 'coord', 'eventCellUpdateData_', 'external_', 'internal_', 'eventCellUpdate_'):
                return ('obj', nm)
        if n['k'] == 'DeclRefExpr':
            return ('obj', n.get('name'))
        raise AnalysisBroken('R13: cell code reads %s' % self.fn.fp(n['id']))

    def store(self, lhs, v, env):
        if lhs is not None and lhs['k'] == 'MemberExpr' and lhs.get('name') in ('border', 'neighbors'):
            self.st[lhs['name']] = v
            return
        raise AnalysisBroken('R13: cell code writes %s' % (self.fn.fp(lhs['id']) if lhs else '?'))

    def call(self, n, env):
        c = n.get('callee', '')
        if c.startswith('ompl::BinaryHeap::') and n['ch']:
            heap = self.fn.strip(n['ch'][0])
            self.ops.append('%s.%s' % (heap.get('name'), c.split('::')[-1]))
            return None
        if n.get('oop') in ('*', '->') or c.endswith('operator*'):
            return ('obj', 'deref')
        if n['k'] == 'CallExpr' and n.get('callee') is None:
            return None
        if c.endswith('::numberOfBoundaryDimensions') or c == 'std::vector::size':
            return self.opaque
        if c in ('ompl::GridN::add', 'ompl::Grid::add'):
            self.ops.append('GridN.add')
            return None
        raise AnalysisBroken('R13: cell code calls %s' % c)

    def ev(self, nid, env):
        n = self.fn.nodes.get(nid)
        if n is not None and n['k'] in ('CXXReinterpretCastExpr', 'CXXStaticCastExpr') and n['ch']:
            return self.ev(n['ch'][0], env)
        if n is not None and n['k'] == 'CallExpr' and n.get('callee') is None:
            return None  # call through the user's update callback pointer
        return super().ev(nid, env)


def counter_writes(fn):
    """statements (top-level in their compound) that write X->neighbors, with the statement that follows"""
    out = []
    for c in fn.walk():
        if c['k'] != 'CompoundStmt':
            continue
        ch = c['ch']
        for i, s in enumerate(ch):
            w = None
            for n in fn.walk(s):
                t = None
                if n['k'] == 'UnaryOperator' and n.get('op') in ('++', '--'):
                    t = fn.strip(n['ch'][0])
                elif n['k'] in ('BinaryOperator', 'CompoundAssignOperator') and n.get('op') in ('=', '+=', '-='):
                    t = fn.strip(n['ch'][0])
                if t is not None and t['k'] == 'MemberExpr' and t.get('name') == 'neighbors':
                    w = n
            sn = fn.nodes[s]
            if w is not None and sn['k'] not in ('ForStmt', 'IfStmt', 'CompoundStmt', 'WhileStmt', 'CXXForRangeStmt'):
                out.append((s, ch[i + 1] if i + 1 < len(ch) else None, w))
    return out


def r13b(rep, F):
    rep.rule('R13b', 'after every write of a neighbour counter the following statement re-establishes border <=> neighbors < '
                     'limit: the pair (write; re-evaluation) is evaluated on every abstract point (old counter 0..8 with the '
                     'invariant holding before; for a fresh cell: border=true, any count)')
    n = 0
    for cls, targ in (('ompl::GridN', 'GridN<int>'), ('ompl::GridB', 'GridB<int')):
        for meth in ('createCell', 'remove'):
            for fn in pick(F, cls + '::' + meth, targ):
                for k, (s, nxt, w) in enumerate(counter_writes(fn)):
                    n += 1
                    role = 'counter-write#%d' % k
                    fresh = (w['k'] == 'BinaryOperator' and w.get('op') == '=')
                    bad = None
                    pts = 0
                    for old in range(0, 9):
                        if fresh:
                            st = {'border': True, 'neighbors': 0}
                            it = CellInterp(fn, st, opaque=old)
                            # opaque sum: numberOfBoundaryDimensions + size  -> `old` split arbitrarily
                            it.opaque = old if old % 2 == 0 else old
                        else:
                            st = {'border': old < LIMIT, 'neighbors': old}
                            it = CellInterp(fn, st)
                        try:
                            it.ex(s, {})
                            if nxt is not None and (fn.nodes[nxt]['k'] == 'IfStmt' or any(
                                    (fn.strip(x['ch'][0]) or {}).get('name') == 'border' for x in fn.walk(nxt)
                                    if x['k'] == 'BinaryOperator' and x.get('op') == '=')):
                                it.ex(nxt, {})
                        except fd.Return:
                            pass
                        pts += 1
                        if fresh:
                            # value is opaque+opaque = 2*old here; only the relation to the limit matters
                            pass
                        if st['neighbors'] < 0:
                            continue
                        if st['border'] != (st['neighbors'] < LIMIT):
                            bad = 'with %s neighbours before, the counter becomes %s but border stays %s (limit %d)' % (
                                'a fresh cell and opaque count' if fresh else old, st['neighbors'], st['border'], LIMIT)
                            break
                    rep.add('R13b', label(fn), role, bad is None, fn.where(w),
                            bad or 'border <=> neighbors < limit re-established on %d abstract points' % pts)
    rep.require_count('R13b', 'neighbour counter writes', n, 6)


def r13c(rep, F):
    rep.rule('R13c', 'GridB: per neighbour, the heap operations match the flag transition: stay border => external.update; '
                     'stay interior => internal.update; border->interior => external.remove + internal.insert; '
                     'interior->border => internal.remove + external.insert (loop body evaluated over all old counts); add() '
                     'inserts into the heap selected by the flag, remove() takes the removed cell out of the heap selected '
                     'by its flag, update() re-sifts in the heap selected by the flag, clear() empties both heaps')
    for meth, delta in (('createCell', +1), ('remove', -1)):
        fn = pick(F, 'ompl::GridB::' + meth, 'GridB<int')[0]
        fors = [x for x in fn.walk() if x['k'] == 'ForStmt']
        if len(fors) != 1:
            raise AnalysisBroken('R13c: neighbour loop of GridB::%s not recognised' % meth)
        bad = None
        table = []
        for old in range(0, 9):
            if old + delta < 0:
                continue
            st = {'border': old < LIMIT, 'neighbors': old}
            it = CellInterp(fn, st)
            it.ex(fors[0]['body'], {})
            was, now = old < LIMIT, st['border']
            if was and now:
                want = ['external_.update']
            elif (not was) and (not now):
                want = ['internal_.update']
            elif was and not now:
                want = ['external_.remove', 'internal_.insert']
            else:
                want = ['internal_.remove', 'external_.insert']
            table.append([old, st['neighbors'], was, now, it.ops])
            if st['neighbors'] != old + delta:
                bad = bad or 'neighbour count %d becomes %d' % (old, st['neighbors'])
            if it.ops != want:
                bad = bad or 'a neighbour going from %s to %s (count %d -> %d) gets heap operations %s, expected %s' % (
                    'border' if was else 'interior', 'border' if now else 'interior', old, st['neighbors'], it.ops, want)
        rep.add('R13c', label(fn), 'neighbour-heap-moves', bad is None, fn.where(fors[0]),
                bad or 'heap operations match the flag transition for every old count 0..8', sample={'table': table[:5]})
    add = pick(F, 'ompl::GridB::add', 'GridB<int')[0]
    bad = None
    for b in (True, False):
        it = CellInterp(add, {'border': b, 'neighbors': 0})
        it.run()
        want = ['GridN.add', 'external_.insert' if b else 'internal_.insert']
        if sorted(it.ops) != sorted(want):
            bad = 'add() of a %s cell performs %s' % ('border' if b else 'interior', it.ops)
    rep.add('R13c', label(add), 'add-selects-heap', bad is None, add.loc, bad or 'hash insert + insert into the heap selected by border')
    upd = pick(F, 'ompl::GridB::update', 'GridB<int')[0]
    bad = None
    for b in (True, False):
        it = CellInterp(upd, {'border': b, 'neighbors': 0})
        it.run()
        if it.ops != ['external_.update' if b else 'internal_.update']:
            bad = 'update() of a %s cell performs %s' % ('border' if b else 'interior', it.ops)
    rep.add('R13c', label(upd), 'update-selects-heap', bad is None, upd.loc, bad or 're-sifts in the heap selected by border')
    rem = pick(F, 'ompl::GridB::remove', 'GridB<int')[0]
    # the removed cell itself: inside the `found in hash` branch
    ers = [c for c in rem.walk() if c.get('callee', '').endswith('::erase') and 'hash_' in rem.fp(c['ch'][0])]
    if len(ers) != 1:
        raise AnalysisBroken('R13c: hash erase of GridB::remove not recognised')
    blk = [a for a in rem.ancestors(ers[0]['id']) if a['k'] == 'CompoundStmt'][0]
    bad = None
    for b in (True, False):
        it = CellInterp(rem, {'border': b, 'neighbors': 0})

        def call(n, env, it=it, base=it.call):
            if n.get('callee', '').endswith('::erase'):
                return None
            return base(n, env)
        it.call = call
        try:
            # from the erase statement to the end of its block (whatever tests come before it are R13d's business)
            started = False
            env = {}
            for s_ in blk['ch']:
                if any(z['id'] == ers[0]['id'] for z in rem.walk(s_)):
                    started = True
                if started:
                    it.ex(s_, env)
        except fd.Return:
            pass
        if it.ops != ['external_.remove' if b else 'internal_.remove']:
            bad = 'removing a %s cell performs %s on the heaps' % ('border' if b else 'interior', it.ops)
    rep.add('R13c', label(rem), 'removed-cell-leaves-its-heap', bad is None, rem.where(ers[0]),
            bad or 'the removed cell is taken out of the heap selected by its flag')
    ch = pick(F, 'ompl::GridB::clearHeaps', 'GridB<int')[0]
    ops = sorted('%s' % ch.strip(c['ch'][0]).get('name') for c in ch.walk() if c.get('callee') == 'ompl::BinaryHeap::clear')
    rep.add('R13c', label(ch), 'clears-both-heaps', ops == ['external_', 'internal_'], ch.loc,
            'both heaps cleared' if ops == ['external_', 'internal_'] else 'clearHeaps() clears %s' % ops)
    cl = pick(F, 'ompl::GridB::clear', 'GridB<int')[0]
    ok = any(c.get('callee') == 'ompl::GridB::clearHeaps' for c in cl.walk()) and any(c.get('callee') == 'ompl::GridN::clear' or c.get('callee') == 'ompl::Grid::clear' for c in cl.walk())
    rep.add('R13c', label(cl), 'clear-cells-and-heaps', ok, cl.loc, 'clears the cells and both heaps' if ok else 'clear() leaves cells or heaps populated')


# ---------------------------------------------------------------------------------------------------------------
class NeighbourPass(paths.Client):
    """on every path on which the cell pointer is non-null the neighbour loop is evaluated before any return, and the
    hash erase comes after it"""
    track = 'vars'

    def __init__(self, fn, loop):
        self.conds = {x['id'] for x in fn.walk(loop['cond'])} if loop.get('cond') else set()
        self.cellkey = '%s#%d' % (fn.params[0]['name'], fn.params[0]['did'])
        self.bad = []
        self.erase_before = []

    def init(self, fn):
        return False

    def on_node(self, fn, node, auto, ctx):
        if node.get('id') in self.conds:
            return True
        if node.get('callee', '').endswith('::erase') and 'hash_' in fn.fp(node['ch'][0]) and not auto:
            self.erase_before.append(ctx.path())
        return auto

    def at_exit(self, fn, ret, auto, ctx):
        nonnull = ctx.val(('v', self.cellkey))
        if nonnull is not False and not auto:
            self.bad.append(ctx.path())


def r13d(rep, F):
    rep.rule('R13d', 'createCell and remove are duals in GridN and GridB: both obtain the neighbour set with '
                     'neighbors(cell->coord, list) and walk the whole list changing each counter by exactly +1 / -1; in '
                     'remove() the neighbour pass is executed on every path with a non-null cell (also for a cell that was '
                     'never added) and the hash entry is erased only afterwards; Grid::add/remove/getCell key on the '
                     'cell\'s coordinate')
    for cls, targ in (('ompl::GridN', 'GridN<int>'), ('ompl::GridB', 'GridB<int')):
        seen = {}
        for meth, d in (('createCell', '++'), ('remove', '--')):
            fn = pick(F, cls + '::' + meth, targ)[0]
            nb = [c for c in fn.walk() if c.get('callee', '').endswith('::neighbors')]
            fors = [x for x in fn.walk() if x['k'] == 'ForStmt']
            why = None
            if len(nb) != 1 or 'coord' not in fn.fp(args(fn, nb[0])[0]):
                why = 'neighbour set is not neighbors(cell->coord, list)'
            elif len(fors) != 1:
                why = 'no single pass over the neighbour list'
            else:
                init = fn.nodes.get(fors[0].get('init') or 0)
                cond = fn.fp(fors[0]['cond']) if fors[0].get('cond') else ''
                ok_range = init is not None and 'begin' in fn.fp(init['decls'][0]['init']) and 'end' in cond and '!=' in cond
                incs = [x for x in fn.walk(fors[0]['body']) if x['k'] == 'UnaryOperator' and x.get('op') in ('++', '--') and
                        (fn.strip(x['ch'][0]) or {}).get('name') == 'neighbors']
                if not ok_range:
                    why = 'the pass does not run from begin() to end() of the neighbour list'
                elif len(incs) != 1 or incs[0]['op'] != d or any(a['k'] == 'IfStmt' for a in fn.ancestors(incs[0]['id']) if
                                                                  any(z['id'] == a['id'] for z in fn.walk(fors[0]['body']))):
                    why = 'each neighbour\'s counter is not changed by exactly one %s' % d
            seen[meth] = fn
            rep.add('R13d', label(fn), 'neighbour-pass', why is None, fn.loc,
                    why or 'neighbors(cell->coord) then %s on every listed neighbour' % d)
        rem = seen['remove']
        fors = [x for x in rem.walk() if x['k'] == 'ForStmt']
        if fors:
            cl = NeighbourPass(rem, fors[0])
            paths.run_function(rem, cl, F)
            rep.add('R13d', label(rem), 'pass-on-every-non-null-path', not cl.bad, rem.loc,
                    'a path with a non-null cell returns without updating the neighbours\' counters (e.g. a cell that was '
                    'created but never added)' if cl.bad else 'the neighbour pass runs on every path with a non-null cell',
                    cl.bad[0] if cl.bad else None)
            rep.add('R13d', label(rem), 'erase-after-pass', not cl.erase_before, rem.loc,
                    'the hash entry is erased before the neighbour pass' if cl.erase_before else
                    'the hash entry is erased only after the neighbour pass', cl.erase_before[0] if cl.erase_before else None)
    g_add = pick(F, 'ompl::Grid::add', 'Grid<int>')[0]
    ins = [c for c in g_add.walk() if c.get('callee', '').endswith('::insert') and 'hash_' in g_add.fp(c['ch'][0])]
    ok = len(ins) == 1 and 'cell' in g_add.fp(ins[0]['id']) and '.coord' in g_add.fp(ins[0]['id'])
    rep.add('R13d', label(g_add), 'keyed-on-coordinate', ok, g_add.loc, 'inserts (&cell->coord, cell)' if ok else
            'add() does not key the cell on its own coordinate')
    g_rem = pick(F, 'ompl::Grid::remove', 'Grid<int>')[0]
    fi = [c for c in g_rem.walk() if c.get('callee', '').endswith('::find') and 'hash_' in g_rem.fp(c['ch'][0])]
    er = [c for c in g_rem.walk() if c.get('callee', '').endswith('::erase') and 'hash_' in g_rem.fp(c['ch'][0])]
    ok = len(fi) == 1 and len(er) == 1 and '.coord' in g_rem.fp(fi[0]['id'])
    rep.add('R13d', label(g_rem), 'erases-own-entry', ok, g_rem.loc, 'finds and erases the entry of cell->coord' if ok else
            'remove() does not erase the entry of the cell\'s coordinate')
    for f in pick(F, 'ompl::Grid::getCell', 'Grid<int>'):
        fi = [c for c in f.walk() if c.get('callee', '').endswith('::find') and 'hash_' in f.fp(c['ch'][0])]
        ok = len(fi) == 1 and f.params[0]['name'] in f.fp(fi[0]['id'])
        rep.add('R13d', label(f), 'lookup-by-coordinate', ok, f.loc, 'hash lookup of the given coordinate' if ok else
                'getCell does not look the given coordinate up')
    sz = pick(F, 'ompl::Grid::size', 'Grid<int>')[0]
    ok = any(c.get('callee', '').endswith('::size') and 'hash_' in sz.fp(c['ch'][0]) for c in sz.walk())
    rep.add('R13d', label(sz), 'size-is-hash-size', ok, sz.loc, 'size() = hash_.size()' if ok else 'size() is not the number of stored cells')


# ---------------------------------------------------------------------------------------------------------------
def r13e(rep, F):
    rep.rule('R13e', 'Grid::components(): a new component is started only from a cell not yet marked; the traversal marks a '
                     'cell when it is dequeued unmarked and expands it through neighbors(); a dequeued cell that is already '
                     'marked is dropped from the component (the work queue is the result vector); neighbours are enqueued '
                     'only while unmarked; the component counter advances once per component')
    fn = pick(F, 'ompl::Grid::components', 'Grid<int>')[0]
    wl = [n for n in fn.walk() if n['k'] == 'WhileStmt']
    if len(wl) != 1:
        raise AnalysisBroken('R13e: traversal loop not recognised')
    w = wl[0]
    # the result vector doubles as the queue?
    qdecl = None
    for ds in [n for n in fn.walk() if n['k'] == 'DeclStmt']:
        for d in ds.get('decls', []):
            if d.get('init') and 'back' in fn.fp(d['init']) and 'res' in fn.fp(d['init']):
                qdecl = '%s#%d' % (d['name'], d['did'])
    ifs = [n for n in fn.nodes[w['body']]['ch'] if fn.nodes[n]['k'] == 'IfStmt']
    if len(ifs) != 1:
        raise AnalysisBroken('R13e: marked/unmarked branch not recognised')
    br = fn.nodes[ifs[0]]
    marks = [c for c in fn.walk(br['then']) if c.get('callee', '').endswith('::insert') or c.get('oop') == '[]' and 'ch' in fn.fp(c['ch'][0])]
    exp = [c for c in fn.walk(br['then']) if c.get('callee', '').endswith('::neighbors')]
    ok = bool(marks) and len(exp) == 1
    rep.add('R13e', label(fn), 'mark-and-expand', ok, fn.where(br), 'an unmarked dequeued cell is marked and expanded through neighbors()'
            if ok else 'the unmarked branch does not both mark the cell and expand it')
    enq = [c for c in fn.walk(br['then']) if c.get('callee') == 'std::vector::push_back']
    ok = bool(enq) and all(any(a['k'] == 'IfStmt' and any(z['id'] == a['id'] for z in fn.walk(br['then'])) for a in fn.ancestors(c['id'])) for c in enq)
    rep.add('R13e', label(fn), 'enqueue-only-unmarked', ok, fn.where(br), 'neighbours are enqueued under the unmarked test' if ok else
            'neighbours are enqueued without testing whether they are already marked')
    if qdecl is not None:
        # queue == result: duplicates must be dropped in the marked branch
        el = br.get('else')
        swap_pop = bool(el) and any(c.get('callee') == 'std::vector::pop_back' and key(fn, c['ch'][0]) == qdecl for c in fn.walk(el)) and \
            any(c.get('callee') == 'std::vector::back' and key(fn, c['ch'][0]) == qdecl for c in fn.walk(el))
        ok = bool(el) and (any(c.get('callee') == 'std::vector::erase' and key(fn, c['ch'][0]) == qdecl for c in fn.walk(el)) or swap_pop)
        rep.add('R13e', label(fn), 'duplicates-dropped', ok, fn.where(br),
                'a dequeued cell that is already marked is erased from the component vector' if ok else
                'the component vector doubles as the work queue but already-marked entries are not removed: on a cycle a '
                'cell is listed twice and the components no longer partition the cells')
        # the entry erased is the one just dequeued (position index - 1 after `q[index++]`) and the index is stepped back to
        # it, so that the entry which moves into the hole is looked at next: both in linear normal form relative to the
        # index value after the dequeue
        if ok:
            ikey = None
            for x in fn.walk(w['cond']):
                if x['k'] == 'DeclRefExpr' and x.get('dk') == 'Local' and key(fn, x['id']) != qdecl:
                    ikey = key(fn, x['id'])
            deq = [x for x in fn.walk(w['body']) if x['k'] == 'UnaryOperator' and x.get('op') == '++' and x.get('post') and key(fn, x['ch'][0]) == ikey]
            stmts = fn.nodes[el]['ch'] if fn.nodes[el]['k'] == 'CompoundStmt' else [el]
            delta, erased, why = 0, None, None
            if ikey is None or len(deq) != 1:
                why = 'dequeue idiom q[index++] not recognised'
            for s_ in stmts if why is None else []:
                x = fn.strip(s_)
                if x is None:
                    continue
                if x['k'] == 'UnaryOperator' and x.get('op') in ('++', '--') and key(fn, x['ch'][0]) == ikey:
                    delta += 1 if x['op'] == '++' else -1
                elif x['k'] == 'CompoundAssignOperator' and x.get('op') in ('+=', '-=') and key(fn, x['ch'][0]) == ikey:
                    d = lin.lin(fn, x['ch'][1])
                    if d is None or set(d) - {1}:
                        why = 'index update not constant'
                    else:
                        delta += d.get(1, 0) * (1 if x['op'] == '+=' else -1)
                elif ((x['k'] == 'BinaryOperator' and x.get('op') == '=') or (x['k'] == 'CXXOperatorCallExpr' and x.get('oop') == '=')) and \
                        any(c.get('callee') == 'std::vector::back' and key(fn, c['ch'][0]) == qdecl for c in fn.walk(x['ch'][1])):
                    # swap-and-pop: q[X] = q.back(); (q.pop_back() follows) -- the slot overwritten is the one that loses its entry
                    t_ = fn.strip(x['ch'][0])
                    a = lin.lin(fn, t_['ch'][1]) if t_ is not None and t_.get('oop') == '[]' and key(fn, t_['ch'][0]) == qdecl else None
                    if a is None or a.get(ikey) != 1 or set(a) - {ikey, 1}:
                        why = 'the slot overwritten with the last entry is not q[index + constant]'
                    else:
                        erased = delta + a.get(1, 0)
                elif x.get('callee') in ('std::swap', 'std::iter_swap') and len(x['ch']) >= 2 and \
                        any(c.get('callee') == 'std::vector::back' and key(fn, c['ch'][0]) == qdecl for c in fn.walk(s_)):
                    # swap-and-pop spelled std::swap(q[X], q.back()): the slot that receives the last entry is q[X]
                    slots = [fn.strip(c_) for c_ in x['ch']]
                    slots = [t_ for t_ in slots if t_ is not None and t_.get('oop') == '[]' and key(fn, t_['ch'][0]) == qdecl]
                    a = lin.lin(fn, slots[0]['ch'][1]) if len(slots) == 1 else None
                    if a is None or a.get(ikey) != 1 or set(a) - {ikey, 1}:
                        why = 'the slot swapped with the last entry is not q[index + constant]'
                    else:
                        erased = delta + a.get(1, 0)
                elif x.get('callee') == 'std::vector::pop_back' and key(fn, x['ch'][0]) == qdecl:
                    pass
                elif x.get('callee') == 'std::vector::erase' and key(fn, x['ch'][0]) == qdecl:
                    pos_ = [y for y in fn.walk(args(fn, x)[0]) if y['k'] == 'CXXOperatorCallExpr' and y.get('oop') in ('+', '-')]
                    a = lin.lin(fn, pos_[0]['id']) if pos_ else None
                    if a is None or a.get(ikey) != 1 or len([k for k in a if k not in (ikey, 1)]) != 1:
                        why = 'erase position is not begin() + index + constant'
                    else:
                        erased = delta + a.get(1, 0)
                elif any(key(fn, y['ch'][0]) == ikey for y in fn.walk(s_) if y['k'] in ('UnaryOperator', 'BinaryOperator', 'CompoundAssignOperator') and
                         y.get('op') in ('++', '--', '=', '+=', '-=') and y['ch']):
                    why = 'index update not recognised'
            if why is None and erased is None:
                why = 'erase position not recognised'
            if why is not None:
                raise AnalysisBroken('R13e: duplicate branch of Grid::components: ' + why)
            ok2 = erased == -1 and delta == -1
            rep.add('R13e', label(fn), 'erase-dequeued-and-step-back', ok2, fn.where(br),
                    'erases the entry just dequeued and steps the index back to it' if ok2 else
                    ('the entry erased is at offset %+d from the index after the dequeue (the dequeued entry is at -1)' % erased if erased != -1 else
                     'the dequeued duplicate is erased but the index is left at offset %+d instead of -1: the entry that moves into the '
                     'hole is never examined, so a cell stays listed without being labelled or expanded' % delta))
    # new component only from an unmarked cell, counter once per component
    outer = [a for a in fn.ancestors(w['id']) if a['k'] == 'IfStmt']
    ok = bool(outer) and lin.cmp_le0(fn, outer[0]['cond']) is not None
    rep.add('R13e', label(fn), 'start-only-unmarked', ok, fn.where(w), 'a component is started only from an unmarked cell' if ok else
            'a component can be started from a cell that already belongs to one')
    incs = [n for n in fn.walk() if n['k'] == 'UnaryOperator' and n.get('op') == '++' and 'components' in fn.fp(n['ch'][0])]
    ok = len(incs) == 1 and not any(a['id'] == w['id'] for a in fn.ancestors(incs[0]['id'])) and bool(outer) and \
        any(z['id'] == incs[0]['id'] for z in fn.walk(outer[0]['then']))
    rep.add('R13e', label(fn), 'counter-once-per-component', ok, fn.loc, 'component id advances once per component' if ok else
            'the component id does not advance exactly once per started component')


class CfgInterp(fd.Interp):
    """GridN configuration functions over a field valuation"""

    def __init__(self, fn, st):
        super().__init__(fn)
        self.st = st

    def load(self, n, env):
        if n['k'] == 'MemberExpr' and n.get('name') in self.st:
            return self.st[n['name']]
        raise AnalysisBroken('R13f: configuration code reads %s' % self.fn.fp(n['id']))

    def store(self, lhs, v, env):
        if lhs is not None and lhs['k'] == 'MemberExpr' and lhs.get('name') in self.st:
            self.st[lhs['name']] = v
            return
        raise AnalysisBroken('R13f: configuration code writes %s' % (self.fn.fp(lhs['id']) if lhs else '?'))

    def call(self, n, env):
        c = n.get('callee') or ''
        if c.endswith('::empty'):
            return True
        if '__assert_fail' in c:
            return None
        raise AnalysisBroken('R13f: configuration code calls ' + c)


def r13f(rep, F):
    rep.rule('R13f', 'a configured interior limit is kept: GridN::setDimension and setInteriorCellNeighborLimit are interpreted over the '
                     'fields (dimension_, maxNeighbors_, interiorCellNeighborsLimit_, overrideCellNeighborsLimit_) for every history of '
                     'up to three calls with dimensions 1..3 and limits 1..6 from every default start (dimension 0..3, limit = 2 * '
                     'dimension, no override): afterwards the limit is the last configured one if any was configured, else 2 * dimension, '
                     'and maxNeighbors_ = 2 * dimension_')
    sd = [f for f in F.by_name.get('ompl::GridN::setDimension', []) if f.body]
    sl = [f for f in F.by_name.get('ompl::GridN::setInteriorCellNeighborLimit', []) if f.body]
    if not sd or not sl:
        raise AnalysisBroken('R13f: GridN::setDimension / setInteriorCellNeighborLimit not instantiated')
    sd, sl = sd[0], sl[0]
    ops = [('dim', d) for d in (1, 2, 3)] + [('lim', L) for L in (1, 2, 3, 4, 5, 6)]
    bad = None
    runs = 0
    for d0 in (0, 1, 2, 3):
        for k in (1, 2, 3):
            for hist in itertools.product(ops, repeat=k):
                st = {'dimension_': d0, 'maxNeighbors_': 2 * d0, 'interiorCellNeighborsLimit_': 2 * d0, 'overrideCellNeighborsLimit_': False}
                configured = None
                for (op, v) in hist:
                    f = sd if op == 'dim' else sl
                    it = CfgInterp(f, st)
                    it.run({'%s#%d' % (f.params[0]['name'], f.params[0]['did']): v})
                    if op == 'lim':
                        configured = v
                runs += 1
                want = configured if configured is not None else 2 * st['dimension_']
                if bad is None and (st['interiorCellNeighborsLimit_'] != want or st['maxNeighbors_'] != 2 * st['dimension_']):
                    bad = 'from dimension %d, after %s the interior limit is %s (expected %s) and maxNeighbors_ is %s' % (
                        d0, ', '.join('setDimension(%d)' % v if o == 'dim' else 'setInteriorCellNeighborLimit(%d)' % v for o, v in hist),
                        st['interiorCellNeighborsLimit_'], want, st['maxNeighbors_'])
    rep.add('R13f', 'ompl::GridN::setInteriorCellNeighborLimit', 'configured-limit-kept', bad is None, sl.loc,
            bad or 'limit = last configured value, else 2 * dimension, on %d abstract histories' % runs)


def run(rep):
    F = facts.load_units(INST)
    rep.units.update(INST)
    rep.functions.update(f.key for f in F.functions if f.record in ('ompl::Grid', 'ompl::GridN', 'ompl::GridB'))
    r13a(rep, F)
    r13b(rep, F)
    r13c(rep, F)
    r13d(rep, F)
    r13e(rep, F)
    r13f(rep, F)
