"""C07 -- interpolation: endpoints, alias safety, forwarding (structural clauses in algebraic normal form, engine E10).

R07a forwarding: CompoundStateSpace::interpolate is FORALL i < componentCount_: components_[i]->interpolate(from[i], to[i], t,
     out[i]) with the same t; the wrapper spaces forward (from, to, t, state) in order to the wrapped space
R07b alias safety: for the closed-form spaces the final value of every output field is the same normal form (a function of
     the *initial* from/to values) whether the output state is a separate object, aliases from, or aliases to
R07c endpoints: with t := 0 every output field normalises to the corresponding field of from, with t := 1 to that of to
     (SO(3): to or -to; on a path whose condition is equalStates(from, to) the result may be from) -- modulo the boundary of
     comparisons, i.e. the seam representative +-pi of SO(2).  Also decided for the t <= 0 / t >= 1 short-cuts of the
     path-based spaces (Dubins, Reeds-Shepp, Owen, Vana, Vana-Owen)
R07d SO(2): on the long-way branch the blended value v is re-wrapped on both sides: out == v + (v > pi ? -2pi : (v < -pi ? 2pi : 0))
R07e SO(3): interpolate(from, to, t) and interpolate(from, -to, t) give the same rotation (out' == out or out' == -out on every
     path) -- to and -to are the same state
R07g cached path typestate (Dubins, Reeds-Shepp): on every path through interpolate(from, to, t, firstTime, path, state) on which
     firstTime is cleared, path has been assigned
"""
from engine import facts, sym, paths
from engine.facts import AnalysisBroken
from engine.sym import Poly, Unsupported
from engine.shape import key, args
from rules.planners import nofp
from rules import c06
from rules.c06 import B, UNITS, definer

A, Bs, OUT = ('S', 'A'), ('S', 'B'), ('S', 'OUT')
T = Poly.atom(('S', 't'))
SIG4 = ('(const ompl::base::State *, const ompl::base::State *, const double, ompl::base::State *) const',
        '(const ompl::base::State *, const ompl::base::State *, double, ompl::base::State *) const')
CLOSED = ['RealVectorStateSpace', 'SO2StateSpace', 'SO3StateSpace', 'TimeStateSpace', 'DiscreteStateSpace']
EQ_OK = {B + 'SO3StateSpace'}             # spaces with a representation symmetry: out may be -to
PI = Poly.atom(('g', 'boost::math::double_constants::pi'))
PATH_BASED = [('DubinsStateSpace', 6), ('ReedsSheppStateSpace', 6), ('OwenStateSpace', 5), ('VanaStateSpace', 5), ('VanaOwenStateSpace', 5)]


def interp_fn(F, rec, nparams=4):
    fs = [f for f in F.by_name.get(B + rec + '::interpolate', []) if f.body and len(f.params) == nparams and
          (nparams != 4 or f.sig.endswith(SIG4))]
    if not fs:
        raise AnalysisBroken('anchor vanished: %s::interpolate/%d' % (rec, nparams))
    return fs[0]


def bounds_ctx(F, rec, out):
    ctx = c06.mk_ctx(F, B + rec)
    for a in (A, Bs):
        if out != a:
            ctx.distinct.add(frozenset((a, out)))
    if rec == 'SO2StateSpace':
        # in-bounds states exactly as SO2StateSpace::satisfiesBounds defines them: -pi <= value < pi.  The upper bound is
        # strict, so a path that needs value >= pi (a re-wrap test written with >=) is infeasible for in-bounds inputs,
        # while one that fires at value == -pi (a re-wrap test written with <=) is feasible and is judged
        for s in (A, Bs):
            v = Poly.atom(('rd', ('F', s, 'value')))
            ctx.lt0 += [v - PI]
            ctx.le0 += [-v - PI]
    return ctx


def leaves_of(F, f, rec, t, out=OUT, to=Bs, extra=None, split='all'):
    """leaves of interpolate under a binding: [(facts, final(field-ref) -> value, effects)]"""
    ctx = bounds_ctx(F, rec, out)
    m = sym.Machine(F, ctx)
    m.split = split
    st = {'env': {}, 'heap': [], 'alias': {}, 'this': ('T',), 'facts': []}
    vals = {'from': A, 'to': to, 't': t, 'state': out}
    names = [p['name'] for p in f.params]
    order = [A, to, t] + list(extra or []) + [out]
    for p, v in zip(f.params, order):
        st['env'][p['did']] = v
    r = m.block(f, [f.body], st)
    return m, sym.leaves(r, st)


def observed(leaves_, root):
    """field references (relative to the output object) stored on any leaf; ('*',) stands for 'every field' (copyState)"""
    obs = []
    for facts_, st, r in leaves_:
        for k, v, q in st['heap']:
            if isinstance(k, tuple) and k and k[0] == 'ALL':
                if ('*',) not in obs:
                    obs.append(('*',))
            elif isinstance(k, tuple) and k and k[0] in ('F', 'I'):
                rel = sym._reroot(k, root, ('ROOT',))
                if rel is not None and (rel, q) not in obs:
                    obs.append((rel, q))
    return obs


def final(m, st, root, ob):
    if ob == ('*',):
        return m.read(('F', root, '*any*'), st)
    rel, q = ob
    return m.read(sym._reroot(rel, ('ROOT',), root), st)


def field_of(src_root, ob):
    if ob == ('*',):
        return Poly.atom(('rd', ('F', src_root, '*any*')))
    return Poly.atom(('rd', sym._reroot(ob[0], ('ROOT',), src_root)))


def effects(st):
    return [(k, v, q) for k, v, q in st['heap'] if isinstance(k, tuple) and k and k[0] == 'E']


def r07a(rep, F):
    rep.rule('R07a', 'CompoundStateSpace::interpolate in normal form is exactly FORALL i in [0, componentCount_): '
                     'components_[i]->interpolate(from->components[i], to->components[i], t, state->components[i]); '
                     'WrapperStateSpace / CForestStateSpaceWrapper forward (from, to, t, state) (unwrapped) to space_->interpolate')
    f = interp_fn(F, 'CompoundStateSpace')
    try:
        m, ls = leaves_of(F, f, 'CompoundStateSpace', T)
    except Unsupported as e:
        raise AnalysisBroken('R07a: CompoundStateSpace::interpolate outside the fragment: %s' % e)
    i = Poly.atom(('bv', 1))
    comp = lambda s: ('I', ('F', s, 'components'), i.key())
    want = [(('E', B + 'StateSpace::interpolate', ('I', ('F', ('T',), 'components_'), i.key()), comp(A), comp(Bs), T.key(), comp(OUT)),
             True, (('bv', 1), Poly().key(), Poly.atom(('rd', ('F', ('T',), 'componentCount_'))).key()))]
    ok = len(ls) == 1 and ls[0][1]['heap'] == want
    rep.add('R07a', f.name, 'per-component', ok, f.where(f.nodes[f.body]),
            'forall i: components_[i]->interpolate(from[i], to[i], t, state[i])' if ok else
            'effects are %s' % [(k[1], [sym.show_ref(x) if isinstance(x, tuple) and x[0] != 'poly' else sym.show_atom(x) for x in k[2:]],
                                 q and (sym.show_atom(q[1]), sym.show_atom(q[2]))) for k, v, q in ls[0][1]['heap']][:3])
    n = 1
    for W in c06.WRAPPERS:
        fs = [x for x in F.by_name.get(W + '::interpolate', []) if x.body and len(x.params) == 4]
        if not fs:
            raise AnalysisBroken('anchor vanished: %s::interpolate' % W)
        f = fs[0]
        m = sym.Machine(F, sym.Ctx(inline=None))
        st = {'env': {}, 'heap': [], 'alias': {}, 'this': ('T',), 'facts': []}
        for p, v in zip(f.params, (A, Bs, T, OUT)):
            st['env'][p['did']] = v
        try:
            m.block(f, [f.body], st)
        except Unsupported as e:
            raise AnalysisBroken('R07a: %s outside the fragment: %s' % (f.name, e))
        unwrap = (lambda s: ('call', B + 'WrapperStateSpace::StateType::getState', s)) if W == B + 'WrapperStateSpace' else (lambda s: s)
        eff = effects(st)
        ok = len(eff) == 1 and len(st['heap']) == 1 and eff[0][0][1].endswith('StateSpace::interpolate') and \
            _strip_ptr(eff[0][0][2]) == ('F', ('T',), 'space_') and tuple(eff[0][0][3:]) == (unwrap(A), unwrap(Bs), T.key(), unwrap(OUT))
        n += 1
        rep.add('R07a', f.name, 'forward', ok, f.where(f.nodes[f.body]),
                'space_->interpolate(from, to, t, state)' if ok else 'does not forward (from, to, t, state) in order to space_->interpolate')
    rep.require_count('R07a', 'forwarding instances', n, 3)


def _strip_ptr(recv):
    while isinstance(recv, tuple) and recv and recv[0] == 'call' and ('operator->' in recv[1] or recv[1].endswith('::get')):
        recv = recv[2] if recv[2] is not None else recv[3]
    return recv


def by_facts(ls):
    d = {}
    for facts_, st, r in ls:
        d.setdefault(frozenset(facts_), []).append(st)
    return d


def r07bc(rep, F):
    rep.rule('R07b', 'alias safety in normal form: for RealVector, SO(2), SO(3), time, discrete the final value of every output field on '
                     'every path is the same function of the initial from/to fields for state distinct, state == from, state == to')
    rep.rule('R07c', 'endpoints in normal form: t := 0 gives out == from and t := 1 gives out == to on every path (SO(3): +-to; a path whose '
                     'condition is equalStates(from, to) may give from) modulo the boundary of comparisons; includes the t <= 0 / t >= 1 '
                     'short-cuts of the path-based spaces on a first call')
    nb = nc = 0
    sym.LOOSE[0] = True
    try:
        for rec in CLOSED:
            f = interp_fn(F, rec)
            # ---------------- R07b
            try:
                m0, l0 = leaves_of(F, f, rec, T)
                if not observed(l0, OUT):
                    raise AnalysisBroken('R07b: %s writes nothing' % f.name)
                ref0, obs_of = {}, {}
                for facts_, st, r in l0:
                    obs_of[frozenset(facts_)] = observed([(facts_, st, r)], OUT)
                    ref0[frozenset(facts_)] = [final(m0, st, OUT, ob) for ob in obs_of[frozenset(facts_)]]
                for alias_to, name in ((A, 'state==from'), (Bs, 'state==to')):
                    m1, l1 = leaves_of(F, f, rec, T, out=alias_to)
                    got = {}
                    for facts_, st, r in l1:
                        got[frozenset(facts_)] = [final(m1, st, alias_to, ob) for ob in obs_of.get(frozenset(facts_), [])]
                    # compare after renaming reads of OUT (never read in a correct routine) -- path sets must agree
                    ok = set(got) == set(ref0) and all(all(sym._same(x, y) for x, y in zip(got[k], ref0[k])) for k in got)
                    nb += 1
                    detail = 'same normal form on %d path(s), %d field store(s)' % (len(got), sum(len(v) for v in obs_of.values()))
                    if not ok:
                        bad = []
                        for k in got:
                            if k in ref0:
                                for ob, x, y in zip(obs_of[k], got[k], ref0[k]):
                                    if not sym._same(x, y):
                                        bad.append('%s: %s instead of %s' % (_obname(ob), sym.show(x)[:160], sym.show(y)[:160]))
                            else:
                                bad.append('path set differs')
                        detail = 'with %s the result changes: %s' % (name, '; '.join(bad[:2]) or 'path set differs')
                    rep.add('R07b', f.name, name, ok, f.where(f.nodes[f.body]), detail)
            except Unsupported as e:
                raise AnalysisBroken('R07b: %s outside the fragment: %s' % (f.name, e))
            # ---------------- R07c
            eqf = definer(F, B + rec, 'equalStates', c06.SIG2)
            e_ab = c06.nf(F, eqf, dict(zip(c06.pnames(eqf), (A, Bs))), bounds_ctx(F, rec, OUT)) if eqf else None
            for tv, srcr, role in ((0, A, 't=0'), (1, Bs, 't=1')):
                try:
                    m, ls = leaves_of(F, f, rec, Poly.const(tv))
                except Unsupported as e:
                    raise AnalysisBroken('R07c: %s outside the fragment: %s' % (f.name, e))
                bad = []
                nobs = 0
                for facts_, st, r in ls:
                    obs = observed([(facts_, st, r)], OUT)
                    nobs += len(obs)
                    if not obs:
                        bad.append('a path writes nothing')
                        continue
                    vals = [final(m, st, OUT, ob) for ob in obs]
                    want = [field_of(srcr, ob) for ob in obs]
                    if all(sym._same(x, y) for x, y in zip(vals, want)):
                        continue
                    if B + rec in EQ_OK and _all_scaled(vals, want):
                        continue
                    if tv == 1 and e_ab is not None and e_ab in facts_ and all(sym._same(x, field_of(A, ob)) for x, ob in zip(vals, obs)):
                        continue                      # from and to are equal states on this path
                    for ob, x, y in zip(obs, vals, want):
                        if not sym._same(x, y):
                            bad.append('%s = %s' % (_obname(ob), sym.show(x)[:200]))
                            break
                nc += 1
                rep.add('R07c', f.name, role, not bad and nobs > 0, f.where(f.nodes[f.body]),
                        'out == %s on %d path(s)' % ('from' if tv == 0 else 'to', len(ls)) if not bad else
                        'at %s the result is not %s: %s' % (role, 'from' if tv == 0 else 'to', '; '.join(bad[:2])))
        # path-based spaces: the short-cuts
        for rec, np_ in PATH_BASED:
            f = interp_fn(F, rec, np_)
            extra = [True, ('S', 'PATH')] if np_ == 6 else [('S', 'PATH')]
            for tv, srcr, role in ((0, A, 't=0'), (1, Bs, 't=1')):
                try:
                    m, ls = leaves_of(F, f, rec, Poly.const(tv), extra=extra)
                except Unsupported as e:
                    raise AnalysisBroken('R07c: %s outside the fragment: %s' % (f.name, e))
                ok = len(ls) == 1 and [k for k, v, q in ls[0][1]['heap']] == [('ALL', OUT)] and ls[0][1]['heap'][0][1] == srcr
                nc += 1
                rep.add('R07c', f.name, role + '/first-call', ok, f.where(f.nodes[f.body]),
                        'copies %s' % ('from' if tv == 0 else 'to') if ok else
                        'on a first call with %s the output is not a copy of %s' % (role, 'from' if tv == 0 else 'to'))
    finally:
        sym.LOOSE[0] = False
    rep.require_count('R07b', 'alias instances', nb, 10)
    rep.require_count('R07c', 'endpoint instances', nc, 20)


def _obname(ob):
    return 'state' if ob == ('*',) else sym.show_ref(sym._reroot(ob[0], ('ROOT',), ('S', 'state')))


def _all_scaled(vals, want):
    """vals[i] == s * want[i] for one common sign selector s with s^2 == 1"""
    s = None
    for x, y in zip(vals, want):
        if sym._same(x, y):
            k = Poly.const(1)
        elif sym._same(x, -y):
            k = Poly.const(-1)
        else:
            # x = y * sel with sel an ite over +-1
            k = None
            if len(y.t) == 1 and len(x.t) == 1:
                (my, cy), = y.t.items()
                (mx, cx), = x.t.items()
                rest = [a for a in mx if a not in my]
                if len(rest) == 1 and rest[0][1] == 1 and rest[0][0][0] == 'ite' and set(my) <= set(mx) and abs(cx) == abs(cy):
                    a = rest[0][0]
                    if {sym.from_key(a[2]).cval() if sym.from_key(a[2]).is_const() else None,
                            sym.from_key(a[3]).cval() if sym.from_key(a[3]).is_const() else None} == {1, -1}:
                        k = Poly.atom(a).scale(cx / cy)
            if k is None:
                return False
        if s is None:
            s = k
        elif not sym._same(s, k):
            return False
    return True


def r07d(rep, F):
    rep.rule('R07d', 'SO2StateSpace::interpolate: on the path |to - from| > pi the stored value is v + (v > pi ? -2pi : (v < -pi ? 2pi : 0)) '
                     'for the blended value v -- the result is re-wrapped on both sides')
    f = interp_fn(F, 'SO2StateSpace')
    ctx = c06.mk_ctx(F, B + 'SO2StateSpace')
    ctx.distinct.add(frozenset((A, OUT)))
    ctx.distinct.add(frozenset((Bs, OUT)))
    m = sym.Machine(F, ctx)
    m.split = False
    st = {'env': {}, 'heap': [], 'alias': {}, 'this': ('T',), 'facts': []}
    for p, v in zip(f.params, (A, Bs, T, OUT)):
        st['env'][p['did']] = v
    try:
        r = m.block(f, [f.body], st)
    except Unsupported as e:
        raise AnalysisBroken('R07d: outside the fragment: %s' % e)
    val = m.read(('F', OUT, 'value'), st)
    # val = short + ite(|d| <= pi, 0, long - short); dig out the long-way branch
    long_ = None
    for mono, c in val.t.items():
        if len(mono) == 1 and mono[0][1] == 1 and mono[0][0][0] == 'ite':
            a = mono[0][0]
            cond_atoms = repr(a[1])
            if 'fabs' in cond_atoms:
                rest = val - Poly({mono: c})
                for br in (a[2], a[3]):
                    p = sym.from_key(br)
                    if p.t:
                        long_ = rest + p.scale(c)
    if long_ is None:
        raise AnalysisBroken('R07d: the long-way branch of SO2StateSpace::interpolate was not found in its normal form')
    # long_ = v + wrap(v): v is long_ without its outer ite term
    ok = False
    shown = sym.show(long_)[:300]
    for mono, c in long_.t.items():
        if len(mono) == 1 and mono[0][1] == 1 and mono[0][0][0] == 'ite' and c == 1:
            v = long_ - Poly({mono: c})
            two_pi = PI.scale(2)
            lo = sym.cmp0('lt0', v + PI, ctx)
            # the two tests are mutually exclusive, so either nesting order is the same function; the upper test may be
            # v > pi or v >= pi (the bounds are [-pi, pi): wrapping +pi to -pi is the better behaviour), the lower one
            # must stay strict (v <= -pi would move the in-bounds value -pi to the out-of-bounds +pi)
            for hi in (sym.cmp0('lt0', PI - v, ctx), sym.cmp0('le0', PI - v, ctx)):
                for want in (v + sym.ite(hi, -two_pi, sym.ite(lo, two_pi, Poly())), v + sym.ite(lo, two_pi, sym.ite(hi, -two_pi, Poly()))):
                    if sym._same(want, long_):
                        ok = True
    rep.add('R07d', f.name, 'rewrap', ok, f.where(f.nodes[f.body]),
            'long-way value is re-wrapped into [-pi, pi] on both sides' if ok else
            'the long-way result %s is not v + (v > pi ? -2pi : (v < -pi ? 2pi : 0))' % shown)


def r07e(rep, F):
    rep.rule('R07e', 'SO3StateSpace::interpolate(from, to, t) and interpolate(from, -to, t): same path set, and on each path the four '
                     'output components are equal or all negated (to and -to are the same rotation, distance 0)')
    rec = 'SO3StateSpace'
    f = interp_fn(F, rec)
    sym.LOOSE[0] = True
    try:
        try:
            m0, l0 = leaves_of(F, f, rec, T, split='writes')
            m1, l1 = leaves_of(F, f, rec, T, to=('N', Bs), split='writes')
        except Unsupported as e:
            raise AnalysisBroken('R07e: outside the fragment: %s' % e)
        obs_of = {frozenset(fa): observed([(fa, st, r)], OUT) for fa, st, r in l0 + l1}
        obs = None
        r0 = {frozenset(fa): [final(m0, st, OUT, ob) for ob in obs_of[frozenset(fa)]] for fa, st, r in l0}
        r1 = {frozenset(fa): [final(m1, st, OUT, ob) for ob in obs_of[frozenset(fa)]] for fa, st, r in l1}
        ok = set(r0) == set(r1)
        bad = '' if ok else 'the path conditions differ between to and -to'
        if ok:
            for k in r0:
                same = all(sym._same(x, y) for x, y in zip(r0[k], r1[k]))
                neg = all(sym._same(x, -y) for x, y in zip(r0[k], r1[k]))
                if not (same or neg):
                    ok = False
                    i = [j for j, (x, y) in enumerate(zip(r0[k], r1[k])) if not sym._same(x, y)][0]
                    bad = '%s is %s for to but %s for -to' % (_obname(obs_of[k][i]), sym.show(r0[k][i])[:200], sym.show(r1[k][i])[:200])
                    break
        rep.add('R07e', f.name, 'representation-symmetry', ok, f.where(f.nodes[f.body]),
                'same rotation for to and -to on %d path(s)' % len(r0) if ok else bad)
    finally:
        sym.LOOSE[0] = False


class CacheClient(paths.Client):
    """state: (cleared, filled)"""
    track = 'vars'

    def __init__(self, fn, flag_did, path_did):
        self.flag, self.path = flag_did, path_did
        self.bad = []

    def init(self, fn):
        return (False, False)

    def on_node(self, fn, node, auto, ctx):
        cleared, filled = auto
        if node['k'] == 'BinaryOperator' and node.get('op') == '=':
            t = fn.strip(node['ch'][0])
            if t is not None and t['k'] == 'DeclRefExpr' and t.get('did') == self.flag:
                v = fn.strip(node['ch'][1])
                if v is not None and v['k'] == 'CXXBoolLiteralExpr' and not v['v']:
                    cleared = True
            if t is not None and t['k'] == 'DeclRefExpr' and t.get('did') == self.path:
                filled = True
        if node['k'] == 'CXXOperatorCallExpr' and node.get('oop') == '=':
            t = fn.strip(node['ch'][0])
            if t is not None and t['k'] == 'DeclRefExpr' and t.get('did') == self.path:
                filled = True
        return (cleared, filled)

    def at_exit(self, fn, ret, auto, ctx):
        if auto[0] and not auto[1]:
            self.bad.append(ctx.path())


def r07g(rep, F):
    rep.rule('R07g', 'typestate over the CFG of interpolate(from, to, t, firstTime, path, state) (Dubins, Reeds-Shepp): every path that '
                     'reaches an exit with firstTime = false executed has assigned path before the exit -- a later call with the '
                     'same arguments reads the cached path')
    n = 0
    for rec in ('DubinsStateSpace', 'ReedsSheppStateSpace'):
        f = interp_fn(F, rec, 6)
        flag = [p for p in f.params if p['ty'].replace(' ', '') == 'bool&']
        pth = [p for p in f.params if p['ty'].endswith('Path &') and 'const' not in p['ty']]
        if len(flag) != 1 or len(pth) != 1:
            raise AnalysisBroken('R07g: parameters of %s changed' % f.name)
        cl = CacheClient(f, flag[0]['did'], pth[0]['did'])
        paths.run_function(f, cl, F)
        n += 1
        ok = not cl.bad
        rep.add('R07g', f.name, 'cache-filled-before-flag-cleared', ok, f.where(f.nodes[f.body]),
                'on every path: firstTime cleared => path assigned' if ok else
                'a path clears firstTime and returns without assigning path: the next call interpolates along an unset path',
                path=cl.bad[0] if cl.bad else None)
    rep.require_count('R07g', 'cached-path instances', n, 2)


def r07h(rep, F):
    rep.rule('R07h', 'scratch states guard the right input: where interpolate selects its scratch as S = (G == state) ? allocState() : state '
                     '(so that writing S does not clobber an input that aliases the output), every input-state parameter that is still '
                     'read -- passed to a call -- after the first call that writes S is G itself, and the matching freeState(S) is guarded '
                     'by the same comparison.  Guarding the other input leaves `from` overwritten when state == from')
    n = 0
    for f in F.functions:
        if not f.body or not f.name.endswith('::interpolate') or '/spaces/' not in f.file:
            continue
        sparams = {'%s#%d' % (p['name'], p['did']) for p in f.params if 'State' in (p.get('ty') or '') and (p.get('ty') or '').startswith('const')}
        outp = [p for p in f.params if 'State' in (p.get('ty') or '') and not (p.get('ty') or '').startswith('const') and '*' in (p.get('ty') or '')]
        if not outp:
            continue
        okey = '%s#%d' % (outp[-1]['name'], outp[-1]['did'])
        for ds in [x for x in f.walk() if x['k'] == 'DeclStmt']:
            for d in ds.get('decls', []):
                ini = f.strip(d['init']) if d.get('init') else None
                if ini is None or ini['k'] != 'ConditionalOperator':
                    continue
                cond = f.strip(ini['ch'][0])
                alt = [f.strip(ini['ch'][1]), f.strip(ini['ch'][2])]
                if cond is None or cond['k'] != 'BinaryOperator' or cond.get('op') != '==' or not any(
                        a is not None and (a.get('callee') or '').endswith('::allocState') for a in alt):
                    continue
                ks = [key(f, cond['ch'][0]), key(f, cond['ch'][1])]
                if okey not in ks:
                    continue
                G = [k for k in ks if k != okey][0]
                skey = '%s#%d' % (d['name'], d['did'])
                n += 1
                # scope of S: the enclosing compound statement
                scope = next((a for a in f.ancestors(ds['id']) if a['k'] == 'CompoundStmt'), None)
                calls = [c for c in f.walk(scope['id']) if c.get('callee') and f.line(c) >= f.line(ds) and c['id'] not in {z['id'] for z in f.walk(ds['id'])}]
                w = next((c for c in sorted(calls, key=lambda c: (f.line(c), c['id'])) if any(key(f, a) == skey for a in args(f, c))), None)
                if w is None:
                    rep.add('R07h', f.name, 'scratch-guard[%s]' % d['name'], False, f.where(ds), 'the scratch state is never written')
                    continue
                later = set()
                for c in calls:
                    if f.line(c) > f.line(w):
                        for a in args(f, c):
                            if key(f, a) in sparams:
                                later.add(key(f, a))
                frees = [c for c in calls if (c.get('callee') or '').endswith('::freeState') and any(key(f, a) == skey for a in args(f, c))]
                fguard = True
                for c in frees:
                    g = next((a for a in f.ancestors(c['id']) if a['k'] == 'IfStmt'), None)
                    gk = {key(f, z['id']) for z in f.walk(g['cond']) if z['k'] == 'DeclRefExpr'} if g else set()
                    fguard = fguard and gk == {G, okey}
                bad = later - {G}
                ok = not bad and fguard and bool(frees)
                rep.add('R07h', f.name, 'scratch-guard[%s]' % d['name'], ok, f.where(ds),
                        'scratch used when %s aliases the output; inputs read after it is written: %s' % (nofp(G), sorted(nofp(x) for x in later) or 'none')
                        if ok else ('the scratch state is chosen by comparing the output with %s, but %s is read after the scratch (possibly the '
                                    'output itself) has been written: with state == %s that input is overwritten first' % (
                                        nofp(G), ', '.join(sorted(nofp(x) for x in bad)), sorted(nofp(x) for x in bad)[0]) if bad else
                                    'the freeState of the scratch is not guarded by the comparison that allocated it'))
    rep.require_count('R07h', 'scratch selections in interpolate', n, 3)


def run(rep):
    F = facts.load_units(UNITS)
    rep.units.update(UNITS)
    rep.functions.update(f.key for f in F.functions if f.name.endswith('::interpolate') or f.name.endswith('::equalStates'))
    r07a(rep, F)
    r07bc(rep, F)
    r07d(rep, F)
    r07e(rep, F)
    r07g(rep, F)
    r07h(rep, F)
    for rec in ('MobiusStateSpace', 'KleinBottleStateSpace'):
        rep.undecided('R07b', B + rec + '::interpolate', 'alias', 'reads the output state after a component interpolation wrote it; '
                      'outside the normalisable fragment')
    for rec, np_ in PATH_BASED:
        rep.undecided('R07c', B + rec + '::interpolate', '0<t<1', 'path integration (switch over segment types, data-dependent loop)')
