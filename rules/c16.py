"""C16 -- constrained spaces keep sampled, interpolated and geodesic states on the manifold (structural clauses).

R16a geodesic typestate (ProjectedStateSpace / AtlasStateSpace ::discreteGeodesic): a state appended to the geodesic (other than the
     seed clone of `from`) carries, since its last write, a successful projection (Constraint::project / AtlasChart::psi) and a step
     measurement distance(previous, candidate) taken *after* that projection and found within lambda_ * delta_; copyState transfers
     the status; the success result is `distance to the target <= delta_`
R16b motion validity: both ConstrainedMotionValidator::checkMotion overloads return isSatisfied(s2) && <geodesic reached s2> (or false)
R16c interpolation returns a geodesic element: ConstrainedStateSpace::interpolate copies `from` or geodesicInterpolate(geodesic, t), the
     latter only under a successful discreteGeodesic; geodesicInterpolate returns only elements of its input vector; the lazy
     tangent-bundle variant projects the picked element and falls back to geodesic[0]
R16d samplers: AtlasStateSampler's retry loops, interpreted over a finite domain (retry budget 1..3, every outcome sequence of psi /
     inPolytope / chart creation): on exit the output state holds a successful chart projection, or the documented fallback copy
     (near / mean / chart origin) was taken, or the draw was delegated; and no sampler of a constrained space writes the output
     state after its projection (a later enforceBounds clamps it off the manifold -- known findings, replayed)
R16e units of the Newton tolerance: a value obtained from squaredNorm() is compared only with a squared tolerance (tol * tol), a
     value from norm() only with a tolerance (Constraint::project / isSatisfied, AtlasChart::psi)
R16f Newton verdict freshness: in Constraint::project and AtlasChart::psi the residual norm that is returned was computed from the
     residual of the *current* iterate: an update of the iterate makes residual and norm stale until function() and squaredNorm()
     are re-evaluated, in that order
"""
import itertools
from engine import facts, paths, fd, sym, lin
from engine.facts import AnalysisBroken, src
from engine.shape import key, args

B = 'ompl::base::'
CS = lambda f: src('base', 'spaces', 'constraint', 'src', f)
UNITS = [CS('ConstrainedStateSpace.cpp'), CS('ProjectedStateSpace.cpp'), CS('AtlasStateSpace.cpp'), CS('TangentBundleStateSpace.cpp'),
         CS('AtlasChart.cpp'), src('base', 'src', 'Constraint.cpp')]
PROJECT = ('::project', '::psi')


def vkey(fn, nid):
    """variable a state expression denotes:  scratch, *temp, temp->as<..>() ..."""
    n = fn.strip(nid)
    while n is not None and n['k'] in ('UnaryOperator', 'CXXMemberCallExpr', 'MemberExpr', 'CXXStaticCastExpr', 'CXXConstructExpr',
                                       'ImplicitCastExpr', 'MaterializeTemporaryExpr') and n['ch']:
        if n['k'] == 'CXXConstructExpr' and len([c for c in n['ch'] if fn.nodes[c]['k'] != 'CXXDefaultArgExpr']) != 1:
            break
        if n['k'] == 'UnaryOperator' and n.get('op') not in ('*', '&'):
            break
        if n['k'] == 'CXXMemberCallExpr' and not (n.get('callee') or '').endswith('::as'):
            break
        n = fn.strip(n['ch'][0])
    if n is not None and n['k'] == 'DeclRefExpr':
        return '%s#%d' % (n.get('name'), n.get('did'))
    return None


class GeodesicClient(paths.Client):
    """auto = frozenset of facts: ('ok', var) projected since last write; ('meas', stepvar, var) fresh measurement of var in stepvar;
    ('bounded', var); ('pend', var, node id)"""
    track = 'vars'
    fork_bools = True

    def __init__(self, fn):
        self.bad = []
        self.pushes = 0
        self.params = {'%s#%d' % (p['name'], p['did']) for p in fn.params}

    def init(self, fn):
        return frozenset()

    def kill(self, auto, var):
        return frozenset(x for x in auto if not ((x[0] in ('ok', 'bounded', 'pend') and x[1] == var) or (x[0] == 'meas' and x[2] == var)))

    def on_node(self, fn, node, auto, ctx):
        c = node.get('callee')
        # step = distance(prev, cand)
        tgt = rhs = None
        if node['k'] == 'BinaryOperator' and node.get('op') == '=':
            tgt, rhs = fn.strip(node['ch'][0]), fn.strip(node['ch'][1])
        elif node['k'] == 'DeclStmt' and node.get('decls') and node['decls'][0].get('init'):
            d = node['decls'][0]
            tgt, rhs = {'k': 'DeclRefExpr', 'name': d['name'], 'did': d['did']}, fn.strip(d['init'])
        if tgt is not None and rhs is not None and tgt.get('k') == 'DeclRefExpr' and (rhs.get('callee') or '').endswith('::distance'):
            a = args(fn, rhs)
            if len(a) == 2:
                sv = '%s#%d' % (tgt.get('name'), tgt.get('did'))
                auto = frozenset(x for x in auto if not (x[0] == 'meas' and x[1] == sv))
                for v in (vkey(fn, a[0]), vkey(fn, a[1])):
                    if v and v not in self.params:
                        auto = auto | {('meas', sv, v)}
                return auto
        if c is None:
            return auto
        a = args(fn, node)
        short = c.split('::')[-1]
        if any(c.endswith(p) for p in PROJECT) and a:
            v = vkey(fn, a[-1])
            if v:
                auto = self.kill(auto, v) | {('pend', v, node['id'])}
            return auto
        if short == 'copyState' and len(a) == 2:
            d, s = vkey(fn, a[0]), vkey(fn, a[1])
            if d:
                st = {x[0] for x in auto if x[0] in ('ok', 'bounded') and x[1] == s}
                auto = self.kill(auto, d) | {(t, d) for t in st}
            return auto
        if short == 'push_back' and a:
            inner = fn.strip(a[0])
            v = None
            if inner is not None and (inner.get('callee') or '').endswith('::cloneState'):
                v = vkey(fn, args(fn, inner)[0])
            else:
                v = vkey(fn, a[0])
            if v and v not in self.params:
                self.pushes += 1
                if ('ok', v) not in auto:
                    self.bad.append(('%s is appended to the geodesic without a successful projection since its last write' % v.split('#')[0], ctx.path()))
                elif ('bounded', v) not in auto:
                    self.bad.append(('%s is appended to the geodesic without a step measurement within lambda_ * delta_ taken after its '
                                     'projection' % v.split('#')[0], ctx.path()))
            return auto
        for i in node.get('wargs') or []:
            if i < len(a):
                v = vkey(fn, a[i])
                if v and 'State' in (fn.nodes[a[i]].get('ty') or '') + (fn.strip(a[i]) or {}).get('ty', ''):
                    auto = self.kill(auto, v)
        for x in a:
            ty = fn.nodes[x].get('ty') or ''
            if ty.startswith('Eigen::Ref<Eigen::') and 'const' not in ty:
                v = vkey(fn, x)                  # a writable Eigen view of a state, passed by value
                if v:
                    auto = self.kill(auto, v)
        return auto

    def learn(self, fn, node, value, auto, ctx):
        if node.get('id') is None:
            return auto
        hit = [x for x in auto if x[0] == 'pend' and x[2] == node['id']]
        if hit:
            auto = auto - set(hit)
            if value:
                auto = auto | {('ok', x[1]) for x in hit}
            return auto
        if node['k'] == 'BinaryOperator' and node.get('op') in ('>', '>=') and value is False:
            l = fn.strip(node['ch'][0])
            if l is not None and l['k'] == 'BinaryOperator' and l.get('op') == '=':
                l = fn.strip(l['ch'][0])
            rfp = fn.fp(node['ch'][1])
            if l is not None and l['k'] == 'DeclRefExpr' and 'lambda_' in rfp and 'delta_' in rfp:
                sv = '%s#%d' % (l.get('name'), l.get('did'))
                for x in list(auto):
                    if x[0] == 'meas' and x[1] == sv and ('ok', x[2]) in auto:
                        auto = auto | {('bounded', x[2])}
        return auto


def r16a(rep, F):
    rep.rule('R16a', 'typestate over the CFG of ProjectedStateSpace::discreteGeodesic and AtlasStateSpace::discreteGeodesic: per state '
                     'variable, `ok` after Constraint::project / AtlasChart::psi returned true on it, lost at any other write; a step '
                     'variable measures distance(previous, candidate); `bounded` once that step tested <= lambda_ * delta_ while the '
                     'candidate is ok and unwritten since the measurement; copyState transfers both; every push_back onto the geodesic '
                     '(except the clone of the parameter from) requires ok and bounded; the function\'s success result is a comparison of '
                     'the remaining distance with delta_')
    n = 0
    for rec in ('ProjectedStateSpace', 'AtlasStateSpace'):
        fs = [f for f in F.by_name.get(B + rec + '::discreteGeodesic', []) if f.body]
        if not fs:
            raise AnalysisBroken('anchor vanished: %s::discreteGeodesic' % rec)
        fn = fs[0]
        cl = GeodesicClient(fn)
        paths.run_function(fn, cl, F)
        if cl.pushes == 0:
            raise AnalysisBroken('R16a: no geodesic push_back of an intermediate state found in ' + fn.name)
        n += 1
        rep.add('R16a', fn.name, 'appended-states-projected-and-step-bounded', not cl.bad, fn.where(fn.nodes[fn.body]),
                'every appended state is projected and step-bounded' if not cl.bad else cl.bad[0][0], cl.bad[0][1] if cl.bad else None)
        # success result
        rets = [r for r in fn.walk() if r['k'] == 'ReturnStmt' and r['ch']]
        last = rets[-1]
        e = fn.strip(last['ch'][0])
        defs = {}
        for ds in [x for x in fn.walk() if x['k'] == 'DeclStmt']:
            for d in ds.get('decls', []):
                if d.get('init'):
                    defs[d['did']] = d['init']
        cmps = None
        if e is not None and e['k'] == 'DeclRefExpr' and e.get('dk') == 'Local':
            # every definition of the returned local: its initialiser and later assignments; a definition that is the literal false is a
            # failure verdict and carries no obligation
            alld = [defs[e['did']]] if e.get('did') in defs else []
            alld += [x['ch'][1] for x in fn.walk() if x['k'] == 'BinaryOperator' and x.get('op') == '=' and
                     (fn.strip(x['ch'][0]) or {}).get('did') == e.get('did') and (fn.strip(x['ch'][0]) or {}).get('k') == 'DeclRefExpr']
            alld = [d_ for d_ in alld if not ((fn.strip(d_) or {}).get('k') == 'CXXBoolLiteralExpr' and (fn.strip(d_) or {}).get('v') in (False, 'false', 0))]
            cmps = [x for d_ in alld for x in fn.walk(d_)]
        if cmps is None:
            cmps = [x for x in fn.walk(e['id'])] if e is not None else []
        ok = False
        for x in cmps:
            if x['k'] == 'BinaryOperator' and x.get('op') == '<=':
                r = fn.strip(x['ch'][1])
                rname = (r or {}).get('name')
                if r is not None and r['k'] == 'DeclRefExpr' and r.get('did') in defs:
                    rname = (fn.strip(defs[r['did']]) or {}).get('name')
                lfp = fn.fp(x['ch'][0])
                if rname == 'delta_' and ('dist' in lfp or 'distance' in lfp):
                    ok = True
        n += 1
        rep.add('R16a', fn.name, 'success-means-within-delta', ok, fn.where(last),
                'returns <remaining distance> <= delta_' if ok else 'the final result is not a comparison of the remaining distance with delta_')
    rep.require_count('R16a', 'geodesic obligations', n, 4)


def r16b(rep, F):
    rep.rule('R16b', 'ConstrainedMotionValidator::checkMotion (both overloads): every return is the literal false or the conjunction of '
                     'getConstraint()->isSatisfied(s2) with the verdict of discreteGeodesic(s1, s2, false, ...)')
    fs = [f for f in F.by_name.get(B + 'ConstrainedMotionValidator::checkMotion', []) if f.body]
    if len(fs) < 2:
        raise AnalysisBroken('anchor vanished: ConstrainedMotionValidator::checkMotion overloads')
    for fn in fs:
        defs = {}
        for ds in [x for x in fn.walk() if x['k'] == 'DeclStmt']:
            for d in ds.get('decls', []):
                if d.get('init'):
                    defs[d['did']] = d['init']
        p1, p2 = fn.params[0]['name'], fn.params[1]['name']
        probs = []
        nret = 0
        for r in fn.walk():
            if r['k'] != 'ReturnStmt' or not r['ch']:
                continue
            nret += 1
            e = fn.strip(r['ch'][0])
            if e['k'] == 'CXXBoolLiteralExpr' and not e['v']:
                continue
            if not (e['k'] == 'BinaryOperator' and e.get('op') == '&&'):
                probs.append('line %d returns something else than a conjunction' % fn.line(r))
                continue
            sat = geo = False
            for side in e['ch']:
                x = fn.strip(side)
                if x['k'] == 'DeclRefExpr' and x.get('did') in defs:
                    x = fn.strip(defs[x['did']])
                cal = (x.get('callee') or '')
                a = args(fn, x) if cal else []
                if cal.endswith('::isSatisfied') and a and (fn.strip(a[0]) or {}).get('name') == p2:
                    sat = True
                if cal.endswith('::discreteGeodesic') and len(a) >= 3 and (fn.strip(a[0]) or {}).get('name') == p1 and \
                        (fn.strip(a[1]) or {}).get('name') == p2 and (fn.strip(a[2]) or {}).get('v') in (False, 0):
                    geo = True
            if not sat:
                probs.append('line %d does not require isSatisfied(%s)' % (fn.line(r), p2))
            if not geo:
                probs.append('line %d does not require discreteGeodesic(%s, %s, false) to have reached the target' % (fn.line(r), p1, p2))
        rep.add('R16b', fn.name, 'conjunction/%d' % len(fn.params), not probs and nret > 0, fn.where(fn.nodes[fn.body]),
                'isSatisfied(s2) && reached' if not probs else '; '.join(probs[:2]))


def r16c(rep, F):
    rep.rule('R16c', 'ConstrainedStateSpace::interpolate: the state copied into the output is the local that is initialised with `from` and '
                     're-assigned only to geodesicInterpolate(geodesic, t) under discreteGeodesic(from, to, true, &geodesic) == true; '
                     'ConstrainedStateSpace::geodesicInterpolate returns only geodesic[...] elements of its parameter; '
                     'TangentBundleStateSpace::geodesicInterpolate returns the picked element only after project() succeeded on it, '
                     'else geodesic[0]')
    fs = [f for f in F.by_name.get(B + 'ConstrainedStateSpace::interpolate', []) if f.body]
    if not fs:
        raise AnalysisBroken('anchor vanished: ConstrainedStateSpace::interpolate')
    fn = fs[0]
    cps = [c for c in fn.walk() if (c.get('callee') or '').endswith('::copyState')]
    probs = []
    if len(cps) != 1:
        probs.append('expected one copyState into the output')
    else:
        a = args(fn, cps[0])
        srcv = fn.strip(a[1])
        if (fn.strip(a[0]) or {}).get('name') != fn.params[3]['name'] or srcv is None or srcv['k'] != 'DeclRefExpr':
            probs.append('copyState does not copy a local into the output state')
        else:
            did = srcv['did']
            init = None
            for ds in [x for x in fn.walk() if x['k'] == 'DeclStmt']:
                for d in ds.get('decls', []):
                    if d['did'] == did:
                        init = fn.strip(d['init']) if d.get('init') else None
            if init is None or init.get('name') != fn.params[0]['name']:
                probs.append('the copied state does not default to `from`')
            for asg in [x for x in fn.walk() if x['k'] == 'BinaryOperator' and x.get('op') == '=' and (fn.strip(x['ch'][0]) or {}).get('did') == did]:
                r = fn.strip(asg['ch'][1])
                if not (r.get('callee') or '').endswith('::geodesicInterpolate'):
                    probs.append('the copied state is assigned from %s' % fn.fp(asg['ch'][1])[:60])
                    continue
                guard = False
                for anc in fn.ancestors(asg['id']):
                    if anc['k'] == 'IfStmt' and any(x['id'] == asg['id'] for x in fn.walk(anc['then'])):
                        c = fn.strip(anc['cond'])
                        if (c.get('callee') or '').endswith('::discreteGeodesic'):
                            ca = args(fn, c)
                            if [(fn.strip(x) or {}).get('name') for x in ca[:2]] == [fn.params[0]['name'], fn.params[1]['name']]:
                                guard = True
                if not guard:
                    probs.append('geodesicInterpolate is used without a successful discreteGeodesic(from, to, ...)')
    rep.add('R16c', fn.name, 'copies-from-or-geodesic-element', not probs, fn.where(fn.nodes[fn.body]),
            'from, or geodesicInterpolate under success' if not probs else '; '.join(probs[:2]))
    fs = [f for f in F.by_name.get(B + 'ConstrainedStateSpace::geodesicInterpolate', []) if f.body]
    if not fs:
        raise AnalysisBroken('anchor vanished: geodesicInterpolate')
    fn = fs[0]
    gp = fn.params[0]['did']
    probs = []
    nret = 0

    def is_elem(x):
        x = fn.strip(x)
        if x is None:
            return False
        if x['k'] == 'ConditionalOperator':
            return is_elem(x['then']) and is_elem(x['else'])
        if x.get('oop') == '[]' or x['k'] == 'ArraySubscriptExpr' or (x.get('callee') or '').split('::')[-1] in ('front', 'back', 'at'):
            b = fn.strip(x['ch'][0])
            return b is not None and b['k'] == 'DeclRefExpr' and b.get('did') == gp
        return False
    for r in fn.walk():
        if r['k'] == 'ReturnStmt' and r['ch']:
            nret += 1
            if not is_elem(r['ch'][0]):
                probs.append('line %d returns %s' % (fn.line(r), fn.fp(r['ch'][0])[:60]))
    rep.add('R16c', fn.name, 'returns-an-element', not probs and nret > 0, fn.where(fn.nodes[fn.body]),
            'every return is geodesic[...]' if not probs else '; '.join(probs[:2]))
    fs = [f for f in F.by_name.get(B + 'TangentBundleStateSpace::geodesicInterpolate', []) if f.body]
    if not fs:
        raise AnalysisBroken('anchor vanished: TangentBundleStateSpace::geodesicInterpolate')
    fn = fs[0]
    cl = LazyClient(fn)
    paths.run_function(fn, cl, F)
    rep.add('R16c', fn.name, 'projects-before-returning', not cl.bad and cl.rets > 0, fn.where(fn.nodes[fn.body]),
            'picked element returned only after project() == true, else geodesic[0]' if not cl.bad else cl.bad[0][0],
            cl.bad[0][1] if cl.bad else None)


class LazyClient(paths.Client):
    track = 'vars'
    fork_bools = True

    def __init__(self, fn):
        self.bad = []
        self.rets = 0
        self.gp = fn.params[0]['did']

    def init(self, fn):
        return frozenset()

    def on_node(self, fn, node, auto, ctx):
        c = node.get('callee') or ''
        if c.endswith('::project') and args(fn, node):
            v = vkey(fn, args(fn, node)[0])
            return frozenset(x for x in auto if x[1] != v) | {('pend', v, node['id'])}
        return auto

    def learn(self, fn, node, value, auto, ctx):
        hit = [x for x in auto if x[0] == 'pend' and x[2] == node.get('id')]
        if hit:
            auto = auto - set(hit)
            if value:
                auto = auto | {('ok', x[1]) for x in hit}
        return auto

    def at_exit(self, fn, ret, auto, ctx):
        if ret is None or not ret['ch']:
            return
        self.rets += 1
        e = fn.strip(ret['ch'][0])
        if e is not None and (e.get('oop') == '[]' or e['k'] == 'ArraySubscriptExpr'):
            b = fn.strip(e['ch'][0])
            if b is not None and b.get('did') == self.gp and lin.lin(fn, e['ch'][1]) == {1: 0}:
                return                          # geodesic[0], the start state
        v = vkey(fn, ret['ch'][0])
        if not v or ('ok', v) not in auto:
            self.bad.append(('a path returns the picked state without a successful project() on it', ctx.path()))


# ---------------------------------------------------------------------------------------------------------------------
# R16d: finite-domain interpretation of the atlas sampler retry loops


class Oracle:
    def __init__(self, seqs):
        self.seqs = {k: list(v) for k, v in seqs.items()}
        self.used = {k: 0 for k in seqs}

    def next(self, k):
        s = self.seqs.get(k, [])
        i = self.used.get(k, 0)
        self.used[k] = i + 1
        return s[i] if i < len(s) else True          # beyond the enumerated prefix every attempt succeeds (termination)


class SamplerInterp(fd.Interp):
    max_steps = 4000

    def __init__(self, fn, budget, oracle, chart_null):
        super().__init__(fn)
        self.budget, self.oracle, self.chart_null = budget, oracle, chart_null
        self.out = '%s#%d' % (fn.params[0]['name'], fn.params[0]['did'])
        self.status = 'unset'
        self.events = []
        self.aliases = {self.out}

    def load(self, n, env):
        if n.get('name') == 'ATLAS_STATE_SPACE_SAMPLES':
            return self.budget
        if n['k'] == 'DeclRefExpr' and n.get('dk') == 'Parm':
            return ('ptr', n.get('name'))
        return 0.0

    def store(self, lhs, value, env):
        return

    def assign(self, t, v, env):
        lk = self.lkey(t) if t is not None else None
        if lk is not None and isinstance(v, int) and not isinstance(v, bool) and 'unsigned' in (t.get('ty') or '') and v < 0:
            v += 2 ** 32                          # unsigned wrap-around
        if lk is not None and isinstance(v, tuple) and v and v[0] == 'ptr' and v[1] == self.fn.params[0]['name']:
            self.aliases.add(lk)
        super().assign(t, v, env)

    def is_out(self, nid, env):
        v = vkey(self.fn, nid)
        if v in self.aliases:
            return True
        return v is not None and env.get(v) == ('ptr', self.fn.params[0]['name'])

    def call(self, n, env):
        fn = self.fn
        c = n.get('callee') or ''
        short = c.split('::')[-1]
        a = args(fn, n)
        if short == 'as' and n['ch']:
            return self.ev(n['ch'][0], env)
        if short == 'psi' and a:
            ok = self.oracle.next('psi')
            if self.is_out(a[-1], env):
                self.status = 'projected' if ok else 'failed-projection'
                self.events.append('psi:%s' % ok)
            return ok
        if short == 'inPolytope':
            return self.oracle.next('poly')
        if short == 'getChart':
            return ('ptr', None) if self.chart_null else ('ptr', 'chart')
        if short in ('sampleChart', 'owningChart', 'getOrigin'):
            return ('ptr', 'chart')
        if short == 'copyState' and a and self.is_out(a[0], env):
            self.status = 'fallback-copy'
            self.events.append('copy')
            return None
        if short == 'sampleUniform' and a and self.is_out(a[0], env):
            self.status = 'delegated'
            self.events.append('delegated')
            return None
        if short == 'enforceBounds' and a and self.is_out(a[0], env):
            self.events.append('enforceBounds-after:' + self.status)
            return None
        if short == 'getManifoldDimension':
            return 1
        if n['k'] == 'CXXOperatorCallExpr' and n.get('oop') in ('==', '!=') and len(n['ch']) == 2:
            x, y = self.ev(n['ch'][0], env), self.ev(n['ch'][1], env)
            return (x == y) if n['oop'] == '==' else (x != y)
        return 1.0

    def ev(self, nid, env):
        n = self.fn.nodes.get(nid)
        if n is not None and n['k'] in ('CXXNullPtrLiteralExpr', 'GNUNullExpr'):
            return ('ptr', None)
        if n is not None and n['k'] == 'CXXConstructExpr' and len(n['ch']) != 1:
            return 0.0
        return super().ev(nid, env)

    def binop(self, op, a, b):
        if isinstance(a, tuple) or isinstance(b, tuple):
            if op == '==':
                return a == b
            if op == '!=':
                return a != b
        try:
            return super().binop(op, a, b)
        except AnalysisBroken:
            if op == '/':
                return 1.0
            raise


def r16d(rep, F, known_roles=None):
    rep.rule('R16d', 'AtlasStateSampler::sampleUniform / sampleUniformNear / sampleGaussian interpreted over a finite domain: retry budget '
                     'ATLAS_STATE_SPACE_SAMPLES in {1, 2, 3} with unsigned wrap-around, every outcome sequence (length <= budget + 2) of '
                     'AtlasChart::psi and inPolytope, chart creation succeeding or failing: at the end the output state holds a '
                     'successful psi projection, or the fallback copy was made, or the draw was delegated to sampleUniform.  '
                     'Last-writer clause for all six samplers of the constrained spaces: no write of the output state (enforceBounds) '
                     'follows its projection')
    n = 0
    for meth in ('sampleUniform', 'sampleUniformNear', 'sampleGaussian'):
        fs = [f for f in F.by_name.get(B + 'AtlasStateSampler::' + meth, []) if f.body]
        if not fs:
            raise AnalysisBroken('anchor vanished: AtlasStateSampler::' + meth)
        fn = fs[0]
        bad = None
        runs = 0
        clamp = False
        for budget in (1, 2, 3):
            L = budget + 2
            for psi in itertools.product((False, True), repeat=L):
                polys = itertools.product((False, True), repeat=L) if meth == 'sampleUniform' else [()]
                for poly in polys:
                    for chart_null in ((False, True) if meth != 'sampleUniform' else (False,)):
                        it = SamplerInterp(fn, budget, Oracle({'psi': psi, 'poly': poly}), chart_null)
                        try:
                            it.run({})
                        except fd.Return:
                            pass
                        runs += 1
                        if any(e.startswith('enforceBounds-after:projected') or e.startswith('enforceBounds-after:fallback') for e in it.events):
                            clamp = True
                        if it.status not in ('projected', 'fallback-copy', 'delegated') and bad is None:
                            bad = (budget, psi[:it.oracle.used.get('psi', 0)], poly[:it.oracle.used.get('poly', 0)], chart_null, it.status)
        n += 1
        rep.add('R16d', fn.name, 'retry-loop-ends-projected-or-fallback', bad is None and runs > 0, fn.where(fn.nodes[fn.body]),
                'projected, fallback copy or delegated on all %d abstract runs' % runs if bad is None else
                'with a retry budget of %d, psi outcomes %s%s%s the loop ends with the output state %s and no fallback copy' % (
                    bad[0], list(bad[1]), (', inPolytope outcomes %s' % list(bad[2])) if bad[2] else '',
                    ', chart creation failing' if bad[3] else '', bad[4]),
                sample={'budget': bad[0], 'psi': list(bad[1]), 'inPolytope': list(bad[2])} if bad else None)
        n += 1
        rep.add('R16d', fn.name, 'bounds-clamp-after-projection', not clamp, fn.where(fn.nodes[fn.body]),
                'projection is the last writer' if not clamp else
                'space_->enforceBounds(state) runs after the chart projection: where the bounds cut the manifold the clamped state is off it')
    for meth in ('sampleUniform', 'sampleUniformNear', 'sampleGaussian'):
        fs = [f for f in F.by_name.get(B + 'ProjectedStateSampler::' + meth, []) if f.body]
        if not fs:
            raise AnalysisBroken('anchor vanished: ProjectedStateSampler::' + meth)
        fn = fs[0]
        calls = [c for c in fn.walk() if c.get('callee')]
        order = []
        for c in calls:
            a = args(fn, c)
            if not a or (fn.strip(a[0]) or {}).get('name') != fn.params[0]['name']:
                continue
            short = c['callee'].split('::')[-1]
            order.append('project' if short == 'project' else ('draw' if c['callee'].endswith('WrapperStateSampler::' + meth) else short))
        if 'project' not in order:
            n += 1
            rep.add('R16d', fn.name, 'projects', False, fn.where(fn.nodes[fn.body]), 'the sample is never projected onto the manifold')
            continue
        after = order[order.index('project') + 1:]
        before = order[:order.index('project')]
        n += 1
        rep.add('R16d', fn.name, 'projects', before == ['draw'], fn.where(fn.nodes[fn.body]),
                'draw, then project' if before == ['draw'] else 'calls before the projection are %s' % before)
        n += 1
        rep.add('R16d', fn.name, 'bounds-clamp-after-projection', not after, fn.where(fn.nodes[fn.body]),
                'projection is the last writer' if not after else
                'space_->%s(state) runs after constraint_->project(state): where the bounds cut the manifold the clamped state is off it' % after[0])
        rep.undecided('R16d', fn.name, 'projection-verdict', 'the boolean result of constraint_->project(state) is discarded; no failing input was '
                      'found (sphere, torus: 0 of 20000 draws with bounds containing the manifold), so it is listed, not claimed')
    rep.require_count('R16d', 'sampler obligations', n, 12)


def r16e(rep, F):
    rep.rule('R16e', 'dimensional agreement of tolerance comparisons in Constraint::project, Constraint::isSatisfied and AtlasChart::psi: in '
                     'every comparison one side of which comes (through local definitions and assignments) from squaredNorm(), the other '
                     'side is of degree 2 in the tolerance (tol * tol); a side from norm() is compared with degree 1')
    n = 0
    for name, np_ in ((B + 'Constraint::project', 1), (B + 'Constraint::isSatisfied', 1), (B + 'AtlasChart::psi', 2)):
        fs = [f for f in F.by_name.get(name, []) if f.body and len(f.params) == np_ and 'Eigen' in f.sig]
        if not fs:
            raise AnalysisBroken('anchor vanished: ' + name)
        fn = fs[0]
        defs = {}
        for x in fn.walk():
            if x['k'] == 'DeclStmt':
                for d in x.get('decls', []):
                    if d.get('init'):
                        defs.setdefault(d['did'], []).append(d['init'])
            elif x['k'] == 'BinaryOperator' and x.get('op') == '=':
                t = fn.strip(x['ch'][0])
                if t is not None and t['k'] == 'DeclRefExpr':
                    defs.setdefault(t['did'], []).append(x['ch'][1])

        def origin(nid, seen=()):
            """('sq'|'lin', None) for residual norms, ('tol', degree) for tolerance expressions"""
            x = fn.strip(nid)
            if x is None:
                return None
            if x['k'] == 'BinaryOperator' and x.get('op') == '=':
                return origin(x['ch'][1], seen)
            cal = (x.get('callee') or '').split('::')[-1]
            if cal == 'squaredNorm':
                return ('sq', None)
            if cal == 'norm':
                return ('lin', None)
            if cal == 'getTolerance' or (x['k'] == 'MemberExpr' and x.get('name') == 'tolerance_'):
                return ('tol', 1)
            if x['k'] == 'DeclRefExpr' and x.get('did') in defs and x['did'] not in seen:
                outs = {origin(i, seen + (x['did'],)) for i in defs[x['did']]}
                outs.discard(None)
                # a variable initialised with a constant and later assigned from a norm is a norm
                kinds = {o for o in outs if o[0] in ('sq', 'lin')}
                if kinds:
                    return kinds.pop() if len(kinds) == 1 else ('mixed', None)
                tols = {o for o in outs if o[0] == 'tol'}
                return tols.pop() if len(tols) == 1 else None
            if x['k'] == 'BinaryOperator' and x.get('op') == '*':
                a, b = origin(x['ch'][0], seen), origin(x['ch'][1], seen)
                if a and b and a[0] == 'tol' and b[0] == 'tol':
                    return ('tol', a[1] + b[1])
            return None
        for x in fn.walk():
            if x['k'] == 'BinaryOperator' and x.get('op') in ('<', '<=', '>', '>='):
                a, b = origin(x['ch'][0]), origin(x['ch'][1])
                if a and a[0] == 'tol':
                    a, b = b, a
                if not a or a[0] not in ('sq', 'lin', 'mixed'):
                    continue
                want = 2 if a[0] == 'sq' else 1
                ok = a[0] != 'mixed' and b is not None and b[0] == 'tol' and b[1] == want
                n += 1
                rep.add('R16e', fn.name, 'comparison@%d' % fn.line(x), ok, fn.where(x),
                        '%s compared with tolerance^%d' % ('squaredNorm()' if want == 2 else 'norm()', want) if ok else
                        'a value from %s is compared with %s' % ('squaredNorm()' if a[0] == 'sq' else 'norm()',
                                                                  ('tolerance^%d' % b[1]) if b else fn.fp(x['ch'][1])[:50]))
    rep.require_count('R16e', 'tolerance comparisons', n, 5)


class FreshClient(paths.Client):
    """auto = frozenset({'f', 'norm'}) of the quantities that are fresh w.r.t. the current iterate"""
    track = 'none'

    def __init__(self, fn, iterate, resid, normvar):
        self.iterate, self.resid, self.normvar = iterate, resid, normvar
        self.bad = []
        self.rets = 0

    def init(self, fn):
        return frozenset()

    def names(self, fn, nid):
        return {x.get('name') for x in fn.walk(nid) if x['k'] == 'DeclRefExpr'}

    def on_node(self, fn, node, auto, ctx):
        c = node.get('callee') or ''
        short = c.split('::')[-1]
        if node['k'] == 'CXXOperatorCallExpr' and node.get('oop') in ('-=', '+=', '=') and node['ch']:
            l = fn.strip(node['ch'][0])
            if l is not None and l['k'] == 'DeclRefExpr' and l.get('name') == self.iterate:
                return frozenset()          # residual, norm and every conclusion drawn from them are stale
        if short == 'function' and len(args(fn, node)) == 2:
            a = args(fn, node)
            if self.iterate in self.names(fn, a[0]) and self.resid in self.names(fn, a[1]):
                return auto | {'f'}
        if node['k'] == 'BinaryOperator' and node.get('op') == '=':
            l = fn.strip(node['ch'][0])
            if l is not None and l.get('name') == self.normvar:
                r = fn.strip(node['ch'][1])
                if (r.get('callee') or '').endswith('squaredNorm') and self.resid in self.names(fn, r['id']) and 'f' in auto:
                    return (auto | {'norm'}) - {'conv', 'convneg'}
                return auto - {'norm', 'conv', 'convneg'}
        if node['k'] == 'ReturnStmt' and node['ch']:
            e = fn.strip(node['ch'][0])
            if self.normvar in self.names(fn, node['ch'][0]):
                self.rets += 1
                if 'norm' not in auto:
                    self.bad.append(('the returned verdict uses a residual norm that is stale with respect to the last update of %s'
                                     % self.iterate, ctx.path()))
                small = self.small(fn, e)
                if small is None:
                    self.bad.append(('the returned verdict reads the residual norm in a form the rule does not recognise (expected norm < tolerance '
                                     'or norm <= tolerance)', ctx.path()))
                elif small is False:
                    self.bad.append(('success is the *failure* of the test "norm exceeds the tolerance": an undefined (NaN) residual fails that '
                                     'test too and is reported as converged', ctx.path()))
            elif e is not None and e['k'] == 'CXXBoolLiteralExpr' and e.get('v') in (True, 'true', 1):
                self.rets += 1
                if 'conv' in auto and 'norm' in auto:
                    pass
                elif 'convneg' in auto:
                    self.bad.append(('success is returned where all that is known is that the test "norm > tolerance" failed: an undefined (NaN) '
                                     'residual fails that test too, so a state for which the constraint function is not defined is reported as '
                                     'projected onto the manifold', ctx.path()))
                else:
                    self.bad.append(('success is returned on a path that never compared a fresh residual norm with the tolerance', ctx.path()))
        return auto

    def small(self, fn, e):
        """True: e is 'norm below tolerance' (norm < T, norm <= T, T > norm, T >= norm); False: its negation spelled !(norm > T) ...; None: other"""
        if e is None:
            return None
        if e['k'] == 'UnaryOperator' and e.get('op') == '!':
            r = self.big(fn, fn.strip(e['ch'][0]))
            return False if r else None
        if e['k'] == 'BinaryOperator' and e.get('op') in ('<', '<=', '>', '>='):
            l, r = self.names(fn, e['ch'][0]), self.names(fn, e['ch'][1])
            if self.normvar in l and self.normvar not in r:
                return True if e['op'] in ('<', '<=') else None
            if self.normvar in r and self.normvar not in l:
                return True if e['op'] in ('>', '>=') else None
        return None

    def big(self, fn, e):
        if e is None or e['k'] != 'BinaryOperator' or e.get('op') not in ('<', '<=', '>', '>='):
            return False
        l, r = self.names(fn, e['ch'][0]), self.names(fn, e['ch'][1])
        if self.normvar in l and self.normvar not in r:
            return e['op'] in ('>', '>=')
        if self.normvar in r and self.normvar not in l:
            return e['op'] in ('<', '<=')
        return False

    def on_edge(self, fn, block, idx, auto, ctx):
        c = block.get('cond')
        if not c:
            return auto
        e = fn.strip(c)
        if block.get('termk') != 'BinaryOperator':
            while e is not None and e['k'] == 'BinaryOperator' and e.get('op') in ('&&', '||'):
                e = fn.strip(e['ch'][1])
        if e is None:
            return auto
        if self.small(fn, e) is True:
            return (auto | {'conv'}) - {'convneg'} if idx == 0 else auto - {'conv', 'convneg'}
        if self.big(fn, e):
            return (auto | {'convneg'}) - {'conv'} if idx == 1 else auto - {'conv', 'convneg'}
        return auto


def r16f(rep, F):
    rep.rule('R16f', 'typestate over the CFG of Constraint::project(x) and AtlasChart::psi(u, out): an assignment to the iterate (x -= ..., '
                     'out -= ..., out = ...) makes the residual and its norm stale; function(iterate, residual) refreshes the residual; '
                     'norm = residual.squaredNorm() refreshes the norm only from a fresh residual; the returned comparison must read a '
                     'fresh norm.  Success is a *positive* comparison: the returned verdict is norm < tolerance (or <=), or, where a path returns '
                     'true, the last thing learned about the fresh norm is that such a comparison held -- not merely that "norm > tolerance" '
                     'failed, which an undefined (NaN) residual fails as well')
    for name, np_, iterate, resid in ((B + 'Constraint::project', 1, 'x', 'f'), (B + 'AtlasChart::psi', 2, 'out', 'b')):
        fs = [f for f in F.by_name.get(name, []) if f.body and len(f.params) == np_ and 'Eigen' in f.sig]
        if not fs:
            raise AnalysisBroken('anchor vanished: ' + name)
        fn = fs[0]
        if iterate not in {p['name'] for p in fn.params}:
            raise AnalysisBroken('R16f: iterate parameter of %s renamed' % name)
        cl = FreshClient(fn, iterate, resid, 'norm')
        paths.run_function(fn, cl, F)
        if cl.rets == 0:
            raise AnalysisBroken('R16f: no return deciding success in ' + name)
        rep.add('R16f', fn.name, 'verdict-from-fresh-residual', not cl.bad, fn.where(fn.nodes[fn.body]),
                'norm is fresh at every return' if not cl.bad else cl.bad[0][0], cl.bad[0][1] if cl.bad else None)


class RejectedStep(paths.Client):
    """auto = True once the traversal was abandoned through a rejection (the loop flag was cleared: done = false; break;)"""
    track = 'vars'

    def __init__(self, fn, flagkey):
        self.flagkey = flagkey
        self.bad = []
        self.rets = 0

    def init(self, fn):
        return False

    def on_node(self, fn, node, auto, ctx):
        if node['k'] == 'BinaryOperator' and node.get('op') == '=' and key(fn, node['ch'][0]) == self.flagkey:
            r = fn.strip(node['ch'][1])
            return bool(r is not None and r['k'] == 'CXXBoolLiteralExpr' and r.get('v') in (False, 'false', 0))
        if node['k'] == 'ReturnStmt' and node['ch']:
            self.rets += 1
            if auto:
                v = ctx.eval(node['ch'][0])
                if v is not False:
                    self.bad.append(('after a step was rejected (the loop flag was cleared and the loop left) the function can still return true: '
                                     'the verdict does not depend on the flag any more', ctx.path()))
        return auto


def r16g(rep, F):
    rep.rule('R16g', 'a rejected step ends the traversal as a failure: AtlasStateSpace::discreteGeodesic updates its working state BEFORE it vets '
                     'the step (validity, distance limits, chart limit, singularity) and leaves the loop through "done = false; break;" when the '
                     'step is rejected; on every such path the returned verdict is false (path-sensitive evaluation of the returned expression '
                     'with the flag known false).  A verdict that only measures the distance from the working state to the target reports '
                     'success for a rejected step that happens to lie within one step size of the target, while the stored geodesic ends at the '
                     'previous accepted state')
    fn = F.one(B + 'AtlasStateSpace::discreteGeodesic')
    dos = [x for x in fn.walk() if x['k'] == 'DoStmt']
    if len(dos) != 1 or not dos[0].get('cond'):
        raise AnalysisBroken('R16g: traversal loop of AtlasStateSpace::discreteGeodesic not found')
    flag = None
    for x in fn.walk(dos[0]['cond']):
        if x['k'] == 'DeclRefExpr' and x.get('dk') == 'Local':
            flag = '%s#%d' % (x['name'], x['did'])
    if flag is None:
        raise AnalysisBroken('R16g: loop flag not found')
    rej = [x for x in fn.walk(dos[0]['body']) if x['k'] == 'BinaryOperator' and x.get('op') == '=' and key(fn, x['ch'][0]) == flag and
           (fn.strip(x['ch'][1]) or {}).get('v') in (False, 'false', 0)]
    if len(rej) < 2:
        raise AnalysisBroken('R16g: fewer rejection exits than confirmed by reading (%d)' % len(rej))
    cl = RejectedStep(fn, flag)
    paths.run_function(fn, cl, F)
    if not cl.rets:
        raise AnalysisBroken('R16g: no return reached')
    rep.add('R16g', fn.name, 'rejected-step-fails', not cl.bad, fn.where(rej[0]),
            'on every path through one of the %d rejection exits the returned verdict is false' % len(rej) if not cl.bad else cl.bad[0][0],
            cl.bad[0][1] if cl.bad else None)


def run(rep):
    F = facts.load_units(UNITS)
    rep.units.update(UNITS)
    rep.functions.update(f.key for f in F.functions if any(s in (f.record or '') for s in ('Constrained', 'Projected', 'Atlas', 'TangentBundle', 'Constraint')))
    r16a(rep, F)
    r16b(rep, F)
    r16c(rep, F)
    r16d(rep, F)
    r16e(rep, F)
    r16f(rep, F)
    r16g(rep, F)
    rep.undecided('R16a', B + 'TangentBundleStateSpace::discreteGeodesic', 'lazy', 'intermediate states of the lazy variant are off the manifold by '
                  'design; what it returns through interpolate is covered by R16c')
    rep.undecided('R16x', B + 'Constraint::project', 'convergence', 'that Newton iteration converges, and that a state within tolerance of f = 0 '
                  'is near the manifold, are numerical statements; not decided')
