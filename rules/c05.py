"""C05 -- a motion is valid exactly when every resolution step along it is valid (structural clauses).

R05a exactly one counter bump per call on every path, agreeing with the returned verdict
R05b lastValid written iff the call fails; stored fraction = (failed index - 1)/nd in floating type
R05c covered index set: linear scan 1..nd-1 + end state / bisection queue schema covers exactly 1..nd-1
R05d both overloads take nd from validSegmentCount(s1, s2) of the same space, in parameter order
R05e validSegmentCount = factor * ceil(distance / longest); compound = max over all components
"""
import re
from engine import facts, paths, lin
from engine.facts import AnalysisBroken, src
from engine.shape import key, args

UNITS = [src('base', 'src', 'DiscreteMotionValidator.cpp'), src('base', 'spaces', 'src', 'DubinsStateSpace.cpp'),
         src('base', 'spaces', 'src', 'ReedsSheppStateSpace.cpp'), src('base', 'src', 'SpaceInformation.cpp'),
         src('base', 'src', 'StateSpace.cpp')]

BASE = 'ompl::base::MotionValidator::checkMotion'
# validators that maintain the counters today (confirmed by reading); a validator that never counts
# (ConstrainedMotionValidator) expresses no belief about the counters and is outside R05a
COUNTING = {'ompl::base::DiscreteMotionValidator', 'ompl::base::DubinsMotionValidator',
            'ompl::base::ReedsSheppMotionValidator', 'ompl::base::Dubins3DMotionValidator'}
VALID = 'ompl::base::MotionValidator::valid_'
INVALID = 'ompl::base::MotionValidator::invalid_'
ISVALID = ('ompl::base::SpaceInformation::isValid', 'ompl::base::StateValidityChecker::isValid')


def ret_ordinals(fn):
    rets = [n['id'] for n in fn.walk() if n['k'] == 'ReturnStmt']
    return {r: i for i, r in enumerate(rets)}


def counter_of(fn, n):
    """'valid'/'invalid' if node n bumps that counter"""
    if n['k'] == 'UnaryOperator' and n.get('op') == '++' or n['k'] == 'CompoundAssignOperator' and n.get('op') == '+=':
        t = fn.strip(n['ch'][0])
        if t is not None and t['k'] == 'MemberExpr':
            if t.get('q') == VALID:
                return 'valid'
            if t.get('q') == INVALID:
                return 'invalid'
    if n['k'] == 'CXXOperatorCallExpr' and n.get('oop') in ('++', '+=') and n['ch']:
        t = fn.strip(n['ch'][0])
        if t is not None and t['k'] == 'MemberExpr':
            if t.get('q') == VALID:
                return 'valid'
            if t.get('q') == INVALID:
                return 'invalid'
    if n['k'] == 'CXXMemberCallExpr' and n.get('callee', '').endswith('fetch_add') and n['ch']:
        t = fn.strip(n['ch'][0])
        if t is not None and t['k'] == 'MemberExpr':
            if t.get('q') == VALID:
                return 'valid'
            if t.get('q') == INVALID:
                return 'invalid'
    return None


class CounterClient(paths.Client):
    def __init__(self):
        self.exits = {}  # ret id -> list of (nv, ni, retval, path)

    def init(self, fn):
        return (0, 0)

    def on_node(self, fn, node, auto, ctx):
        c = counter_of(fn, node)
        if c == 'valid':
            return (min(auto[0] + 1, 2), auto[1])
        if c == 'invalid':
            return (auto[0], min(auto[1] + 1, 2))
        return auto

    def at_exit(self, fn, ret, auto, ctx):
        rv = None
        rid = None
        if ret is not None:
            rid = ret['id']
            if ret['ch']:
                rv = ctx.eval(ret['ch'][0])
        self.exits.setdefault(rid, []).append((auto[0], auto[1], rv, ctx.path()))


def r05a(rep, F, fns):
    rep.rule('R05a', 'on every CFG path of a counting validator\'s checkMotion exactly one of valid_/invalid_ is '
                     'bumped, valid_ iff the call returns true (path-sensitive typestate, tracked local verdict)')
    for fn in fns:
        # every mention of a counter must be a recognised bump; anything else (bound to a reference, stored through
        # store(load()+1), passed by address) is an idiom this rule does not model => analysis broken, not a verdict
        bumps = set()
        for n in fn.walk():
            if counter_of(fn, n):
                t = fn.strip(n['ch'][0])
                bumps.add(t['id'])
        for n in fn.walk():
            if n['k'] == 'MemberExpr' and n.get('q') in (VALID, INVALID) and n['id'] not in bumps:
                raise AnalysisBroken('R05a: %s uses %s other than by a direct increment (unrecognised idiom)' % (fn.name, n.get('name')))
        cl = CounterClient()
        paths.run_function(fn, cl, F)
        ords = ret_ordinals(fn)
        label = fn.name + ('<' + fn.targs + '>' if fn.targs else '')
        kind = '3arg' if 'std::pair' in fn.sig else '2arg'
        if not cl.exits:
            raise AnalysisBroken('R05a: no exit reached in ' + fn.name)
        for rid, lst in sorted(cl.exits.items(), key=lambda kv: ords.get(kv[0], -1)):
            bad = None
            for (nv, ni, rv, path) in lst:
                if nv + ni != 1:
                    bad = ('%d counter bumps on a path to this return (valid_ %d, invalid_ %d)' % (nv + ni, nv, ni), path)
                    break
                if rv is None:
                    raise AnalysisBroken('R05a: returned verdict not tracked in %s (unrecognised idiom)' % fn.name)
                if rv and nv != 1 or (not rv) and ni != 1:
                    bad = ('returns %s but bumped %s' % ('true' if rv else 'false', 'valid_' if nv else 'invalid_'), path)
                    break
            where = fn.where(rid) if rid else fn.loc
            rep.add('R05a', label, '%s:return#%d' % (kind, ords.get(rid, -1)), bad is None, where,
                    bad[0] if bad else 'exactly one bump, agreeing with the verdict, on %d path states' % len(lst),
                    bad[1] if bad else None,
                    sample={'paths': len(lst), 'verdicts': sorted(set(str(x[2]) for x in lst))})


# ---------------------------------------------------------------------------
# R05b: lastValid discipline


class LastValidClient(paths.Client):
    """auto = (wrote_second, wrote_first, interp: frozenset((statekey, num, den)), lastfail statekey, problem)"""

    def __init__(self, fn):
        self.exits = {}
        self.lv = fn.params[2]['did']
        self.s2key = '%s#%d' % (fn.params[1]['name'], fn.params[1]['did'])
        self.writes = []
        # locals that may hold the caller's lastValid.first (initialised / assigned from an expression mentioning it): writing
        # through them writes the caller's storage
        self.aliases = set()
        for n in fn.walk():
            rhs = []
            if n['k'] == 'DeclStmt':
                rhs = [(d['did'], d['init']) for d in n.get('decls', []) if d.get('init') and (d.get('ty') or '').rstrip().endswith('*')]
            elif n['k'] == 'BinaryOperator' and n.get('op') == '=':
                t = fn.strip(n['ch'][0])
                if t is not None and t['k'] == 'DeclRefExpr' and t.get('dk') != 'Parm' and (t.get('ty') or '').rstrip().endswith('*'):
                    rhs = [(t.get('did'), n['ch'][1])]
            for did, r in rhs:
                for x in fn.walk(r):
                    if x['k'] == 'MemberExpr' and x.get('name') == 'first' and x['ch']:
                        b = fn.strip(x['ch'][0])
                        if b is not None and b['k'] == 'DeclRefExpr' and b.get('did') == self.lv:
                            self.aliases.add(did)

    def init(self, fn):
        return (False, False, frozenset(), None, None)

    def _is_lv_member(self, fn, n, which):
        n = fn.strip(n['id']) if n else None
        if which == 'first' and n is not None and n['k'] == 'DeclRefExpr' and n.get('did') in self.aliases:
            return True
        if n is None or n['k'] != 'MemberExpr' or n.get('name') != which:
            return False
        b = fn.strip(n['ch'][0]) if n['ch'] else None
        return b is not None and b['k'] == 'DeclRefExpr' and b.get('did') == self.lv

    def on_node(self, fn, node, auto, ctx):
        w2, w1, interp, lastfail, prob = auto
        k = node['k']
        if k == 'BinaryOperator' and node.get('op') == '=' and self._is_lv_member(fn, fn.nodes[node['ch'][0]], 'second'):
            w2 = True
            # shape of the stored fraction
            rhs = fn.strip(node['ch'][1])
            p = None
            isf = lin.is_float_div(fn, node['ch'][1])
            if rhs is None or rhs['k'] != 'BinaryOperator' or rhs.get('op') != '/':
                z = lin.lin(fn, node['ch'][1])
                if not (z is not None and set(z.keys()) <= {1} and z.get(1, 0) == 0):
                    p = 'stored fraction is not of the form index/nd'
                else:
                    num, den = {1: 0}, None
            elif not isf:
                p = 'fraction computed by integer division (always 0)'
            if p is None and rhs is not None and rhs['k'] == 'BinaryOperator' and rhs.get('op') == '/':
                num = lin.lin(fn, rhs['ch'][0])
                den = lin.canon(lin.lin(fn, rhs['ch'][1]))
                if lastfail is None:
                    p = 'fraction written on a path without a failed validity check'
                elif lastfail == self.s2key:
                    # end state failed: index nd -> (nd-1)/nd
                    want = lin._add(dict(den), {1: -1}) if False else None
                    dd = {}
                    for kk, vv in den:
                        dd[1 if kk == '1' else kk] = vv
                    want = lin.canon(lin._add(dd, {1: -1}))
                    if lin.canon(num) != want:
                        p = 'end state failed but stored numerator is %s, expected nd-1 = %s' % (
                            lin.show(num), lin.show(want))
                else:
                    got = [x for x in interp if x[0] == lastfail]
                    if not got:
                        p = 'failed state was not produced by an interpolation at index/nd'
                    else:
                        _, inum, iden = got[0]
                        d = {}
                        for kk, vv in inum:
                            d[1 if kk == '1' else kk] = vv
                        want = lin.canon(lin._add(d, {1: -1}))
                        if den != iden:
                            p = 'fraction denominator differs from the interpolation denominator'
                        elif lin.canon(num) != want:
                            p = 'state at index %s failed but stored numerator is %s, expected %s' % (
                                lin.show(inum), lin.show(num), lin.show(want))
            self.writes.append((node['id'], p, ctx.path() if p else None))
            if p and prob is None:
                prob = (node['id'], p)
        if node.get('callee') is not None:
            args = node['ch'][1:] if k == 'CXXMemberCallExpr' else node['ch']
            for i in node.get('wargs') or []:
                if i < len(args) and self._is_lv_member(fn, fn.nodes[args[i]], 'first'):
                    w1 = True
            cal = node['callee']
            if cal.endswith('::interpolate') and len(args) >= 4:
                # interpolate(s1, s2, t, [...,] out): remember index/denominator for the out state
                outk = None
                o = fn.strip(args[-1])
                if o is not None and o['k'] == 'DeclRefExpr':
                    outk = '%s#%d' % (o.get('name'), o.get('did'))
                t = fn.strip(args[2])
                if outk and t is not None and t['k'] == 'BinaryOperator' and t.get('op') == '/':
                    num = lin.canon(lin.lin(fn, t['ch'][0]))
                    den = lin.canon(lin.lin(fn, t['ch'][1]))
                    interp = frozenset([x for x in interp if x[0] != outk] + [(outk, num, den)])
        return (w2, w1, interp, lastfail, prob)

    def learn(self, fn, node, value, auto, ctx):
        if node.get('callee') in ISVALID and value is False:
            args = node['ch'][1:]
            a = fn.strip(args[0]) if args else None
            if a is not None and a['k'] == 'DeclRefExpr':
                return (auto[0], auto[1], auto[2], '%s#%d' % (a.get('name'), a.get('did')), auto[4])
        return auto

    def at_exit(self, fn, ret, auto, ctx):
        rv = ctx.eval(ret['ch'][0]) if ret is not None and ret['ch'] else None
        self.exits.setdefault(ret['id'] if ret else None, []).append((auto[0], auto[1], rv, auto[4], ctx.path()))


def r05b(rep, F, fns):
    rep.rule('R05b', 'lastValid.second/.first are written on exactly the paths that return false; the stored '
                     'fraction is (index of the failed state - 1)/nd with both operands converted to floating type '
                     'before the division (linear normal form + type of the division node)')
    for fn in fns:
        if 'std::pair' not in fn.sig:
            continue
        cl = LastValidClient(fn)
        paths.run_function(fn, cl, F)
        ords = ret_ordinals(fn)
        label = fn.name + ('<' + fn.targs + '>' if fn.targs else '')
        for rid, lst in sorted(cl.exits.items(), key=lambda kv: ords.get(kv[0], -1)):
            bad = None
            for (w2, w1, rv, prob, path) in lst:
                if rv is None:
                    raise AnalysisBroken('R05b: returned verdict not tracked in %s' % fn.name)
                if rv and (w2 or w1):
                    bad = ('returns true on a path that wrote lastValid', path)
                    break
                if (not rv) and not w2:
                    bad = ('returns false on a path that never stores lastValid.second (contract: a failing call '
                           'must leave a valid state/fraction there)', path)
                    break
            rep.add('R05b', label, 'written-iff-false:return#%d' % ords.get(rid, -1), bad is None,
                    fn.where(rid) if rid else fn.loc,
                    bad[0] if bad else 'lastValid written iff false on %d path states' % len(lst), bad[1] if bad else None)
        seen = {}
        for nid, p, path in cl.writes:
            if nid not in seen or p:
                seen[nid] = (p, path)
        for i, (nid, (p, path)) in enumerate(sorted(seen.items())):
            rep.add('R05b', label, 'fraction#%d' % i, p is None, fn.where(nid),
                    p or 'fraction = (failed index - 1)/nd, floating division', path)


# ---------------------------------------------------------------------------
# R05c: covered index set


def _find(fn, kind, root=None):
    return [n for n in fn.walk(root) if n['k'] == kind]


def _args(fn, call):
    return call['ch'][1:] if call['k'] == 'CXXMemberCallExpr' else call['ch']


def _key(fn, nid):
    n = fn.strip(nid)
    if n is not None and n['k'] == 'DeclRefExpr':
        return '%s#%d' % (n.get('name'), n.get('did'))
    return None


HI_ND = [48]


def simulate_schema(seed, children, rnd, lo_nd=0, hi_nd=None):
    """evaluate the extracted queue schema (a model of the loop, not OMPL code) for nd in a range and compare the
    visited index set with 1..nd-1.  seed = (guard, lo, hi) as python lambdas over nd; children = list of
    (guard(a,b,mid), lo(a,b,mid), hi(a,b,mid)); rnd = rounding offset in mid = (a+b+rnd)//2."""
    hi_nd = HI_ND[0] if hi_nd is None else hi_nd
    for nd in range(lo_nd, hi_nd + 1):
        want = list(range(1, nd))
        visited = []
        q = []
        g, lo, hi = seed
        if g(nd):
            q.append((lo(nd), hi(nd)))
        steps = 0
        while q:
            steps += 1
            if steps > 4 * nd + 16:
                return 'queue does not drain for nd=%d' % nd
            a, b = q.pop(0)
            mid = (a + b + rnd) // 2 if (a + b + rnd) >= 0 else -((-(a + b + rnd)) // 2)
            visited.append(mid)
            for (cg, clo, chi) in children:
                if cg(a, b, mid):
                    q.append((clo(a, b, mid), chi(a, b, mid)))
        if sorted(set(visited)) != want:
            missing = sorted(set(want) - set(visited))
            extra = sorted(set(visited) - set(want))
            return 'for nd=%d the schema visits %s: missing %s, outside 1..nd-1 %s' % (nd, sorted(set(visited)),
                                                                                      missing, extra)
    return None


def lin_fn(canon_d, names):
    """canon linear dict over atoms in names -> python callable"""
    d = dict(canon_d)

    def f(*vals):
        env = dict(zip(names, vals))
        s = 0
        for k, v in d.items():
            if k in ('1', 1):
                s += v
            elif k in env:
                s += v * env[k]
            else:
                raise KeyError(k)
        return s
    return f


def bisection_schema(fn, lower_name):
    """extract the queue schema of a bisection loop: returns dict or raises AnalysisBroken"""
    whiles = [w for w in _find(fn, 'WhileStmt')
              if any(c.get('callee') == 'std::queue::empty' for c in fn.walk(w['cond']))]
    if len(whiles) != 1:
        raise AnalysisBroken('R05c: expected one queue-draining loop in %s, found %d' % (fn.name, len(whiles)))
    w = whiles[0]
    qkey = None
    for c in fn.walk(w['cond']):
        if c.get('callee') == 'std::queue::empty':
            qkey = _key(fn, c['ch'][0])
    if qkey is None:
        raise AnalysisBroken('R05c: queue variable not found in ' + fn.name)
    # x = q.front(); mid = (x.first + x.second [+1]) / 2
    xkey = midkey = None
    midn = None
    for ds in _find(fn, 'DeclStmt', w['body']):
        for d in ds.get('decls', []):
            if d.get('init') is None:
                continue
            if any(c.get('callee') == 'std::queue::front' and _key(fn, c['ch'][0]) == qkey for c in fn.walk(d['init'])):
                xkey = '%s#%d' % (d['name'], d['did'])
            else:
                i = fn.strip(d['init'])
                if i is not None and i['k'] == 'BinaryOperator' and i.get('op') == '/' and xkey and \
                        xkey in fn.fp(d['init']):
                    midkey = '%s#%d' % (d['name'], d['did'])
                    midn = i
    if not (xkey and midkey):
        raise AnalysisBroken('R05c: front()/mid idiom not recognised in ' + fn.name)
    A, B = xkey + '.first', xkey + '.second'
    num = lin.lin(fn, midn['ch'][0])
    den = lin.lin(fn, midn['ch'][1])
    if den != {1: 2} or num.get(A) != 1 or num.get(B) != 1 or set(num) - {A, B, 1}:
        raise AnalysisBroken('R05c: mid is not (first+second[+c])/2 in ' + fn.name)
    rnd = num.get(1, 0)
    sch = {'q': qkey, 'x': xkey, 'mid': midkey, 'rnd': rnd, 'children': [], 'seeds': [], 'loop': w}
    names = {A: 'a', B: 'b', midkey: 'mid'}

    def ren(d):
        out = {}
        for k, v in d.items():
            if k == 1:
                out[1] = v
            elif k in names:
                out[names[k]] = v
            else:
                out[k] = v
        return out

    def guard_of(call_id, stop):
        """conjunction of enclosing if-conditions (then-branch only) between the call and `stop`"""
        gs = []
        cur = call_id
        while cur in fn.parent and cur != stop:
            p = fn.nodes[fn.parent[cur]]
            if p['k'] == 'IfStmt':
                if p.get('then') == cur or _inside(fn, p.get('then'), cur):
                    gs.append((p['cond'], True))
                elif p.get('else') and (p.get('else') == cur or _inside(fn, p.get('else'), cur)):
                    gs.append((p['cond'], False))
            cur = p['id']
        return gs

    for c in fn.walk():
        if c.get('callee') in ('std::queue::emplace', 'std::queue::push') and _key(fn, c['ch'][0]) == qkey:
            args = _args(fn, c)
            if len(args) == 1:
                a0 = fn.strip(args[0])
                while a0 is not None and a0['k'] in ('CXXConstructExpr', 'InitListExpr', 'CallExpr',
                                                     'CXXTemporaryObjectExpr') and len(a0['ch']) not in (2,):
                    if not a0['ch']:
                        break
                    a0 = fn.strip(a0['ch'][0])
                if a0 is None or len(a0['ch']) != 2:
                    raise AnalysisBroken('R05c: queue insertion shape not recognised in ' + fn.name)
                args = a0['ch']
            if len(args) != 2:
                raise AnalysisBroken('R05c: queue insertion shape not recognised in ' + fn.name)
            lo, hi = ren(lin.lin(fn, args[0])), ren(lin.lin(fn, args[1]))
            inloop = _inside(fn, w['body'], c['id'])
            gs = guard_of(c['id'], w['body'] if inloop else fn.body)
            sch['children' if inloop else 'seeds'].append({'lo': lo, 'hi': hi, 'guards': gs, 'node': c['id']})
    return sch, ren


def _inside(fn, root, nid):
    if root is None:
        return False
    cur = nid
    while True:
        if cur == root:
            return True
        if cur not in fn.parent:
            return False
        cur = fn.parent[cur]


def _guard_fn(fn, guards, ren, names):
    """python predicate for a conjunction of integer comparisons (after renaming)"""
    forms = []
    for (cond, pol) in guards:
        c = lin.cmp_le0(fn, cond)
        if c is None:
            # compound guards: accept `a && b` of comparisons
            n = fn.strip(cond)
            if n is not None and n['k'] == 'BinaryOperator' and n.get('op') == '&&' and pol:
                for ch in n['ch']:
                    cc = lin.cmp_le0(fn, ch)
                    if cc is None:
                        return None
                    forms.append((cc, True))
                continue
            return None
        forms.append((c, pol))

    def pred(*vals):
        env = dict(zip(names, vals))
        for (kind, L), pol in forms:
            s = 0
            for k, v in ren({(1 if kk == '1' else kk): vv for kk, vv in L}).items():
                if k == 1:
                    s += v
                elif k in env:
                    s += v * env[k]
                else:
                    raise KeyError(k)
            t = (s <= 0) if kind == 'le0' else ((s == 0) if kind == 'eq0' else (s != 0))
            if t != pol:
                return False
        return True
    return pred, forms


def r05c_bisect(rep, F, fn, label, role, nd_atom, seed_want, interior):
    """decide the covered index set of a bisection loop.
    nd_atom: fingerprint of the count variable; interior: 'closed' => must visit exactly 1..nd-1"""
    sch, ren0 = bisection_schema(fn, nd_atom)

    def ren(d):
        out = ren0(d)
        if nd_atom in out:
            out['nd'] = out.pop(nd_atom)
        return out

    if len(sch['seeds']) != 1:
        raise AnalysisBroken('R05c: expected one seed insertion in %s' % fn.name)
    seed = sch['seeds'][0]
    try:
        slo, shi = ren(seed['lo']), ren(seed['hi'])
        g = _guard_fn(fn, [x for x in seed['guards']], ren, ['nd'])
        if g is None:
            raise KeyError('guard')
        sg, sforms = g
        seed_f = (lambda nd: sg(nd), lin_fn(lin.canon(slo), ['nd']), lin_fn(lin.canon(shi), ['nd']))
        seed_f[0](5), seed_f[1](5), seed_f[2](5)
        children = []
        chdesc = []
        for c in sch['children']:
            cg = _guard_fn(fn, c['guards'], ren, ['a', 'b', 'mid'])
            if cg is None:
                raise KeyError('guard')
            lo, hi = ren(c['lo']), ren(c['hi'])
            f = (cg[0], lin_fn(lin.canon(lo), ['a', 'b', 'mid']), lin_fn(lin.canon(hi), ['a', 'b', 'mid']))
            f[0](1, 3, 2), f[1](1, 3, 2), f[2](1, 3, 2)
            children.append(f)
            chdesc.append('(%s , %s) if %s' % (lin.show(lo), lin.show(hi), ' & '.join(
                '%s%s<=0' % ('' if pol else 'not ', lin.show(ren({(1 if kk == '1' else kk): vv for kk, vv in L})))
                for ((kind, L), pol) in cg[1])))
    except KeyError as e:
        raise AnalysisBroken('R05c: schema of %s uses a term outside {first, second, mid, nd}: %s' % (fn.name, e))
    # the proven schemas (induction in DESIGN.md section C05)
    std_closed = (sch['rnd'] in (0, 1) and len(children) == 2)
    if interior == 'closed':
        msg = simulate_schema(seed_f, children, sch['rnd'])
    else:
        # open schema: endpoints 0 and count-1 are checked separately; interior = 1..count-2. Reuse the simulator with
        # nd := count-1 (required set 1..nd-1)
        seed_o = (lambda nd: seed_f[0](nd + 1), lambda nd: seed_f[1](nd + 1), lambda nd: seed_f[2](nd + 1))
        msg = simulate_schema(seed_o, children, sch['rnd'], lo_nd=0)
    rep.add('R05c', label, role + ':queue-schema', msg is None, fn.where(sch['loop']),
            msg or 'seed (%s , %s), mid=(a+b%+d)/2, children %s: visits exactly the interior indices for every '
                   'segment count 0..%d (and by the inductive argument in DESIGN.md for the two proven schemas)'
            % (lin.show(slo), lin.show(shi), sch['rnd'], '; '.join(chdesc), HI_ND[0]),
            sample={'seed': [lin.show(slo), lin.show(shi)], 'children': chdesc, 'mid_rounding': sch['rnd']})
    return sch


def r05c(rep, F, fns):
    rep.rule('R05c', 'covered index set: the 3-argument form scans j = 1..nd-1 with unit stride and then the end '
                     'state; the 2-argument form checks the end state and drains a bisection queue whose extracted '
                     'schema (seed, midpoint, child intervals, guards, all in linear normal form) visits exactly '
                     '1..nd-1; the checked state is the one just interpolated at index/nd in floating type; a break on '
                     'failure; the queue is popped once per iteration')
    for fn in fns:
        label = fn.name + ('<' + fn.targs + '>' if fn.targs else '')
        s1 = '%s#%d' % (fn.params[0]['name'], fn.params[0]['did'])
        s2 = '%s#%d' % (fn.params[1]['name'], fn.params[1]['did'])
        # nd variable: the local initialised from validSegmentCount
        ndkey = None
        for ds in _find(fn, 'DeclStmt'):
            for d in ds.get('decls', []):
                if d.get('init') and any(c.get('callee', '').endswith('::validSegmentCount') for c in fn.walk(d['init'])):
                    ndkey = '%s#%d' % (d['name'], d['did'])
                    call = [c for c in fn.walk(d['init']) if c.get('callee', '').endswith('::validSegmentCount')][0]
                    a = _args(fn, call)
                    ok = len(a) == 2 and _key(fn, a[0]) == s1 and _key(fn, a[1]) == s2
                    rep.add('R05d', label, 'nd-source', ok, fn.where(call),
                            'nd = validSegmentCount(s1, s2) in parameter order' if ok else
                            'segment count is not taken from validSegmentCount(s1, s2)')
        if ndkey is None:
            rep.add('R05d', label, 'nd-source', False, fn.loc, 'no segment count obtained from validSegmentCount')
            continue
        three = 'std::pair' in fn.sig
        if three:
            fors = [f for f in _find(fn, 'ForStmt')]
            good = None
            why = 'no scanning loop found'
            for f in fors:
                init = fn.nodes.get(f.get('init') or 0)
                if not init or init['k'] != 'DeclStmt' or len(init.get('decls', [])) != 1:
                    continue
                d = init['decls'][0]
                j = '%s#%d' % (d['name'], d['did'])
                start = lin.lin(fn, d['init']) if d.get('init') else None
                cond = lin.cmp_le0(fn, f['cond']) if f.get('cond') else None
                inc = fn.strip(f['inc']) if f.get('inc') else None
                stride = None
                if inc is not None and inc['k'] == 'UnaryOperator' and inc.get('op') == '++' and _key(fn, inc['ch'][0]) == j:
                    stride = 1
                elif inc is not None and inc['k'] == 'CompoundAssignOperator' and inc.get('op') == '+=' and \
                        _key(fn, inc['ch'][0]) == j and lin.lin(fn, inc['ch'][1]) == {1: 1}:
                    stride = 1
                want = ('le0', lin.canon({j: 1, ndkey: -1, 1: 1}))
                if start != {1: 1}:
                    why = 'scan starts at %s, not at index 1' % lin.show(start)
                elif cond != want:
                    why = 'scan bound is %s<=0, not j < nd' % (lin.show(cond[1]) if cond else '?')
                elif stride != 1:
                    why = 'scan stride is not 1'
                else:
                    # body: interpolate(s1,s2,j/nd,..,test); isValid(test)
                    itp = [c for c in fn.walk(f['body']) if c.get('callee', '').endswith('::interpolate')]
                    chk = [c for c in fn.walk(f['body']) if c.get('callee') in ISVALID]
                    jw = [n for n in fn.walk(f['body']) if n['k'] in ('BinaryOperator', 'CompoundAssignOperator', 'UnaryOperator')
                          and n.get('op') in ('=', '+=', '-=', '++', '--') and _key(fn, n['ch'][0]) == j]
                    if jw:
                        why = 'loop index modified in the body'
                    elif not itp or not chk:
                        why = 'loop body does not interpolate and check a state'
                    else:
                        a = _args(fn, itp[0])
                        t = fn.strip(a[2])
                        tk = _key(fn, a[-1])
                        fl = lin.is_float_div(fn, a[2])
                        if not (_key(fn, a[0]) == s1 and _key(fn, a[1]) == s2):
                            why = 'interpolation is not between (s1, s2) in order'
                        elif t is None or t['k'] != 'BinaryOperator' or t.get('op') != '/' or \
                                lin.lin(fn, t['ch'][0]) != {j: 1} or lin.lin(fn, t['ch'][1]) != {ndkey: 1}:
                            why = 'interpolation parameter is not j/nd'
                        elif not fl:
                            why = 'j/nd evaluated in integer arithmetic'
                        elif _key(fn, _args(fn, chk[0])[0]) != tk:
                            why = 'validity is checked on a state other than the one just interpolated'
                        else:
                            good = f
                if good:
                    break
            rep.add('R05c', label, '3arg:linear-scan', good is not None, fn.where(good) if good else fn.loc,
                    'for j = 1; j < nd; ++j: interpolate(s1,s2,j/nd) then isValid on that state' if good else why)
        else:
            sch = r05c_bisect(rep, F, fn, label, '2arg', ndkey, None, 'closed')
            w = sch['loop']
            itp = [c for c in fn.walk(w['body']) if c.get('callee', '').endswith('::interpolate')]
            chk = [c for c in fn.walk(w['body']) if c.get('callee') in ISVALID]
            pops = [c for c in fn.walk(w['body']) if c.get('callee') == 'std::queue::pop']
            why = None
            if not itp or not chk:
                why = 'loop body does not interpolate and check a state'
            else:
                a = _args(fn, itp[0])
                t = fn.strip(a[2])
                if not (_key(fn, a[0]) == s1 and _key(fn, a[1]) == s2):
                    why = 'interpolation is not between (s1, s2) in order'
                elif t is None or t['k'] != 'BinaryOperator' or t.get('op') != '/' or \
                        lin.lin(fn, t['ch'][0]) != {sch['mid']: 1} or lin.lin(fn, t['ch'][1]) != {ndkey: 1}:
                    why = 'interpolation parameter is not mid/nd'
                elif not lin.is_float_div(fn, a[2]):
                    why = 'mid/nd evaluated in integer arithmetic'
                elif _key(fn, _args(fn, chk[0])[0]) != _key(fn, a[-1]):
                    why = 'validity is checked on a state other than the one just interpolated'
                elif len(pops) != 1:
                    why = 'queue popped %d times per iteration' % len(pops)
            rep.add('R05c', label, '2arg:midpoint-check', why is None, fn.where(w),
                    why or 'interpolate(s1,s2,mid/nd) in floating type, isValid on that state, one pop per iteration')
        # end state checked on every true-returning path + failed interior check leads to a false verdict
        cl = EndStateClient(s2)
        paths.run_function(fn, cl, F)
        bad = [p for (ok, rv, p) in cl.exits if rv is not False and not ok]
        rep.add('R05c', label, ('3arg' if three else '2arg') + ':end-state', not bad, fn.loc,
                'a path returns true without a successful isValid(s2)' if bad else
                'every path that may return true has seen isValid(s2) succeed (%d exit states)' % len(cl.exits),
                bad[0] if bad else None)
        if three:
            so = ScanOrderClient(s2)
            paths.run_function(fn, so, F)
            rep.add('R05c', label, '3arg:end-state-after-scan', not so.bad, fn.where(so.bad[0][0]) if so.bad else fn.loc,
                    'an interior point is examined after the end state: an end-state failure then reports (nd-1)/nd even '
                    'though an earlier subdivision point may be invalid' if so.bad else
                    'the end state is examined only after the interior scan', so.bad[0][1] if so.bad else None)
        bad = [p for (rv, p) in cl.failexits if rv is not False]
        rep.add('R05c', label, ('3arg' if three else '2arg') + ':failure-propagates', not bad, fn.loc,
                'a path on which an interior validity check failed can still return true' if bad else
                'every path through a failed validity check returns false (%d exit states)' % len(cl.failexits),
                bad[0] if bad else None)


class ScanOrderClient(paths.Client):
    """3-argument form: the end state may only be examined after the interior scan (otherwise an end-state failure
    reports (nd-1)/nd although an earlier subdivision point is invalid)"""

    def __init__(self, s2):
        self.s2 = s2
        self.bad = []

    def init(self, fn):
        return False

    def on_node(self, fn, node, auto, ctx):
        if node.get('callee') in ISVALID and len(node['ch']) > 1:
            a = fn.strip(node['ch'][1])
            k = '%s#%d' % (a.get('name'), a.get('did')) if a is not None and a['k'] == 'DeclRefExpr' else None
            if k == self.s2:
                return True
            if auto:
                self.bad.append((node['id'], ctx.path()))
        return auto


def interp_extras(fn):
    """for sibling agreement: callee + initial values of the extra (cache) arguments handed to interpolate()"""
    out = []
    decl = {}
    for ds in _find(fn, 'DeclStmt'):
        for d in ds.get('decls', []):
            decl['%s#%d' % (d['name'], d['did'])] = fn.fp(d['init']) if d.get('init') else '<default>'
    for c in fn.walk():
        if c.get('callee', '').endswith('::interpolate'):
            a = _args(fn, c)
            extras = []
            for x in a[3:-1]:
                k = _key(fn, x)
                if k is None:
                    # e.g. *path
                    n = fn.strip(x)
                    while n is not None and n['k'] in ('UnaryOperator', 'CXXOperatorCallExpr') and n['ch']:
                        n = fn.strip(n['ch'][0])
                    k = ('%s#%d' % (n.get('name'), n.get('did'))) if n is not None and n['k'] == 'DeclRefExpr' else None
                init = decl.get(k, '<not a local>')
                extras.append(re.sub(r'#\d+', '', init))
            out.append((c['callee'], c.get('csig'), tuple(extras)))
    return sorted(set(out))


class EndStateClient(paths.Client):
    def __init__(self, s2):
        self.s2 = s2
        self.exits = []
        self.failexits = []

    def init(self, fn):
        return (False, False)

    def learn(self, fn, node, value, auto, ctx):
        if node.get('callee') in ISVALID:
            a = fn.strip(node['ch'][1]) if len(node['ch']) > 1 else None
            if a is not None and a['k'] == 'DeclRefExpr':
                key = '%s#%d' % (a.get('name'), a.get('did'))
                if key == self.s2 and value is True:
                    return (True, auto[1])
            if value is False:
                return (auto[0], True)
        return auto

    def at_exit(self, fn, ret, auto, ctx):
        rv = ctx.eval(ret['ch'][0]) if ret is not None and ret['ch'] else None
        self.exits.append((auto[0], rv, ctx.path()))
        if auto[1]:
            self.failexits.append((rv, ctx.path()))


def r05_states_overload(rep, F):
    """SpaceInformation::checkMotion(states, count): open-interval schema"""
    fn = F.one('ompl::base::SpaceInformation::checkMotion', sig_contains='std::vector<State *> &, unsigned int) const')
    label = fn.name + '(states,count)'
    cnt = '%s#%d' % (fn.params[1]['name'], fn.params[1]['did'])
    sch = r05c_bisect(rep, F, fn, label, 'states', cnt, None, 'open')
    # endpoints: isValid(states.front()/states[0]) and isValid(states[count-1]) dominate the loop; the checked
    # element inside the loop is states[mid]
    w = sch['loop']
    chk = [c for c in fn.walk(w['body']) if c.get('callee') in ISVALID]
    ok = False
    if chk:
        a = fn.strip(chk[0]['ch'][1])
        if a is not None and a.get('oop') == '[]' and lin.lin(fn, a['ch'][1]) == {sch['mid']: 1}:
            ok = True
    rep.add('R05c', label, 'states:midpoint-check', ok, fn.where(w),
            'isValid(states[mid])' if ok else 'the loop does not check states[mid]')
    # endpoint checks: every path that enters the loop has seen isValid on front and on [count-1] succeed
    cl = EndpointClient(fn, cnt, w['id'])
    paths.run_function(fn, cl, F)
    bad = [p for (a, b, p) in cl.at_loop if not (a and b)]
    if not cl.at_loop:
        raise AnalysisBroken('R05c: bisection loop of checkMotion(states,count) not reached')
    rep.add('R05c', label, 'states:endpoints', not bad, fn.where(w),
            'the bisection loop is reachable without both endpoint checks having succeeded' if bad else
            'states.front() and states[count-1] are validated on every path into the bisection (%d states)' % len(cl.at_loop),
            bad[0] if bad else None)
    cl2 = EndStateClient('none')
    paths.run_function(fn, cl2, F)
    bad = [p for (rv, p) in cl2.failexits if rv is not False]
    rep.add('R05c', label, 'states:failure-propagates', not bad, fn.loc,
            'a path with a failed validity check can return true' if bad else
            'every path through a failed validity check returns false (%d exit states)' % len(cl2.failexits),
            bad[0] if bad else None)
    # the 3-argument overload: linear scan 0..count-1, first invalid index reported
    fn3 = F.one('ompl::base::SpaceInformation::checkMotion', sig_contains='unsigned int, unsigned int &) const')
    fors = _find(fn3, 'ForStmt')
    ok = False
    why = 'no scanning loop'
    if fors:
        f = fors[0]
        init = fn3.nodes.get(f.get('init') or 0)
        c3 = '%s#%d' % (fn3.params[1]['name'], fn3.params[1]['did'])
        if init and init['k'] == 'DeclStmt' and len(init['decls']) == 1:
            d = init['decls'][0]
            i = '%s#%d' % (d['name'], d['did'])
            start = lin.lin(fn3, d['init'])
            cond = lin.cmp_le0(fn3, f['cond'])
            if start != {1: 0}:
                why = 'scan starts at %s' % lin.show(start)
            elif cond != ('le0', lin.canon({i: 1, c3: -1, 1: 1})):
                why = 'scan bound is not i < count'
            else:
                st = [n for n in fn3.walk(f['body']) if n['k'] == 'BinaryOperator' and n.get('op') == '=' and
                      _key(fn3, n['ch'][0]) == '%s#%d' % (fn3.params[2]['name'], fn3.params[2]['did'])]
                if st and lin.lin(fn3, st[0]['ch'][1]) == {i: 1}:
                    ok = True
                else:
                    why = 'first invalid index is not stored as i'
    rep.add('R05c', fn3.name + '(states,count,idx)', 'states3:linear-scan', ok, fn3.loc,
            'for i = 0; i < count: isValid(states[i]) else firstInvalidStateIndex = i' if ok else why)


class EndpointClient(paths.Client):
    def __init__(self, fn, cnt, loop_id):
        self.cnt = cnt
        self.loop_cond = fn.nodes[loop_id]['cond']
        self.at_loop = []

    def init(self, fn):
        return (False, False)

    def learn(self, fn, node, value, auto, ctx):
        if node.get('callee') in ISVALID and value is True and len(node['ch']) > 1:
            a = fn.strip(node['ch'][1])
            if a is None:
                return auto
            if a.get('callee') == 'std::vector::front':
                return (True, auto[1])
            if a.get('oop') == '[]':
                idx = lin.lin(fn, a['ch'][1])
                if idx == {1: 0}:
                    return (True, auto[1])
                if idx == {self.cnt: 1, 1: -1}:
                    return (auto[0], True)
        return auto

    def on_node(self, fn, node, auto, ctx):
        # reaching the loop condition's queue test
        if node.get('callee') == 'std::queue::empty':
            self.at_loop.append((auto[0], auto[1], ctx.path()))
        return auto


def r05e(rep, F):
    rep.rule('R05e', 'StateSpace::validSegmentCount = factor * ceil(distance(s1,s2) / longestValidSegment); the compound '
                     'space takes the maximum over all components with matching indices')
    fn = F.one('ompl::base::StateSpace::validSegmentCount')
    rets = _find(fn, 'ReturnStmt')
    ok = False
    why = 'shape not recognised'
    if len(rets) == 1:
        fp = fn.fp(rets[0]['ch'][0])
        has_ceil = any(c.get('callee') in ('ceil', 'std::ceil') for c in fn.walk(rets[0]['id']))
        div = [n for n in fn.walk(rets[0]['id']) if n['k'] == 'BinaryOperator' and n.get('op') == '/']
        mul = [n for n in fn.walk(rets[0]['id']) if n['k'] == 'BinaryOperator' and n.get('op') == '*']
        if not has_ceil:
            why = 'no ceil(): the count is rounded down'
        elif len(div) != 1 or 'distance' not in fn.fp(div[0]['ch'][0]) or 'longestValidSegment_' not in fn.fp(div[0]['ch'][1]):
            why = 'quotient is not distance / longestValidSegment_'
        elif not lin.is_float_div(fn, div[0]['id']):
            why = 'integer division'
        elif len(mul) != 1 or 'longestValidSegmentCountFactor_' not in fp:
            why = 'count factor missing'
        else:
            dcall = [c for c in fn.walk(div[0]['ch'][0]) if c.get('callee', '').endswith('::distance')]
            a = _args(fn, dcall[0]) if dcall else []
            p0 = '%s#%d' % (fn.params[0]['name'], fn.params[0]['did'])
            p1 = '%s#%d' % (fn.params[1]['name'], fn.params[1]['did'])
            if len(a) == 2 and {_key(fn, a[0]), _key(fn, a[1])} == {p0, p1}:
                ok = True
            else:
                why = 'distance is not taken between the two argument states'
    rep.add('R05e', fn.name, 'formula', ok, fn.loc, 'factor * ceil(distance(s1,s2)/longest)' if ok else why)
    fn = F.one('ompl::base::CompoundStateSpace::validSegmentCount')
    from engine import shape
    r = shape.component_loop(fn, 'validSegmentCount')
    rep.add('R05e', fn.name, 'max-over-components', r[0], fn.loc, r[1])


def _param_types(csig):
    """parameter type strings of a clang signature 'ret (a, b, c) cv'"""
    i = csig.find('(')
    if i < 0:
        return []
    depth, cur, out = 0, '', []
    for ch in csig[i + 1:]:
        if ch in '(<[':
            depth += 1
        elif ch in ')>]':
            if depth == 0:
                break
            depth -= 1
        if ch == ',' and depth == 0:
            out.append(cur.strip())
            cur = ''
        else:
            cur += ch
    if cur.strip():
        out.append(cur.strip())
    return out


class ScratchInit(paths.Client):
    """auto = frozenset of scratch states (locals from allocState) that have been written on this path"""
    track = 'none'

    def __init__(self, fn):
        self.bad = []
        self.scratch = set()
        for n in fn.walk():
            if n['k'] == 'DeclStmt':
                for d in n.get('decls', []):
                    if d.get('init') and (fn.strip(d['init']) or {}).get('callee', '').endswith('::allocState'):
                        self.scratch.add('%s#%d' % (d['name'], d['did']))

    def init(self, fn):
        return frozenset()

    def on_node(self, fn, node, auto, ctx):
        if node['k'] == 'DeclStmt':
            for d in node.get('decls', []):
                kk = '%s#%d' % (d['name'], d['did'])
                if kk in self.scratch:
                    auto = auto - {kk}
            return auto
        if not node.get('callee') or not node.get('csig'):
            return auto
        a = args(fn, node)
        pt = _param_types(node['csig'])
        wrote = set()
        for i, x in enumerate(a):
            kk = key(fn, x)
            if kk not in self.scratch:
                continue
            ty = pt[i] if i < len(pt) else ''
            if node['callee'].endswith('::freeState'):
                continue
            if 'const' in ty.split('*')[0]:
                if kk not in auto:
                    self.bad.append((kk, node['id'], ctx.path()))
            else:
                wrote.add(kk)
        return auto | wrote


def r05f(rep, F, fns):
    rep.rule('R05f', 'scratch states are written before they are read: a local obtained from allocState() holds no defined value until a call '
                     'writes it (it is passed for a non-const State* parameter: interpolate(..., out), copyState(out, ...)); on every CFG path '
                     'a use as a const State* argument (copyState(dst, scratch), isValid(scratch)) comes after such a write.  A validator '
                     'that copies its scratch state into the caller\'s last-valid state on a path where the interpolation loop never ran '
                     '(a motion of a single segment) returns garbage as "the last valid state"')
    n = 0
    for f in fns:
        cl = ScratchInit(f)
        if not cl.scratch:
            continue
        n += 1
        paths.run_function(f, cl, F)
        ok = not cl.bad
        rep.add('R05f', label(f) if 'label' in globals() else f.name, 'scratch-written-before-read', ok, f.where(cl.bad[0][1]) if cl.bad else f.loc,
                'scratch states %s are written on every path before they are read' % sorted(nofp_(k_) for k_ in cl.scratch) if ok else
                'the scratch state %s is read here on a path that never wrote it (allocState() does not initialise a state)' % nofp_(cl.bad[0][0]),
                cl.bad[0][2] if cl.bad else None)
    rep.require_count('R05f', 'validator functions with scratch states', n, 14)


def nofp_(s_):
    return re.sub(r'#\d+', '', s_)


def run(rep):
    HI_ND[0] = 400 if getattr(rep, 'tier', 'quick') == 'thorough' else 48      # thorough tier: segment counts up to 400
    F = facts.load_units(UNITS)
    rep.units.update(UNITS)
    fns = [f for f in F.functions if BASE in (f.d.get('overrides') or [])]
    counting = [f for f in fns if f.record in COUNTING or any(counter_of(f, n) for n in f.walk())]
    rep.functions.update(f.key for f in counting)
    # frozen: Discrete x2, Dubins x2, ReedsShepp x2, Dubins3D x2 x3 instantiations
    rep.require_count('R05a', 'counting checkMotion overriders', len(counting), 12)
    for rec in COUNTING:
        if not any(f.record == rec for f in counting):
            raise AnalysisBroken('R05a: validator %s vanished' % rec)
    other = [f for f in fns if f not in counting]
    for f in other:
        rep.undecided('R05a', f.name, 'non-counting validator', 'never touches the counters; expresses no belief')
    r05a(rep, F, counting)
    r05b(rep, F, counting)
    rep.rule('R05d', 'both overloads obtain nd from validSegmentCount(s1, s2) with the arguments in parameter order')
    r05c(rep, F, counting)
    # sibling agreement between the two overloads of each validator (E8)
    byrec = {}
    for f in counting:
        byrec.setdefault((f.record, f.targs), []).append(f)
    for (rec, targs), fs in sorted(byrec.items()):
        if len(fs) != 2:
            continue
        a, b = interp_extras(fs[0]), interp_extras(fs[1])
        ok = a == b and bool(a)
        # ... and the curve is the SPACE's choice: a cache flag handed to interpolate() ("the path still has to be computed") starts true, so
        # that the space's own interpolate -- which may pick the reversed curve of a symmetric Dubins space -- computes the path.  A validator
        # that computes the path itself and starts the flag false walks a curve interpolate(s1, s2, t) does not trace
        for fx in fs:
            for (callee, csig, extras) in interp_extras(fx):
                if 'bool &' in (csig or ''):
                    flags = [e for e in extras if e in ('True', 'False', 'true', 'false') or e.startswith(('True', 'False'))]
                    okf = bool(flags) and all(e.startswith(('True', 'true')) for e in flags)
                    rep.add('R05d', fx.name + ('<' + targs + '>' if targs else ''), 'space-chooses-the-curve:' + ('3-arg' if len(fx.params) == 3 else '2-arg'),
                            okf, fx.loc,
                            'the path cache starts empty (first-time flag true): interpolate() computes the path' if okf else
                            'the first-time flag handed to %s starts %s: the validator walks a path it computed itself instead of the one the '
                            'space\'s interpolate(s1, s2, t) traces (which, for a symmetric space, may be the reversed curve)' %
                            (callee.split('::')[-2] + '::interpolate', flags or extras))
        rep.add('R05d', rec + ('<' + targs + '>' if targs else ''), 'overloads-interpolate-alike', ok, fs[0].loc,
                'both overloads interpolate through the same routine with identically initialised cache arguments %s' % (a,)
                if ok else 'the two overloads interpolate differently (they can disagree on the verdict): %s vs %s' % (a, b))
    r05_states_overload(rep, F)
    r05f(rep, F, counting + [f for f in F.functions if f.name.startswith('ompl::base::SpaceInformation::') and f.body])
    r05e(rep, F)
