"""C19 -- the documented thread-safe surface is race-free (structural clauses).

R19a no unsynchronised write (non-atomic mutable field, static-storage object, through const_cast) is reachable over the
     resolved call graph from the documented thread-safe entry points
R19b lock discipline of the mutex-protected singletons: every access to their data happens with their mutex held
R19c every manual lock() is matched by unlock() on all paths; every std::thread created is joined
R19d shared planner structures are accessed under their lock in worker functions (frozen table)
"""
import glob
import os
import re
from engine import facts, paths, effects
from engine.facts import AnalysisBroken, src
from engine.shape import key, args

SPACE_UNITS = sorted(glob.glob(src('base', 'spaces', 'src', '*.cpp')) + glob.glob(src('base', 'spaces', 'special', 'src', '*.cpp')) +
                     glob.glob(src('base', 'spaces', 'constraint', 'src', '*.cpp')))
CORE_UNITS = [src('base', 'src', 'SpaceInformation.cpp'), src('base', 'src', 'DiscreteMotionValidator.cpp'),
              src('base', 'src', 'StateSpace.cpp'), src('base', 'src', 'ProblemDefinition.cpp'),
              src('base', 'src', 'PlannerTerminationCondition.cpp'), src('base', 'src', 'Constraint.cpp'),
              src('util', 'src', 'RandomNumbers.cpp'), src('util', 'src', 'Console.cpp'), facts.INST + '/ds.cpp']
MT_UNITS = [src('geometric', 'planners', 'rrt', 'src', 'pRRT.cpp'), src('geometric', 'planners', 'sbl', 'src', 'pSBL.cpp'),
            src('geometric', 'planners', 'prm', 'src', 'PRM.cpp'), src('geometric', 'planners', 'prm', 'src', 'SPARS.cpp'),
            src('geometric', 'planners', 'prm', 'src', 'SPARStwo.cpp'),
            src('geometric', 'planners', 'cforest', 'src', 'CForest.cpp'),
            src('geometric', 'planners', 'cforest', 'src', 'CForestStateSampler.cpp'),
            src('geometric', 'planners', 'cforest', 'src', 'CForestStateSpaceWrapper.cpp'),
            src('geometric', 'planners', 'AnytimePathShortening.cpp'), src('base', 'goals', 'src', 'GoalLazySamples.cpp')]

B = 'ompl::base::'
ENTRIES = [
    (B + 'SpaceInformation::isValid', None), (B + 'SpaceInformation::checkMotion', None),
    ('ompl::NearestNeighborsGNAT::nearest', 'NearestNeighborsGNAT<int>'), ('ompl::NearestNeighborsGNAT::nearestK', 'NearestNeighborsGNAT<int>'),
    ('ompl::NearestNeighborsGNAT::nearestR', 'NearestNeighborsGNAT<int>'), ('ompl::NearestNeighborsGNAT::size', 'NearestNeighborsGNAT<int>'),
    ('ompl::NearestNeighborsGNAT::list', 'NearestNeighborsGNAT<int>'),
    ('ompl::RNG::RNG', None), (B + 'StateSpace::StateSpace', None), (B + 'StateSpace::~StateSpace', None),
    (B + 'ProblemDefinition::addSolutionPath', None), (B + 'ProblemDefinition::getSolutions', None),
    (B + 'ProblemDefinition::getSolutionPath', None), (B + 'ProblemDefinition::hasSolution', None),
    (B + 'ProblemDefinition::hasApproximateSolution', None), (B + 'ProblemDefinition::hasOptimizedSolution', None),
    (B + 'ProblemDefinition::getSolutionDifference', None), (B + 'ProblemDefinition::getSolutionCount', None),
    ('ompl::msg::log', None), ('ompl::msg::setLogLevel', None), ('ompl::msg::getLogLevel', None),
    ('ompl::msg::useOutputHandler', None), ('ompl::msg::noOutputHandler', None),
    ('ompl::msg::restorePreviousOutputHandler', None), ('ompl::msg::getOutputHandler', None),
    (B + 'PlannerTerminationCondition::terminate', None), (B + 'PlannerTerminationCondition::eval', None),
    (B + 'PlannerTerminationCondition::operator()', None), (B + 'PlannerTerminationCondition::operator bool', None),
]

# callbacks supplied by the user: their thread safety is the user's documented obligation
USER_CALLBACKS = (B + 'StateValidityChecker::isValid', B + 'StateValidityChecker::clearance',
                  B + 'Constraint::function', B + 'Constraint::jacobian')

SINGLETONS = {
    'PlannerSolutionSet': 'lock_',
    'RNGSeedGenerator': 'rngMutex_',
    'AllocatedSpaces': 'lock_',
    'DefaultOutputHandler': 'lock_',
}


def r19a(rep, F, cg):
    rep.rule('R19a', 'effect analysis over the resolved call graph (virtual calls expanded to every in-repo overrider, '
                     'lambdas followed): from each documented thread-safe entry point no function is reachable that '
                     'stores to a non-atomic mutable field, to a static-storage object, or through a const_cast')
    roots = []
    for name, targ in ENTRIES:
        fs = F.fn(name)
        if targ:
            fs = [f for f in fs if f.targs.startswith(targ)]
            if not fs:
                raise AnalysisBroken('R19a: entry %s<%s> vanished' % (name, targ))
        roots.append((name, fs))

    def stop(f, c):
        return c.get('callee') in USER_CALLBACKS and c.get('virt')
    total_reach = 0
    nentries = 0
    for name, fs in roots:
        seen = cg.reach(fs, stop=stop)
        # functions handed to std::call_once are one-time initialisers, synchronised by the once_flag
        once = set()
        for f in list(seen):
            for c in f.walk():
                if c.get('callee') == 'std::call_once':
                    for a in f.walk(c['id']):
                        if a['k'] == 'DeclRefExpr' and a.get('dk') == 'Function':
                            once.update(x.name for x in F.by_name.get(a.get('q'), []))
        total_reach += len(seen)
        nentries += 1
        hits = []
        for f in seen:
            if f.name in once:
                continue
            if f.d.get('kind') in ('ctor', 'dtor') and f not in fs:
                # constructing/destroying a local object does not publish writes to its own fields
                pass
            for (n, kind, what) in effects.plain_writes(f):
                if kind == 'mutable' or kind == 'constcast':
                    hits.append((f, n, kind, what))
                elif kind == 'static':
                    hits.append((f, n, kind, what))
        # writes performed with a lock held are synchronised: decide per function with the lock-set analysis
        byfn = {}
        for h in hits:
            byfn.setdefault(h[0], []).append(h)
        viol = []
        for f, hs in byfn.items():
            ids = {h[1]['id'] for h in hs}
            ls = effects.Lockset(lambda fn, node, ids=ids: node['id'] if node.get('id') in ids else None)
            paths.run_function(f, ls, F)
            for h in hs:
                if not ls.held.get(h[1]['id']):
                    viol.append(h)
        if viol:
            done = set()
            for (f, n, kind, what) in viol:
                if (kind, what) in done:
                    continue
                done.add((kind, what))
                rep.add('R19a', name, '%s-write:%s' % (kind, what), False, f.where(n),
                        'unsynchronised %s write to %s in %s, reachable from this thread-safe entry point via %s' %
                        (kind, what, f.name, ' -> '.join(cg.chain(seen, f)[-5:])))
        else:
            rep.add('R19a', name, 'no-unsynchronised-write', True, fs[0].loc,
                    '%d functions reachable, no unsynchronised mutable/static/const_cast write' % len(seen),
                    sample={'reachable_functions': len(seen)})
    rep.extra['callgraph_reach_total'] = total_reach
    # off-surface mutable writers, listed but not decided
    for f in F.functions:
        for (n, kind, what) in effects.plain_writes(f):
            if kind == 'mutable':
                rep.undecided('R19a', f.name, 'mutable-write:' + str(what), 'not reachable from the enumerated surface')


def r19b(rep, F):
    rep.rule('R19b', 'for the mutex-protected singletons (PlannerSolutionSet, RNGSeedGenerator, AllocatedSpaces, '
                     'DefaultOutputHandler) every access to a data field, in any function, happens with the object\'s own '
                     'mutex held (lock-set analysis over the CFG; RAII guards end at their scope exit); constructors exempt')
    n_acc = 0
    for short, mfield in SINGLETONS.items():
        cands = [n for n in F.records if n == short or n.endswith('::' + short)]
        if len(cands) != 1:
            raise AnalysisBroken('R19b: singleton record %s not found uniquely (%s)' % (short, cands))
        rec = cands[0]
        r = F.record(rec)
        fields = {f['name']: f for f in r['fields']}
        if mfield not in fields or 'mutex' not in fields[mfield]['ty']:
            raise AnalysisBroken('R19b: mutex field %s of %s vanished' % (mfield, rec))
        data = {n for n, f in fields.items() if n != mfield and not effects.is_sync_type(f['canon'])}
        qpref = rec + '::'
        users = []
        for f in F.functions:
            if f.record == rec and f.d.get('kind') in ('ctor', 'dtor'):
                continue
            acc = [n for n in f.walk() if n['k'] == 'MemberExpr' and (n.get('q') or '').startswith(qpref) and
                   n.get('name') in data]
            if acc:
                users.append((f, acc))
        for f, acc in users:
            want = {}
            for a in acc:
                base = f.fp(a['ch'][0]) if a['ch'] else 'this'
                want[a['id']] = re.sub(r'#\d+', '', '%s.%s' % (base, mfield))
            ls = effects.Lockset(lambda fn, node, want=want: node['id'] if node.get('id') in want else None)
            paths.run_function(f, ls, F)
            bad = [a for a in acc if a['id'] in ls.held and want[a['id']] not in ls.held[a['id']]]
            n_acc += len(acc)
            if bad:
                rep.add('R19b', f.name, 'access:%s' % bad[0].get('name'), False, f.where(bad[0]),
                        '%s::%s is accessed without holding %s' % (rec, bad[0].get('name'), want[bad[0]['id']]))
            else:
                rep.add('R19b', f.name, 'all-accesses-locked:' + rec.split('::')[-1], True, f.loc,
                        '%d accesses to %s data, all with %s held' % (len(acc), rec.split('::')[-1], mfield))
    rep.require_count('R19b', 'accesses to singleton data', n_acc, 30)


class ThreadClient(paths.Client):
    """std::thread objects created (new std::thread / local std::thread / emplace_back into a vector<thread>) must be
    joined before exit: auto = (created?, joined?)"""

    track = 'none'

    def __init__(self, fn):
        self.exits = []
        self.created = 0
        self.member_threads = []
        # a loop whose body joins threads joins all of them (creation and join loops run over the same container)
        self.joinloops = set()
        for n in fn.walk():
            if n['k'] in ('ForStmt', 'CXXForRangeStmt', 'WhileStmt') and n.get('body') and \
                    any(c.get('callee') == 'std::thread::join' for c in fn.walk(n['body'])):
                if n.get('cond'):
                    self.joinloops.add(n['cond'])

    def init(self, fn):
        return (False, False)

    def on_node(self, fn, node, auto, ctx):
        c, j = auto
        if node['k'] == 'CXXNewExpr' and 'thread' in (node.get('alloc') or ''):
            # ownership: stored into a data member => the object's stop/destructor must join it (checked separately)
            cur = node['id']
            p = fn.nodes.get(fn.parent.get(cur, 0))
            while p is not None and p['k'] in ('ImplicitCastExpr', 'ParenExpr'):
                p = fn.nodes.get(fn.parent.get(p['id'], 0))
            if p is not None and p['k'] == 'BinaryOperator' and p.get('op') == '=':
                l = fn.strip(p['ch'][0])
                if l is not None and l['k'] == 'MemberExpr' and l.get('dk') == 'Field' and \
                        (fn.strip(l['ch'][0]) or {}).get('k') == 'CXXThisExpr':
                    self.member_threads.append(l.get('name'))
                    return (c, j)
            c = True
            j = False
            self.created += 1
        elif node['k'] == 'DeclStmt':
            for d in node.get('decls', []):
                if (d.get('ty') or '') in ('std::thread',) and d.get('init'):
                    ini = fn.strip(d['init'])
                    if ini is not None and ini['ch']:
                        c = True
                        j = False
                        self.created += 1
        elif node.get('callee') in ('std::vector::emplace_back', 'std::vector::push_back') and node['ch'] and \
                'std::thread' in (fn.strip(node['ch'][0]) or {}).get('ty', ''):
            c = True
            j = False
            self.created += 1
        elif node.get('callee') == 'std::thread::join' or node.get('id') in self.joinloops:
            j = True
        return (c, j)

    def at_exit(self, fn, ret, auto, ctx):
        self.exits.append((auto, ctx.path()))


# mutexes whose acquisition is deliberately not paired inside one call (one symbol each, with the reason)
PAIRING_EXCEPTIONS = {
    ('ompl::geometric::pSBL::threadSolve', 'this.loopLock_'):
        'hand-over lock: taken by the first worker entering an iteration and released by the last one leaving, under the '
        'counter loopCounter_ (protected by loopLockCounter_); lock()/unlock() are therefore not paired per path',
}


def r19c(rep, F, fns):
    rep.rule('R19c', 'in every function of the multi-threaded planners: the set of manually locked mutexes at every exit '
                     'equals the set at entry (no path returns/continues with a mutex still held, no unlock of a mutex '
                     'that is not held, no re-lock of a held mutex); every std::thread created in a function is joined '
                     'on all paths to its exit')
    nlock = 0
    nthr = 0
    for f in fns:
        has_lock = any(n.get('callee', '').split('::')[-1] in ('lock', 'unlock') and n['ch'] and
                       'mutex' in ((f.strip(n['ch'][0]) or {}).get('ty') or '') for n in f.walk() if n['k'] == 'CXXMemberCallExpr')
        if has_lock:
            nlock += 1
            ls = effects.Lockset()
            paths.run_function(f, ls, F)
            exc = {m for (fnm, m) in PAIRING_EXCEPTIONS if fnm == f.name}
            for m in exc:
                rep.undecided('R19c', f.name, 'pairing:' + m, PAIRING_EXCEPTIONS[(f.name, m)])
            bad = [(s - exc, p) for (s, p) in ls.exit_sets if s - exc]
            ls.bad_unlock = [b for b in ls.bad_unlock if b[1] not in exc]
            ls.double_lock = [b for b in ls.double_lock if b[1] not in exc]
            if bad:
                rep.add('R19c', f.name, 'lock-unlock-pairing', False, f.loc,
                        'a path leaves the function with %s still locked' % sorted(bad[0][0]), bad[0][1])
            elif ls.bad_unlock:
                rep.add('R19c', f.name, 'lock-unlock-pairing', False, f.where(ls.bad_unlock[0][0]),
                        'unlock of %s on a path where it is not held' % ls.bad_unlock[0][1], ls.bad_unlock[0][2])
            elif ls.double_lock:
                rep.add('R19c', f.name, 'lock-unlock-pairing', False, f.where(ls.double_lock[0][0]),
                        '%s locked again while held (self-deadlock)' % ls.double_lock[0][1], ls.double_lock[0][2])
            else:
                rep.add('R19c', f.name, 'lock-unlock-pairing', True, f.loc,
                        'every manual lock() is released on all %d exit states' % len(ls.exit_sets))
        tc = ThreadClient(f)
        paths.run_function(f, tc, F)
        for mname in tc.member_threads:
            nthr += 1
            # some method of the class joins this member, and the destructor reaches that method (or joins itself)
            joiners = [g for g in F.functions if g.record == f.record and any(
                c.get('callee') == 'std::thread::join' and 'this.' + mname in re.sub(r'#\d+', '', g.fp(c['ch'][0]))
                for c in g.walk() if c['k'] == 'CXXMemberCallExpr' and c['ch'])]
            dtors = [g for g in F.functions if g.record == f.record and g.d.get('kind') == 'dtor']
            ok = bool(joiners) and bool(dtors) and any(
                g in joiners or any(c.get('callee') in {j.name for j in joiners} for c in g.walk()) for g in dtors)
            rep.add('R19c', f.name, 'member-thread-joined:' + mname, ok, f.loc,
                    'thread stored in %s is joined by %s, reached from the destructor' % (mname, [j.name.split('::')[-1] for j in joiners])
                    if ok else 'thread stored in member %s is never joined on destruction' % mname)
        if tc.created:
            nthr += 1
            bad = [p for ((c, j), p) in tc.exits if c and not j]
            rep.add('R19c', f.name, 'threads-joined', not bad, f.loc,
                    'a path returns with a created thread not joined' if bad else
                    'threads created here are joined on every path (%d exit states)' % len(tc.exits), bad[0] if bad else None)
    rep.require_count('R19c', 'functions with manual locking', nlock, 8)
    rep.require_count('R19c', 'functions creating threads', nthr, 5)


# frozen table: (function, member fingerprint regex, required mutex fingerprint) -- candidates found by the majority of
# accesses, each confirmed by reading
G = 'ompl::geometric::'
GM = r'this\.graphMutex_'
SHARED = [
    # (function, member fingerprint regex, required mutex regex, mode, reason)   mode: 'all' accesses | 'writes' only
    (G + 'pRRT::threadSolve', r'^this\.nn_$', r'this\.nnLock_', 'all', 'tree nearest-neighbour structure shared by the workers'),
    (G + 'pRRT::threadSolve', r'^sol\.(solution|approxsol|approxdif)$', r'sol\.lock', 'writes', 'solution record shared by the workers (reads are double-checked)'),
    (G + 'pSBL::threadSolve', r'^this\.loopCounter_$', r'this\.loopLockCounter_', 'all', 'barrier counter shared by the workers'),
    (G + 'pSBL::threadSolve', r'^this\.removeList_\.motions$', r'this\.removeList_\.lock', 'all', 'deferred-removal list shared by the workers'),
    (G + 'pSBL::threadSolve', r'^existing\.children$', r'existing\.lock', 'all', 'children list of a shared tree motion'),
    (G + 'pSBL::checkSolution', r'^otherTree\.grid$', r'otherTree\.lock', 'all', 'grid of the other tree'),
    (G + 'pSBL::checkSolution', r'^motion\.children$', r'motion\.lock', 'all', 'children list of a shared tree motion'),
    (G + 'pSBL::selectMotion', r'^tree\.pdf$', r'tree\.lock', 'all', 'cell PDF of a shared tree'),
    (G + 'pSBL::addMotion', r'^tree\.(grid|pdf|size)$', r'tree\.lock', 'all', 'grid/PDF/size of a shared tree'),
    (G + 'pSBL::isPathValid', r'\.valid$', r'\.lock$', 'all', 'per-motion validity flag'),
    (G + 'pSBL::isPathValid', r'^this\.removeList_\.motions$', r'this\.removeList_\.lock', 'all', 'deferred-removal list'),
    (G + 'PRM::addMilestone', r'^this\.(g_|nn_|disjointSets_|stateProperty_|totalConnectionAttemptsProperty_|successfulConnectionAttemptsProperty_)$', GM, 'all', 'roadmap grown while the solution thread reads it'),
    (G + 'PRM::expandRoadmap', r'^this\.(nn_|disjointSets_)$', GM, 'all', 'roadmap expanded while the solution thread reads it'),
    (G + 'PRM::constructSolution', r'^this\.(g_|stateProperty_)$', GM, 'all', 'solution thread reading the roadmap'),
    (G + 'PRM::constructApproximateSolution', r'^this\.(g_|stateProperty_)$', GM, 'all', 'solution thread reading the roadmap'),
    (G + 'SPARS::addMilestone', r'^this\.(g_|nn_|stateProperty_|representativesProperty_)$', GM, 'all', 'dense roadmap'),
    (G + 'SPARS::addGuard', r'^this\.(s_|snn_|sparseDJSets_|sparseStateProperty_|sparseColorProperty_)$', GM, 'all', 'sparse roadmap'),
    (G + 'SPARS::connectSparsePoints', r'^this\.(s_|sparseDJSets_)$', GM, 'all', 'sparse roadmap'),
    (G + 'SPARS::connectDensePoints', r'^this\.g_$', GM, 'all', 'dense roadmap'),
    (G + 'SPARS::constructSolution', r'^this\.(s_|sparseStateProperty_)$', GM, 'all', 'solution thread reading the sparse roadmap'),
    (G + 'SPARS::checkQueryStateInitialization', r'^this\.(g_|s_|queryVertex_|sparseQueryVertex_)$', GM, 'all', 'query vertices'),
    (G + 'SPARStwo::addGuard', r'^this\.(g_|nn_|disjointSets_|stateProperty_|colorProperty_)$', GM, 'all', 'roadmap'),
    (G + 'SPARStwo::connectGuards', r'^this\.(g_|disjointSets_)$', GM, 'all', 'roadmap'),
    (G + 'SPARStwo::constructSolution', r'^this\.(g_|stateProperty_)$', GM, 'all', 'solution thread reading the roadmap'),
    (G + 'SPARStwo::checkQueryStateInitialization', r'^this\.(g_|queryVertex_)$', GM, 'all', 'query vertex'),
    (G + 'CForest::newSolutionFound', r'^this\.(bestCost_|numPathsShared_|numStatesShared_|statesShared_)$', r'this\.newSolutionFoundMutex_', 'all', 'incumbent and sharing state updated by every worker'),
    (G + 'CForest::addSampler', r'^this\.samplers_$', r'this\.addSamplerMutex_', 'all', 'sampler registry filled by every worker'),
    ('ompl::base::CForestStateSampler::setStatesToSample', r'^this\.statesToSample_$', r'this\.statesLock_', 'all', 'states handed over by other workers'),
    ('ompl::base::CForestStateSampler::getNextSample', r'^this\.statesToSample_$', r'this\.statesLock_', 'all', 'states handed over by other workers'),
    ('ompl::base::CForestStateSampler::clear', r'^this\.statesToSample_$', r'this\.statesLock_', 'all', 'states handed over by other workers'),
    (G + 'AnytimePathShortening::addPath', r'^this\.bestCost_$', r'this\.lock_', 'all', 'best cost shared by the planner threads'),
    (G + 'AnytimePathShortening::threadSolve', r'^this\.(invalidGoalCount_|invalidStartStateCount_)$', r'this\.invalidStartOrGoalLock_', 'all', 'failure counters shared by the planner threads'),
    ('ompl::base::GoalLazySamples::addStateIfDifferent', r'^this\.states_$', r'this\.lock_', 'all', 'goal states appended by the sampling thread'),
    ('ompl::base::GoalLazySamples::startSampling', r'^this\.(samplingThread_|terminateSamplingThread_)$', r'this\.lock_', 'all', 'sampling thread handle'),
    ('ompl::base::GoalLazySamples::stopSampling', r'^this\.terminateSamplingThread_$', r'this\.lock_', 'all', 'stop flag'),
    ('ompl::base::GoalLazySamples::isSampling', r'^this\.(samplingThread_|terminateSamplingThread_)$', r'this\.lock_', 'all', 'sampling thread handle'),
]
# functions that must hold a mutex around a call into an unsynchronised base-class routine
LOCKED_CALLS = [
    ('ompl::base::GoalLazySamples::sampleGoal', 'ompl::base::GoalStates::sampleGoal', r'this\.lock_'),
    ('ompl::base::GoalLazySamples::distanceGoal', 'ompl::base::GoalStates::distanceGoal', r'this\.lock_'),
    ('ompl::base::GoalLazySamples::getStateCount', 'ompl::base::GoalStates::getStateCount', r'this\.lock_'),
    ('ompl::base::GoalLazySamples::getState', 'ompl::base::GoalStates::getState', r'this\.lock_'),
    ('ompl::base::GoalLazySamples::hasStates', 'ompl::base::GoalStates::hasStates', r'this\.lock_'),
    ('ompl::base::GoalLazySamples::addState', 'ompl::base::GoalStates::addState', r'this\.lock_'),
    ('ompl::base::GoalLazySamples::clear', 'ompl::base::GoalStates::clear', r'this\.lock_'),
    ('ompl::base::GoalLazySamples::maxSampleCount', 'ompl::base::GoalStates::maxSampleCount', r'this\.lock_'),
]


def r19d(rep, F):
    rep.rule('R19d', 'worker functions of the multi-threaded planners access each shared structure only with the lock that '
                     'protects it held (frozen table of (function, member, mutex) found by the majority of accesses and '
                     'confirmed by reading; lock-set analysis over the CFG, RAII guards and manual lock()/unlock())')
    for fname, pat, mutex, mode, why in SHARED:
        fs = F.by_name.get(fname, [])
        if not fs:
            raise AnalysisBroken('R19d: worker function %s vanished' % fname)
        rx = re.compile(pat)
        mrx = re.compile(mutex)
        found = 0
        for f in fs:
            acc = {}
            for n in f.walk():
                if n['k'] == 'MemberExpr' and n.get('dk') == 'Field':
                    fp = re.sub(r'#\d+', '', f.fp(n['id']))
                    if rx.search(fp):
                        if mode == 'writes':
                            # the member expression is the written l-value of its parent
                            cur = n['id']
                            p = f.nodes.get(f.parent.get(cur, 0))
                            while p is not None and p['k'] in ('ImplicitCastExpr', 'ParenExpr'):
                                cur = p['id']
                                p = f.nodes.get(f.parent.get(cur, 0))
                            lv = effects.written_lvalue(f, p) if p is not None else None
                            if lv is None or (f.strip(lv) or {}).get('id') != n['id']:
                                continue
                        acc[n['id']] = fp
            if not acc:
                continue
            found += 1
            ls = effects.Lockset(lambda fn, node, acc=acc: node['id'] if node.get('id') in acc else None)
            paths.run_function(f, ls, F)
            bad = [i for i in acc if i in ls.held and not any(mrx.search(m) for m in ls.held[i])]
            role = 'shared:%s%s' % (pat, '' if len(fs) == 1 else ':' + f.sig)
            if bad:
                rep.add('R19d', fname, role, False, f.where(bad[0]),
                        '%s accessed without %s held (%s)' % (acc[bad[0]], mutex.replace('\\', ''), why))
            else:
                rep.add('R19d', fname, role, True, f.loc,
                        '%d accesses, all with %s held (%s)' % (len(acc), mutex.replace('\\', ''), why))
        if not found:
            raise AnalysisBroken('R19d: %s no longer accesses %s' % (fname, pat))
    for fname, callee, mutex in LOCKED_CALLS:
        fs = F.by_name.get(fname, [])
        if not fs:
            raise AnalysisBroken('R19d: %s vanished' % fname)
        f = fs[0]
        calls = {c['id'] for c in f.walk() if c.get('callee') == callee}
        if not calls:
            raise AnalysisBroken('R19d: %s no longer calls %s' % (fname, callee))
        mrx = re.compile(mutex)
        ls = effects.Lockset(lambda fn, node, calls=calls: node['id'] if node.get('id') in calls else None)
        paths.run_function(f, ls, F)
        bad = [i for i in calls if i in ls.held and not any(mrx.search(m) for m in ls.held[i])]
        rep.add('R19d', fname, 'locked-call:' + callee.split('::')[-1], not bad, f.where(bad[0]) if bad else f.loc,
                'calls the unsynchronised %s without %s held' % (callee, mutex.replace('\\', '')) if bad else
                'base-class routine called with %s held' % mutex.replace('\\', ''))


def r19e(rep, F):
    rep.rule('R19e', 'an update of a std::atomic field that depends on its previous value is a single atomic '
                     'read-modify-write (++, +=, fetch_*, exchange, compare_exchange): a store whose value expression reads '
                     'the same atomic is a lost-update race that no race detector reports')
    n = 0
    seen = set()
    for f in F.functions:
        for x in f.walk():
            tgt = rhs = None
            if x['k'] == 'CXXOperatorCallExpr' and x.get('oop') == '=' and len(x['ch']) == 2:
                tgt, rhs = x['ch'][0], x['ch'][1]
            elif x['k'] == 'CXXMemberCallExpr' and x.get('callee', '').endswith('::store') and len(x['ch']) >= 2:
                tgt, rhs = x['ch'][0], x['ch'][1]
            if tgt is None:
                continue
            t = f.strip(tgt)
            if t is None or t['k'] not in ('MemberExpr', 'DeclRefExpr') or 'atomic' not in (t.get('ty') or ''):
                continue
            key = (f.key, x['id'])
            if key in seen:
                continue
            seen.add(key)
            n += 1
            tfp = f.fp(tgt)
            reads = any(y['k'] in ('MemberExpr', 'DeclRefExpr') and f.fp(y['id']) == tfp for y in f.walk(rhs))
            rep.add('R19e', f.name, 'atomic-store:%s#%d' % (t.get('name'), n), not reads, f.where(x),
                    'the stored value reads %s itself: load and store are separate operations, concurrent updates are lost'
                    % t.get('name') if reads else 'plain store of a value that does not depend on the atomic', nontrivial=reads)
    rep.require_count('R19e', 'stores to atomic fields', n, 3)


def worker_functions(F, mt):
    """functions that run on a thread the planner creates: targets named in a std::thread construction (member-function pointer, lambda body
    that calls a member function), one call level deep"""
    names = set()
    for f in mt:
        for n in f.walk():
            is_thread = (n['k'] == 'CXXConstructExpr' and 'std::thread' in (n.get('ty') or '')) or \
                        (n['k'] == 'CXXNewExpr' and 'std::thread' in (n.get('alloc') or n.get('ty') or '')) or \
                        ((n.get('callee') or '').endswith(('emplace_back', 'push_back')) and 'thread' in f.fp(n['ch'][0]))
            if not is_thread:
                continue
            for x in f.walk(n['id']):
                if x['k'] == 'DeclRefExpr' and x.get('q') and '::' in x.get('q', '') and x.get('dk') in ('Method', 'CXXMethod', 'Function'):
                    names.add(x['q'])
                if x['k'] == 'LambdaExpr':
                    for h in F.lambdas_of.get(f.name, []):
                        names.add(h.name)
                        for c in h.walk():
                            if c.get('callee') and c.get('crepo'):
                                names.add(c['callee'])
                if x['k'] == 'UnaryOperator' and x.get('op') == '&':
                    y = f.strip(x['ch'][0])
                    if y is not None and y.get('q'):
                        names.add(y['q'])
    return names


def r19g(rep, F, mt):
    rep.rule('R19g', 'workers never clear the shared solution registry: in a function that runs on a thread the planner created (the target of a '
                     'std::thread construction, or a member function its lambda calls) clearSolutionPaths() is applied only to a problem '
                     'definition the worker owns (a local / parameter clone), never to the planner\'s shared pdef_.  Adding to the shared '
                     'registry is synchronised and monotone; clearing it from one worker erases the solutions the other workers reported, and '
                     'the planner answers "no solution" after an exact one was found')
    workers = worker_functions(F, mt)
    n = 0
    for wname in sorted(workers):
        for f in F.by_name.get(wname, []):
            if not f.body:
                continue
            for c in f.walk():
                if (c.get('callee') or '') == B + 'ProblemDefinition::clearSolutionPaths':
                    n += 1
                    recv = re.sub(r'#\d+', '', f.fp(c['ch'][0]))
                    shared = 'this.pdef_' in recv
                    k = len([1 for o in rep.obl if o['rule'] == 'R19g' and o['function'] == f.name])
                    rep.add('R19g', f.name, 'clears-own-registry#%d' % k, not shared, f.where(c),
                            'clears %s, a problem definition the worker owns' % recv.split('(')[-1].rstrip(')') if not shared else
                            'a worker thread clears the planner\'s shared problem definition (this.pdef_): the solutions the other workers '
                            'registered are erased')
    rep.extra['worker_functions'] = sorted(workers)
    rep.require_count('R19g', 'clearSolutionPaths calls in worker functions', n, 2)


def run(rep):
    units = CORE_UNITS + SPACE_UNITS + MT_UNITS
    F = facts.load_units(units)
    rep.units.update(units)
    rep.functions.update(f.key for f in F.functions)
    cg = effects.CallGraph(F)
    r19a(rep, F, cg)
    r19b(rep, F)
    mt = [f for f in F.functions if any(f.file == u for u in MT_UNITS) or
          '/cforest/' in f.file or f.file.endswith(('pRRT.h', 'pSBL.h', 'PRM.h', 'SPARS.h', 'SPARStwo.h'))]
    mt += [f for f in F.functions if f.record == 'ompl::base::PlannerTerminationCondition::PlannerTerminationConditionImpl']
    r19c(rep, F, mt)
    r19d(rep, F)
    r19e(rep, F)
    r19g(rep, F, mt)
    # a terminate() request from another thread must stay visible whatever the polling thread stores afterwards: eval() reads
    # the atomic request flag itself on every path (decision tree shared with C18/R18e)
    from rules import c18
    if not any(u.endswith('PlannerTerminationCondition.cpp') for u in units):
        raise AnalysisBroken('R19f: PlannerTerminationCondition.cpp is not among the analysed units')
    c18.r18e(rep, F)
    rep.rule_text['R19f'] = 'cross-thread terminate() is sticky: ' + rep.rule_text.pop('R18e')
    for o in rep.obl:
        if o['rule'] == 'R18e':
            o['rule'] = 'R19f'
