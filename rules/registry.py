"""Per-property registration data; tools/mkmanifest.py turns this into MANIFEST.json."""

# id -> dict(enabled, design_ref, text, note, technique)
P = {}


def reg(pid, enabled, text, note, technique, na_reason=None):
    P[pid] = dict(enabled=enabled, text=text, note=note, technique=technique, na_reason=na_reason)


PENDING = 'check not built yet in this commit (see DESIGN.md section 8 for the build order)'

reg('C05', True,
    'Decides the structural clauses of the motion-validity property for every input: on every CFG path of every '
    'counting validator exactly one counter is bumped and agrees with the verdict; lastValid is written iff the call '
    'fails and the stored fraction is (failed index-1)/nd in floating type; the linear scan covers 1..nd-1 plus the end '
    'state and the bisection queue schema, extracted in linear normal form, visits exactly 1..nd-1; failed checks '
    'propagate to a false verdict; both overloads take nd from validSegmentCount(s1,s2). Not decided: that interpolated '
    'states are the intended ones (C07) and floating rounding of j/nd.',
    'clang 14 AST/CFG of the five anchor units; the validity checker is an opaque callback',
    'path-sensitive typestate over clang CFG + linear normal form + queue-schema coverage')
reg('C11', True,
    'Decides the per-operation necessary conditions of the heap invariant on every instantiation of BinaryHeap: every '
    'placement of an element at a slot is followed on all paths by sifts in both directions (or a rebuild), every slot '
    'store is paired with the handle position store, each removal deletes one element and shrinks the storage by one, '
    'sift/build index arithmetic and comparison argument order match the binary-heap scheme. Not decided: the global '
    'heap order over histories as an inductive proof, comparator behaviour.',
    'clang 14 AST/CFG of the explicit instantiation BinaryHeap<int> (+ every instantiation in the library, thorough tier)',
    'typestate over clang CFG (pending-restoration automaton), paired-update rule, linear normal form of index arithmetic')
reg('C18', True,
    'Decides, for all inputs, the finite-domain and structural clauses: the termination flag is write-once-true; eval() '
    'equals flag or (period>0 ? cached : predicate) on the full abstract domain; or/and/always/never predicates have the '
    'right truth tables with by-value captures; the iteration condition increments once and returns old+1>max on every '
    'ordering; timed predicates compare a steady clock (compile-time is_steady witness) against an end point computed '
    'once from the duration argument and captured by value, direction now>=end, interval clamped; solve(double) passes '
    'its own duration; exact-solution pass-through; cost-convergence terminate() only under window-full and both strict '
    'threshold tests with thresholds from the previous average; the stored average is, as an algebraic normal form, '
    '((w-1)*old + c)/w with w = min(solutions+1, window) and the counter advances by one. Not decided: rounding of the '
    'average, real-time lag.',
    'clang 14 AST/CFG of four units; std::function/std::thread/std::atomic semantics are trusted',
    'finite-domain abstract evaluation of decision trees + who-may-write + type-level witness (-fsyntax-only) + algebraic '
    'normal form of the window average')
reg('C12', True,
    'Narrow claim. Decides the structural necessary conditions of the weighted-sampling structure on its instantiation: '
    'element handle (index_) and data_ slot stay paired on add and on remove\'s swap, the leaf-row swap exchanges the same '
    'two slots, the empty-structure rejection dominates every tree access in sample(), the compared cell is the '
    'subtracted cell, one row step and one index doubling per iteration, the right-child step is guarded by the '
    'existence of a right child, update() walks one cell per row with the same delta, remove() shrinks data_ and the leaf '
    'row together with the sibling short-cut exactly for (index+2==size, index even), and every leaf-row edit is followed '
    'on all paths by the upper-row maintenance loop. Not decided: the selection rule as arithmetic, proportional '
    'frequencies, magnitude of rounding drift.',
    'clang 14 AST/CFG of the explicit instantiation PDF<int>; std::vector semantics trusted',
    'paired-update typestate, guard dominance and must-pass-through over clang CFG; linear normal form')
reg('C19', True,
    'Decides the structural clauses of race freedom: (a) over the resolved call graph (CHA refined by receiver class, '
    'lambdas followed) no documented thread-safe entry point reaches an unsynchronised store to a non-atomic mutable '
    'field, a static-storage object or through const_cast; (b) every access to the data of the four mutex-protected '
    'singletons happens with their own mutex held (lock-set analysis over the CFG); (c) manual lock()/unlock() are paired '
    'on all paths and created threads are joined; (d) a frozen, read-confirmed table of 36 (worker function, shared '
    'member, mutex) triples and 8 locked base-class calls of the multi-threaded planners holds; (e) the termination '
    'condition\'s eval() reads the request flag before the cached value (a terminate() from another thread is seen by the '
    'next eval() in periodic mode too). Not decided: '
    'linearizability, solution quality under interleavings. Known finding: AtlasStateSpace mutates its atlas in const '
    'geodesic traversal (TSan-confirmed).',
    'clang 14 AST/CFG of 44 units; user callbacks (validity checker, constraint function) end the traversal; std '
    'library synchronisation primitives trusted',
    'effect analysis over the resolved call graph + lock-set dataflow over clang CFG + frozen who-holds-what table')
reg('C04', True,
    'Decides for all inputs: the ranking operator of solutions is a strict weak order equal to the documented ranking '
    '(exhaustive over 108 abstract solutions, all pairs and triples, objective present and absent); the solution set is '
    're-sorted after every insertion and readers answer from element 0; at all 10 setOptimized sites the meets-objective '
    'flag is false or isSatisfied of the stored cost (frozen alias table); isCostBetterThan is strict <; 12 frozen '
    'incumbent-update sites store the new cost only under isCostBetterThan(new, incumbent) with that argument order '
    '(first-solution / objective-satisfied idioms as reasoned exceptions), resets only outside loops; PathGeometric::cost '
    'and length are the adjacent-pair folds; parent, cost and incCost of an RRT* node are assigned together at every '
    're-parenting and parent/children links are kept two-way; where a candidate replaces a selected node under a cost '
    'comparison, the bound is the cost of the replaced node or a running cost updated in the same branch; every edge cost '
    'or cost-to-come stored in a search tree (38 sinks in RRT*, RRTX, AIT*, EIT*, BIT*, FMT*, BFMT*, SST) derives from '
    'OptimizationObjective::motionCost and costs already in the tree, never from a heuristic / best-estimate function. '
    'Not decided: stored cost vs true cost for planners with deferred '
    'propagation, admissibility of heuristics, BIT*/LBTRRT incumbent idioms (listed).',
    'clang 14 AST/CFG of 24 units; the objective\'s virtual cost functions are opaque',
    'finite-domain abstract evaluation (strict weak order + spec table) + call-site argument agreement + guard shape + '
    'value-provenance (origin sets) of stored costs')
reg('C13', True,
    'Decides for all histories the per-operation necessary conditions: neighbour probes are exactly -1/+1 in every '
    'dimension with the coordinate restored; every neighbour-counter write re-establishes border <=> count < limit '
    '(finite domain, invariant assumed before); in GridB the heap operations per neighbour match the flag transition '
    '(stay => update in the same heap, flip => remove from the old and insert into the new) and add/update/remove select '
    'the heap by the flag; createCell/remove are duals over the same neighbour set, the neighbour pass runs on every '
    'non-null path and before the hash erase; lookups/add/remove key on the coordinate; the component traversal marks, '
    'expands, drops duplicates and starts components only from unmarked cells. Not decided: hash quality, ordering '
    'functor behaviour, the global invariants as an inductive proof.',
    'clang 14 AST/CFG of the explicit instantiations Grid<int>, GridN<int>, GridB<int>; BinaryHeap is covered by C11',
    'finite-domain abstract evaluation of the per-neighbour code + constant tracking + must-pass-through over clang CFG')
reg('C10', True,
    'Decides structural necessary conditions of exactness for both GNAT variants, the linear and the sqrt-approximate '
    'structure: removed elements are filtered at every result-producing site; remove() tests identity before marking, '
    'keeps verdict/size_/removed_ consistent on every path and rebuilds when a pivot is removed or the cache is full; '
    'size bookkeeping per path; all 24 pruning/enqueue predicates, in signed-term normal form with variant-specific '
    'names mapped, equal the GNAT specification forms (sign, strictness, bound pairing), have the right polarity and '
    'consequence, K forms are guarded by "k found", the search radius is the k-th distance resp. the query radius; '
    'envelope updates move min down / max up; the tie clause is present; linear sort/truncate/filter; sqrt mutators '
    'refresh the check count; the no-thread-safety scratch queue is empty on every exit. Not decided: that the envelopes '
    'are conservative for a metric (inductive geometric argument), result order under ties.',
    'clang 14 AST/CFG of the explicit instantiations over int; the distance function is an opaque callback',
    'canonical (signed-term) normal forms compared with a specification table + typestate over clang CFG')
reg('C09', True,
    'Decides structural and finite-domain clauses for all inputs: in the three loaders marker and signature tests '
    '(established on CFG edges) dominate every payload read and a true result implies the payload was read; writers fill '
    'every header field (counts = container sizes) before the payload; writer o reader of the vertex tag is the identity '
    'on all four (start, goal) combinations in an order-sensitive model that adds each vertex once; edge fields round '
    'trip in order; every field of each serialised record is archived; compound (de)serialize walk identical offsets; '
    'copyToReals/copyFromReals mirror; WrapperStateSpace forwards all State-taking virtuals with unwrapped arguments; '
    'comparator functors never compare a parameter with itself; binary-searched index lists are re-sorted after every '
    'append. Not decided: bit-exact value round trip, graph isomorphism for arbitrary graphs, truncation at every offset '
    '(Boost archive behaviour).',
    'clang 14 AST/CFG of six units; Boost.Serialization is trusted',
    'guard dominance over clang CFG + finite-domain composition of writer/reader tables + forwarding-shape rules')
reg('C08', True,
    'Decides finite-domain and typestate clauses: for R^n, SO(2), time and discrete spaces enforceBounds followed by '
    'satisfiesBounds (both bodies interpreted over exact rationals, pi := 1) yields in-bounds, leaves in-bounds input '
    'unchanged and is idempotent on every ordering region and boundary point; their three sampler methods, executed '
    'abstractly with the RNG replaced by an adversarial oracle bound only by its contract, always produce states that '
    'satisfy satisfiesBounds; compound/wrapper/subspace samplers forward per component / through a scratch state and no '
    'near/Gaussian call site aliases output and mean; all 14 valid-state sampler methods return a possibly-true result '
    'only with an output state whose last write was followed by a successful validity check (verdict variables forked '
    'exactly, copyState transfers, checkMotion last-valid contract). Not decided: SO(3) unit norm, fmod for huge inputs, '
    'uniformReal never returning its upper end point.',
    'clang 14 AST/CFG of 17 units; the RNG contract ([a,b) for uniformReal) and the validity checker are assumptions',
    'finite-domain abstract execution with an adversarial RNG oracle + typestate over clang CFG + call-site alias rule')
reg('C03', True,
    'Decides structural clauses over every planner: in 39 solve() functions a solution status is returned only on paths '
    'that registered a solution path and the status flag equals the registered flag (path-sensitive, verdict booleans, '
    'pointer null-ness, smart-pointer truthiness, status enum locals; reasoned exceptions for planners that answer from '
    'the problem definition or an earlier solve); every path-assembly loop covers all extracted nodes including index '
    '0; temporaries from allocState/cloneState are released on every path to every return in all functions reachable '
    'from a solve(); every clear() override chains to its base and resets node-pointer members assigned by solve(); '
    'pointer members deleted in re-runnable functions are re-assigned; PlannerInputStates resets every per-query field, '
    'clears iff the problem definition changed and hands out only states that passed satisfiesBounds and isValid; '
    'growth loops consult the termination condition; setProblemDefinition overrides clear the query unconditionally; '
    'functions that empty a raw-pointer tree index drain every local work-list they filled (re-add or free); the '
    'RRTConnect side flag that selects the approximate solution agrees with the tree that owns the candidate. '
    'Not decided: a bound on further evaluations, cost monotonicity across resumed solves (C04), leaks inside callee '
    'libraries.',
    'clang 14 AST/CFG of 131 units (all geometric, control and multilevel planners); call graph by CHA',
    'path-sensitive typestate with relevance slicing over clang CFG + acquire/release pairing + sibling agreement')
reg('C01', True,
    'Decides structural necessary conditions over all geometric and multilevel planner units: tree links, roadmap edges '
    'and FMT-style re-parenting are created only on CFG paths dominated by a successful motion check (3-argument '
    'validated-prefix and both-branches-check ternaries recognised; helpers discharged at call sites; lazy planners and '
    'six helper idioms listed with reasons); lazy validators mark motions/vertices/edges valid only after the check and '
    'LazyPRM\'s edge walk reaches the root; start/goal states handed to planners passed satisfiesBounds and isValid; in '
    '32 solve() functions status, approximate flag and registration agree; the node recorded as (approximate) solution '
    'is the node whose state goal->isSatisfied tested; PathGeometric::check covers state 0 and every adjacent pair; path '
    'assembly loops cover every extracted node; interpolation parameters A/D are guarded by D > A or followed by '
    'enforceBounds before use; a scratch connection target is reloaded before it is handed again to a callee that may '
    'truncate it (BiTRRT); RRTConnect\'s side flag tgi.start designates the tree that holds tgi.xmotion at every read; in SBL, '
    'pSBL and LBKPIECE1 the lazy-validation guard of a found connection validates exactly the two junction nodes (the node '
    'freshly created by copyState and its counterpart); a delegating planner re-registers a sub-planner\'s path as exact only '
    'under status == EXACT_SOLUTION (AnytimePathShortening). '
    'Not decided: correctness of checkMotion itself (C05), bounds of interpolated states in '
    'general, "no stretch longer than twice the resolution", BIT*/AIT*/EIT* edge bookkeeping beyond what is listed.',
    'clang 14 AST/CFG of 115 units; the validity checker and goal are opaque',
    'guard dominance and path-sensitive typestate over clang CFG with verdict-relevance slicing + call-site agreement')
reg('C02', True,
    'Decides structural necessary conditions over the control planners and control::SpaceInformation: the step count '
    'stored in a tree node or returned by a directed control sampler is, on every path, the count that '
    'propagateWhileValid/sampleTo returned (value-flow over the CFG); every 3-argument PathControl::append takes '
    'state, control and steps*stepSize from one node; in propagateWhileValid every propagated state is validated '
    'before the function returns and the returned count is the number of validated steps; controls are drawn with '
    'uniformReal(low[i], high[i]) for all i; the node whose state satisfied the goal is recorded before the test is '
    're-evaluated or the function returns; parallel solution arrays are cleared together; status and registration '
    'agree in 6 control solve() functions. Not decided: that replay reproduces the states (depends on the user '
    'propagator being deterministic), goal-region geometry, PDST/LTL path assembly (listed).',
    'clang 14 AST/CFG of 20 units; the state propagator and validity checker are opaque',
    'value-flow (taint) and typestate over clang CFG + call-site argument agreement')
reg('C17', True,
    'Decides structural necessary conditions over PathSimplifier and PathGeometric: every erase/insert/swap/overwrite '
    'of a path\'s state vector in the seven simplification routines is reached only after a successful motion check on '
    'the replacing segment; freed index range == erased index range at 13 free/erase pairs; in the cost-aware routines '
    'the mutation is reached only when the objective comparison favoured the candidate, with old/new argument roles '
    'frozen per routine; simplify() returns valid || path.check(); subdivide/interpolate keep every original vertex '
    'once and in order; the along-path cost folds in perturbPath are contiguous; the per-segment insert count in '
    'interpolate(count) is bounded by the remaining budget on every path; findBetterGoal accounts for the junction '
    'piece. Not decided: numeric cost values (the objective is opaque), B-spline geometry, hybridization graph search, '
    'that exactly `count` states result (only the upper bound and the endpoint retention are structural).',
    'clang 14 AST/CFG of PathSimplifier.cpp, PathGeometric.cpp, PathHybridization.cpp; objective and motion validator opaque',
    'guard dominance + path-sensitive must-hold facts over clang CFG, linear-normal-form range agreement')
reg('C06', True,
    'Decides, in an algebraic normal form of the distance / equalStates / flag routines (ring axioms, evenness of '
    'fabs and cos, oddness of sin, commutative min/max, loop sums), the clauses that are visible in the shape of the '
    'code: the compound distance and extent are the weighted folds over all components and the compound flags are the '
    'conjunction of the component flags (this is the statement\'s last clause); wrapper spaces forward distance, '
    'equality, extent and flags unchanged; every space that claims a symmetric distance has a swap-invariant distance '
    'expression (R^n, SO(2), SO(3), time, discrete, sphere, torus, Moebius, compound, space-time; Dubins under its '
    'isSymmetric_ flag); d(a,a) normalises to 0 and equalStates(a,a) to true; equalStates compares nothing that '
    'distance ignores and is invariant under q ~ -q where the SO(3) distance is; no Dubins path constructor returns a '
    'path that ignores a pose coordinate; distance <= getMaximumExtent for in-bounds states of SO(2), time, discrete, '
    'SO(3) (one known finding: the unbounded time space). Not decided: the triangle inequality, the extent bound for R^n, positivity for '
    'nearly equal states (floating point), Reeds-Shepp symmetry and the Klein-bottle seam (hold only through '
    'arithmetic the normal form does not capture; listed).',
    'clang 14 AST of 20 units (all state spaces + wrappers); component spaces are opaque calls under an induction hypothesis',
    'algebraic normal-form rewriting of the typed AST under parameter substitutions (swap, alias, sign flip) + data/control dependence of returns')
reg('C07', True,
    'Decides, in the algebraic normal form of each interpolate routine, the clauses visible in the code: the compound '
    'interpolation delegates (from[i], to[i], t, out[i]) to every component with the same t and the wrappers forward '
    'unchanged; for R^n, SO(2), SO(3), time and discrete the result is the same function of the initial inputs '
    'whether the output state is separate, aliases from or aliases to (alias safety, all inputs); t := 0 normalises '
    'to from and t := 1 to to on every path (SO(3): +-to; from where the path condition is equalStates; modulo the '
    'seam representative +-pi of SO(2)), including the t <= 0 / t >= 1 short-cuts of Dubins, Reeds-Shepp, Owen, Vana '
    'and Vana-Owen on a first call; the SO(2) long-way blend is re-wrapped on both sides; SO(3) interpolation gives '
    'the same rotation for to and -to; the cached Dubins / Reeds-Shepp path is assigned on every path that clears '
    'firstTime. Not decided: d(from, interp(t)) = t*d and re-parameterisation consistency (real arithmetic beyond '
    'ring normal form), in-bounds-ness of interior interpolants, alias safety of Moebius / Klein / the path '
    'integrators (listed).',
    'clang 14 AST/CFG of 20 units (all state spaces); component spaces are opaque effects',
    'algebraic normal-form rewriting with path enumeration under parameter substitutions (t:=0, t:=1, aliasing, sign flip) + CFG typestate')
reg('C14', True,
    'Decides the clauses of the statement that are visible in the code\'s shape, for all inputs: the exhaustive '
    'branch returns a shortest of the six words on every weak ordering of their lengths; each word solver builds its '
    'path on the table row that spells it; interpolation integrates the same path whose length distance() reports '
    '(symmetric variant: the shorter direction, marked reverse_); both integrators are unit-curvature arcs and '
    'straight lines by differentiation of their normal forms (d x/dv = cos yaw, d y/dv = sin yaw, d yaw/dv = +1/-1/0, '
    'old pose at v = 0), scaled by the turning radius and translated by the start only at the end, with segment '
    'length and type read at one index and a case for every segment type; the classification helpers equal the '
    'solvers\' t, p, q; the word solvers and all 16 cells of the classification table obey the reversal symmetry '
    '(alpha, beta) -> (beta, alpha), word -> reversed mirror; the Reeds-Shepp enumeration applies timeflip / reflect '
    'consistently in all 11 formula groups and admits candidates only when shorter; the cached path is assigned '
    'before firstTime is cleared. Not decided: that the word formulas reach the target pose, that the classified '
    'word is the shortest (only its symmetry), arc length == distance numerically, Reeds-Shepp optimality, prefix '
    'optimality (listed).',
    'clang 14 AST/CFG of DubinsStateSpace.cpp and ReedsSheppStateSpace.cpp (88 functions); mod2pi treated as a congruence',
    'algebraic normal forms + symbolic differentiation + finite-domain evaluation over orderings + AST pattern agreement + CFG typestate')
reg('C15', True,
    'Decides the clauses visible in the code: in all nine informed draw routines a result that may be true carries, '
    'since the last write of the output state, the acceptance test that belongs to how the state was drawn (PHS '
    'draw: satisfiesBounds; bounds draw: PHS membership on a fresh sub-state or the heuristic-cost test, none while '
    'the bound is infinite; delegated draw: its verdict; two bounds: the lower-bound disjunction), and the batch '
    'sampler queues only successful draws; samples in k overlapping hyperspheroids are kept iff uniform01() <= 1/k; '
    'the heuristic cost, measure, membership and inclusion folds range over all starts / all hyperspheroids; '
    'unitNBallMeasure == nBallMeasure(N,1), prolateHyperspheroidMeasure == (dT/2)(conj/2)^(N-1) V_N and the PHS '
    'transformation uses the same conjugate diameter and radii; membership is the strict comparison of the summed '
    'focal distances with the transverse diameter; the up-to-date flag of the PHS is set only after the data it '
    'guards; the ball draw uses r*U^(1/n) and feeds ProlateHyperspheroid::transform. Not decided: that the SVD '
    'rotation maps the first axis to the focal axis, uniformity of the density, the value of the Gamma function '
    '(listed).',
    'clang 14 AST/CFG of 7 units (three informed samplers, InformedSampler, ProlateHyperspheroid, RNG, GeometricEquations); Eigen expressions matched by shape only',
    'path-sensitive typestate over clang CFG + algebraic normal forms (integer division distinguished) + loop-coverage patterns')
reg('C16', True,
    'Decides the clauses visible in the code: a state appended to a discrete geodesic (projection-based and atlas '
    'spaces) carries a successful projection since its last write and a step measurement, taken after that '
    'projection, within lambda*delta, and success means the remaining distance is within delta; motion validity is '
    'isSatisfied(target) and reached; interpolation returns `from` or an element of a successfully computed '
    'geodesic, which the lazy tangent-bundle variant projects first; the atlas sampler retry loops end with a '
    'successful chart projection or the fallback copy for every retry budget 1..3 and every outcome sequence '
    '(finite-domain interpretation with unsigned wrap-around); tolerance comparisons are dimensionally consistent '
    '(squaredNorm against tol^2); the Newton verdict is read from a residual that is fresh with respect to the last '
    'update of the iterate. Six known findings (replayed): all samplers of the constrained spaces call '
    'enforceBounds after the projection, which clamps states off a manifold that the bounds cut. Not decided: '
    'Newton convergence, that |f| <= tol means near the manifold, the lazy variant\'s intermediate states, the '
    'discarded verdict of project() in ProjectedStateSampler (no failing input found; listed).',
    'clang 14 AST/CFG of 6 units (constrained, projected, atlas, tangent-bundle spaces, AtlasChart, Constraint); constraint function and charts opaque',
    'path-sensitive typestate over clang CFG + finite-domain abstract interpretation of the retry loops + provenance/dimension lints')
reg('C20', True,
    'Decides the clauses visible in the code over the whole library (237 units): no seeding site takes a value that '
    'depends on an entropy or clock source except the seed generator\'s own constructor (single source); RNG::RNG() '
    'seeds from nextSeed(); the seed generator\'s three methods run under its mutex, setSeed stores the first seed only '
    'before any seed was handed out and reseeds with the (corrected) seed parameter, a zero seed becomes a fixed '
    'constant; setLocalSeed reseeds and resets every distribution / cache member of RNG (exhaustive against the '
    'field table); in planner code clock values and library-created timed termination conditions reach only logging '
    'and statistics members, every other use being in a triaged table with reasons; no order-sensitive traversal of '
    'an address-hashed unordered container; every scalar field an ordering functor reads is initialised by every '
    'constructor of the element class. Not decided: that planners draw only from their RNG members (no other '
    'hidden state is searched for), ordered pointer-keyed containers (reproducible, listed), bit-identical floating '
    'point, LTLPlanner\'s clock-sliced exploration (observed, listed).',
    'clang 14 AST of all 237 library units; value flow is intra-procedural through local definitions',
    'who-may-call / value-flow taint of entropy and clock sources + record-table exhaustiveness + comparator key initialisation')
for _p in []:
    reg(_p, False, '', '', '', PENDING)


# ---- additions of build round 2 (rules written after the first registration; see DESIGN.md R2) -------------------------
def _also(pid, extra, technique=None):
    P[pid]['text'] = P[pid]['text'] + ' Also decided (DESIGN.md R2): ' + extra
    if technique:
        P[pid]['technique'] = P[pid]['technique'] + '; ' + technique


_also('C01', 'the motion that is checked is the motion that is linked (argument agreement, 29 links); PRM::expandRoadmap joins consecutive '
             'states of the validated walk only; informed trees (BIT*, ABIT*, AIT*, EIT*): forward-tree links and whitelist insertions are '
             'dominated by a positive verdict for that same edge in the same orientation, the verdict helpers return the whitelist test or '
             'the motion check of their edge, a cached motion validator that is used is re-read by setup(); EIT*\'s multi-resolution edge '
             'check, interpreted over a finite domain (segment counts 1..40, every configurable initial level out of 0..8, every '
             'sub-sequence of up to three sparse levels before the full-resolution check): a whitelisted edge was tested at positions that '
             'leave no gap above two resolution lengths, an invalid tested point blacklists both ways; at a 3-argument check whose failure '
             'keeps the candidate the last-valid target designates the candidate; the reported goal difference and the path / node / flag '
             'it belongs to are assigned together (46 sites).',
      'finite-domain interpretation of the EIT* edge-check routines; path-sensitive designation tracking')
_also('C02', 'PathControl converts stored durations to step counts by rounding to nearest at all three sites; control::SpaceInformation '
             'advances the system in single +-stepSize_ steps only.')
_also('C03', 'every member written by the solve() closure is written by the clear() closure or is configuration (249 members, 27 reasoned '
             'exceptions); helper classes of planners reset what they mutate (66); every sampling loop of a function that receives the '
             'termination condition consults it or is bounded by a constant (56); a resumed solve re-measures the preserved solution into '
             'the reported difference; states drawn by an interrupted rejection loop are used only where known valid; pruning conserves '
             'nodes; a sub-planner run on an owned problem definition is preceded by clearSolutionPaths() on every path; refusal exits of solve() that '
             'measure the planner\'s own structures test emptiness only, so a resumed solve is never refused because the tree grew (46 exits).')
_also('C01', 'the reported path is assembled root first (33 assemblies): parent-walk lists are appended backwards, the second tree of a '
             'bidirectional planner forwards, link-walking appends are followed by reverse().')
_also('C02', 'control paths are assembled root first (6 assemblies, same rule as C01/R01w).')
_also('C04', 'running cost and its item / flag / path are assigned together (26 blocks); parent, cost and incCost move together; tree links '
             'are two-way; selected item and compared cost agree; provenance of stored edge costs (true motion cost, never an estimate) '
             'and their orientation (parent -> child; the reverse cost only under the isSymmetric() guard); cost recurrences stay within one '
             'cost field; in BIT*, AIT* and EIT* rewiring is decided by better(parent cost-to-come + stored edge cost, child cost-to-come).')
_also('C06', 'compound folds with a guarded continue / break inside the loop are normalised (conditional terms / prefix sums) instead of '
             'being outside the fragment.')
_also('C07', 'in-bounds facts for SO(2) are the half-open interval of satisfiesBounds; the upper re-wrap test may be > or >=, the lower must '
             'be strict; scratch states guard the input that is still read.')
_also('C08', 'SO3StateSpace::enforceBounds in algebraic normal form, path by path: the result is the identity or a uniform scaling of the '
             'input, and the small-norm path ends in the identity.')
_also('C09', 'extractReachable copies every edge; load paths do not swallow failures; ordering functors over space-bearing elements '
             '(getCommonSubspaces) compare a key that separates distinct spaces (name or pointer).')
_also('C10', 'envelope maintenance directions; leaf storage reserved for max(split bounds) + 1 (pointers of the removed cache stay valid); '
             'split() conserves the multiset and recognises pivots by position; a new metric reaches every holder before the rebuild.')
_also('C13', 'the duplicate branch of components() erases the entry just dequeued and steps the index back to it (linear normal form); a '
             'configured interior limit survives setDimension (all histories of three calls).')
_also('C15', 'erase-while-iterating loops of the informed samplers advance their iterator exactly once per iteration.')
_also('C17', 'checkAndRepair accepts a re-sampled vertex exactly when the detection test no longer fires (all paths up to length 5).')
_also('C18', 'periodicEval, interpreted over scripted predicates: the predicate is polled once per answer and the cached value follows every '
             'answer (a predicate that was true and is false again is seen false again); a pending request ends the thread.',
      'finite-domain interpretation of the polling loop')
_also('C19', 'writes through local non-const references bound to mutable members are followed (a shared mutable scratch buffer in a const '
             'query is reported).')

# ---- round 5 (DESIGN.md R3) ---------------------------------------------------------------------------------------
def _also3(pid, extra):
    P[pid]['text'] = P[pid]['text'] + ' Also decided (DESIGN.md R3): ' + extra


_also3('C01', 'parallel arrays sized together are indexed together in every loop that writes one of them (5 loops); new elements of the lazy '
              'roadmap start with unknown validity (6 stores); the extraction-time validation of the lazy planners covers every node (4 loops).')
_also3('C02', 'the goal-node rule also reads PDST\'s end states.')
_also3('C03', 'temporaries held in fields of local aggregates and scratch objects are released on every path; an interrupted lazy validation '
              'never reports the part it did not look at (R03s); a one-argument goal test of the preserved solution measures nothing (R03n).')
_also3('C04', 'answers of the solution registry are not used across a registration (typestate over 7 functions); the admissible bound of a '
              'multi-start query folds over all starts (R04p).')
_also3('C05', 'scratch states are written before they are read (14 functions; parameter constness decides read / write).')
_also3('C09', 'ScopedState converts to and from reals through one mechanism; extractStateStorage keeps vertex indices and storage slots apart; '
              'PlannerData::clear() resets every member a mutator writes.')
_also3('C10', 'the linear structure removes one occurrence per remove().')
_also3('C12', 'the sibling short-cut of remove() is recognised by its role and its guard is decided by evaluation over every index < size - 1 <= 40.')
_also3('C13', 'the duplicate branch of components() may swap-and-pop (std::swap form) provided the index steps back.')
_also3('C14', 'each integration loop drives every segment of the word in order (index sequence evaluated from the loop header).')
_also3('C15', 'a sampler that overrides the heuristic calls its own override; the direct sampler\'s measure is clamped by the whole space.')
_also3('C16', 'success of the Newton projection is a positive comparison of a fresh residual norm with the tolerance (NaN-safe).')
_also3('C20', 'every path of setLocalSeed that reseeds the generator resets every cached distribution.')

# ---- round 6 (DESIGN.md R3.5) ---------------------------------------------------------------------------------------
_also3('C01', 'what is attached to a registered path (goal difference, cost) is a function of the vertex whose path is registered (6 sites); the '
              'fiber / bundle index offset of the R^N -> R^M projection; the approximate difference and the stored path of SST move together.')
_also3('C02', 'control PDST decides continuation by control identity and registers exact only after a goal test of this call; decoupled planner '
              'data clones every control on every call; control SST difference-with-path.')
_also3('C03', 'a preserved solution node is an exact one; clearQuery() empties what clear() empties (except the roadmap) and restarts the input '
              'states; GoalStates does not wrap its position eagerly; a stop request is honoured by the next evaluation; re-registration describes '
              'the path it registers; PDST exact registrations follow a goal test of this call.')
_also3('C04', 'the cost attached to a registered path is the cost of that path\'s vertex (R04r).')
_also3('C05', 'in both overloads the space, not the validator, chooses the curve (first-time flag starts true).')
_also3('C09', 'decoupling re-keys the state index with the old pointer and clones every edge control.')
_also3('C15', 'the hyperspheroid is chosen in the retry iteration that draws from it.')
_also3('C16', 'a rejected step of the atlas traversal ends it as a failure on every path.')
_also3('C17', 'the snap block of findBetterGoal is interpreted over the four outcomes of its two tests.')
_also3('C19', 'worker threads never clear the shared problem definition.')
_also3('C20', 'variate generators of RNG helper classes share the RNG\'s engine by pointer or reference.')
_also3('C04', 'an objective whose straight-line motion cost is not symmetric under exchange of its two states overrides isSymmetric() to return '
              'false (4 objectives decided, 3 listed).')
