"""C10 -- nearest-neighbour structures answer like exhaustive search (structural necessary conditions).

R10a removed elements are filtered at every result-producing site of both GNAT variants
R10b remove(): identity test before marking; pivot removal or a full cache forces a rebuild; rebuild = list, clear, add
R10c size bookkeeping on every path; clear() resets size, tree and cache; rebuild-before-split with a non-empty cache
R10d the pruning / enqueue predicates of both variants, brought to signed-term normal form, equal the GNAT specification
     (sign, strictness, pairing of bounds), have the right polarity, the K forms are guarded by "k found", and the search
     radius is the k-th distance (K) resp. the query radius (R)
R10e linear: nearestK sorts by distance and truncates to k, nearestR filters dist <= radius; sqrt-approx: every mutator calls
     the base mutator and refreshes the check count, the probe index is reduced modulo the current size
R10f the no-thread-safety variant leaves its shared scratch queue empty on every exit of remove/nearest/nearestK/nearestR
"""
import re
from engine import facts, lin, paths
from engine.facts import AnalysisBroken
from engine.shape import key, args, for_loop

INST = [facts.INST + '/ds.cpp']
VARIANTS = (('ompl::NearestNeighborsGNAT', 'NearestNeighborsGNAT<int>'),
            ('ompl::NearestNeighborsGNATNoThreadSafety', 'NearestNeighborsGNATNoThreadSafety<int>'))


def label(fn):
    return fn.name + ('<' + fn.targs.split(' ')[0] + '>' if fn.targs else '')


def pick(F, name, targ, required=True):
    fs = [f for f in F.by_name.get(name, []) if targ in f.targs]
    if not fs and required:
        raise AnalysisBroken('C10: %s<%s> vanished' % (name, targ))
    return fs


def atoms(fn, nid, pol, out, ctx):
    """flatten a condition: (node, polarity, tuple of enclosing connectives)"""
    n = fn.strip(nid)
    if n is None:
        return
    if n['k'] == 'UnaryOperator' and n.get('op') == '!':
        atoms(fn, n['ch'][0], not pol, out, ctx)
    elif n['k'] == 'BinaryOperator' and n.get('op') in ('&&', '||'):
        atoms(fn, n['ch'][0], pol, out, ctx + (n['op'],))
        atoms(fn, n['ch'][1], pol, out, ctx + (n['op'],))
    else:
        out.append((n, pol, ctx))


def guards_of(fn, nid):
    """[(cond id, in_then)] of the IfStmts enclosing node nid"""
    out = []
    cur = nid
    for a in fn.ancestors(nid):
        if a['k'] == 'IfStmt':
            in_then = a.get('then') is not None and any(x['id'] == cur for x in [fn.nodes[a['then']]]) or \
                (a.get('then') is not None and any(z['id'] == nid for z in fn.walk(a['then'])))
            in_else = a.get('else') is not None and any(z['id'] == nid for z in fn.walk(a['else']))
            if in_then or in_else:
                out.append((a['cond'], in_then))
        cur = a['id']
    return out


def rename(d):
    """map variant-specific atoms of a signed-term form to the specification's names"""
    out = {}
    for k, v in d:
        if k == '1':
            nk = '1'
        elif 'maxRadius_' in k:
            nk = 'maxRadius'
        elif 'minRadius_' in k:
            nk = 'minRadius'
        elif 'maxRange_' in k:
            nk = 'maxRange'
        elif 'minRange_' in k:
            nk = 'minRange'
        elif 'distToPivot' in k or k.endswith('.second'):
            nk = 'd'
        elif re.match(r'^(dist|r|radius)(#\d+)?$', k):
            nk = 'r'
        else:
            nk = k
        out[nk] = out.get(nk, 0) + v
    return tuple(sorted((k, v) for k, v in out.items() if v))


def S1(x):
    return ('lt', tuple(sorted({'max' + x: 1, 'r': 1, 'd': -1}.items())))


def S2(x):
    return ('lt', tuple(sorted({'d': 1, 'r': 1, 'min' + x: -1}.items())))


E1 = ('le', tuple(sorted({'d': 1, 'r': -1, 'maxRadius': -1}.items())))
E2 = ('le', tuple(sorted({'minRadius': 1, 'd': -1, 'r': -1}.items())))
NAMES = {S1('Radius'): 'd - r > maxRadius', S2('Radius'): 'd + r < minRadius', S1('Range'): 'd - r > maxRange[j]',
         S2('Range'): 'd + r < minRange[j]', E1: 'd - r <= maxRadius', E2: 'd + r >= minRadius'}


def envelope_cmps(fn):
    out = []
    for n in fn.walk():
        if n['k'] == 'BinaryOperator' and n.get('op') in ('<', '<=', '>', '>='):
            fp = fn.fp(n['id'])
            if any(t in fp for t in ('maxRadius_', 'minRadius_', 'maxRange_', 'minRange_')):
                c = lin.cmp_real(fn, n['id'])
                if c is None:
                    raise AnalysisBroken('R10d: envelope comparison not normalisable in ' + fn.name)
                out.append((n, (c[0], rename(c[1]))))
    return out


def r10d(rep, F):
    rep.rule('R10d', 'every comparison against a pruning envelope in nearestKInternal / nearestRInternal / Node::nearestK / '
                     'Node::nearestR of both GNAT variants is brought to signed-term normal form (variant-specific names '
                     'mapped) and must be one of the specification forms: skip a node iff d - r > maxRadius or d + r < '
                     'minRadius; prune sibling j iff d - r > maxRange[j] or d + r < minRange[j]; enqueue a child iff d - r <= '
                     'maxRadius and d + r >= minRadius. Polarity and consequence (continue / mark pruned / enqueue) are '
                     'checked, the K forms require "k neighbours found", r is the k-th distance (K) or the query radius (R)')
    for cls, targ in VARIANTS:
        for meth, want, kform in (('nearestKInternal', [S1('Radius'), S2('Radius')], True),
                                  ('nearestRInternal', [S1('Radius'), S2('Radius')], False)):
            fn = pick(F, cls + '::' + meth, targ)[0]
            check_preds(rep, fn, want, kform, 'skip')
        for meth, kform in (('nearestK', True), ('nearestR', False)):
            fn = pick(F, cls + '::Node::' + meth, targ)[0]
            check_preds(rep, fn, [S1('Range'), S2('Range'), E1, E2], kform, 'node')


def check_preds(rep, fn, want, kform, kind):
    cm = envelope_cmps(fn)
    got = [c for _, c in cm]
    lab = label(fn)
    extra = [c for c in got if c not in want]
    missing = [w for w in want if w not in got]
    if extra or missing:
        det = []
        for n, c in cm:
            if c not in want:
                det.append('%s:%d has form %s %s 0' % (fn.file.split('/')[-1], fn.line(n), lin.show(c[1]), '<' if c[0] == 'lt' else '<='))
        rep.add('R10d', lab, 'envelope-forms', False, fn.where(cm[0][0]) if cm else fn.loc,
                'pruning predicates differ from the specification: missing %s; found instead: %s' % (
                    [NAMES[m] for m in missing], det))
    else:
        rep.add('R10d', lab, 'envelope-forms', True, fn.loc, 'predicates equal the specification forms %s' % [NAMES[w] for w in want],
                sample={'forms': [[c[0], list(c[1])] for c in got]})
    # polarity / consequence
    bad = None
    for n, c in cm:
        if c not in want:
            continue
        gs = guards_of(fn, n['id'])
        # the comparison is inside the condition of an IfStmt: find it
        host = None
        for a in fn.ancestors(n['id']):
            if a['k'] == 'IfStmt' and any(z['id'] == n['id'] for z in fn.walk(a['cond'])):
                host = a
                break
        if host is None:
            raise AnalysisBroken('R10d: envelope comparison outside an if-condition in ' + fn.name)
        at = []
        atoms(fn, host['cond'], True, at, ())
        pol = [p for (x, p, cx) in at if x['id'] == n['id']]
        if not pol:
            raise AnalysisBroken('R10d: polarity of an envelope comparison not recognised in ' + fn.name)
        then_nodes = list(fn.walk(host['then']))
        is_skip = c[0] == 'lt'
        if is_skip:
            conseq = any(x['k'] == 'ContinueStmt' for x in then_nodes) or \
                any(x['k'] == 'BinaryOperator' and x.get('op') == '=' and lin.lin(fn, x['ch'][1]) == {1: -1} for x in then_nodes)
            if not pol[0] or not conseq:
                bad = bad or 'the prune test %s does not lead (positively) to skipping / marking the candidate' % NAMES[c]
        else:
            conseq = any(x.get('callee', '').endswith(('::emplace', '::push')) for x in then_nodes)
            if not pol[0] or not conseq:
                bad = bad or 'the enqueue test %s does not lead (positively) to enqueueing the child' % NAMES[c]
        if kform:
            # "k found" must accompany: conjunct size()==k (skip), enclosing if size()==k (sibling prune), disjunct size()<k (enqueue)
            texts = [re.sub(r'#\d+', '', fn.fp(x['id'])) for (x, p, cx) in at] + \
                    [re.sub(r'#\d+', '', fn.fp(g[0])) for g in guards_of(fn, host['id'])]
            sized = [t for t in texts if '::size(' in t and ('k' in t)]
            if not sized:
                bad = bad or 'the k-nearest form of %s is not guarded by "k neighbours already found" (the k-th distance is ' \
                             'meaningless before that)' % NAMES[c]
    rep.add('R10d', lab, 'polarity-and-consequence', bad is None, fn.loc,
            bad or 'prune tests lead to skip/mark, enqueue tests lead to enqueue%s' % (', K forms guarded by size()==k / size()<k' if kform else ''))
    # the radius atom
    rdefs = []
    rk = None
    for n in fn.walk():
        if n['k'] == 'DeclStmt':
            for d in n.get('decls', []):
                if d['name'] in ('dist',) and d['ty'] == 'double':
                    rk = '%s#%d' % (d['name'], d['did'])
                    if d.get('init'):
                        rdefs.append(d['init'])
    if rk:
        for n in fn.walk():
            if n['k'] == 'BinaryOperator' and n.get('op') == '=' and key(fn, n['ch'][0]) == rk:
                rdefs.append(n['ch'][1])
    if rk is None:
        # the parameter r is used directly
        ok = not kform
        rep.add('R10d', lab, 'search-radius', ok, fn.loc, 'uses the query radius parameter' if ok else 'no k-th distance variable')
    else:
        why = None
        for d in rdefs:
            fp = re.sub(r'#\d+', '', fn.fp(d))
            if 'distFun_' in fp:
                continue  # temporary use as pivot distance before the search (nearestKInternal)
            if kform and not (fp.endswith('.first') and '::top(' in fp):
                why = 'the k-nearest search radius is assigned %s, not the current k-th distance (queue top)' % fp
            if not kform and fp not in ('r', 'radius'):
                why = 'the radius search uses %s instead of the query radius' % fp
        rep.add('R10d', lab, 'search-radius', why is None, fn.loc,
                why or ('r = current k-th distance (top of the neighbour queue)' if kform else 'r = query radius'))


# ---------------------------------------------------------------------------------------------------------------
def r10a(rep, F):
    rep.rule('R10a', 'in Node::nearestK, Node::nearestR and Node::list of both variants every offer of a data_ element to a '
                     'result is in the then-branch of !isRemoved(element)')
    n = 0
    for cls, targ in VARIANTS:
        for meth in ('nearestK', 'nearestR', 'list'):
            fn = pick(F, cls + '::Node::' + meth, targ)[0]
            loops = [x for x in fn.walk() if x['k'] == 'CXXForRangeStmt' and 'data_' in fn.fp(x['range'])]
            if not loops:
                raise AnalysisBroken('R10a: data_ loop of %s not recognised' % fn.name)
            for lp in loops:
                var = fn.nodes[lp['var']]['decls'][0]
                vk = '%s#%d' % (var['name'], var['did'])
                offers = [c for c in fn.walk(lp['body']) if c.get('callee', '').split('::')[-1] in
                          ('insertNeighborK', 'insertNeighborR', 'push_back', 'emplace', 'emplace_back') and
                          any(x['k'] == 'DeclRefExpr' and '%s#%d' % (x.get('name'), x.get('did')) == vk for x in fn.walk(c['id']))]
                if not offers:
                    raise AnalysisBroken('R10a: %s offers no data_ element' % fn.name)
                for o in offers:
                    n += 1
                    ok = False
                    for cond, in_then in guards_of(fn, o['id']):
                        at = []
                        atoms(fn, cond, True, at, ())
                        for (x, p, cx) in at:
                            if x.get('callee', '').endswith('::isRemoved') and (p is False) == in_then and vk in fn.fp(x['id']):
                                ok = True
                    rep.add('R10a', label(fn), 'offer#%d' % n, ok, fn.where(o),
                            'offered only when not marked as removed' if ok else
                            'a data_ element is offered to the result without the removed-filter: a removed element can be returned')
    rep.require_count('R10a', 'result offers of data_ elements', n, 6)


class RemoveClient(paths.Client):
    """auto = (size decrements, inserted into removed_?, rebuilt?)"""

    def __init__(self):
        self.exits = []

    def init(self, fn):
        return (0, False, False)

    def on_node(self, fn, node, auto, ctx):
        dec, ins, reb = auto
        if node['k'] == 'UnaryOperator' and node.get('op') == '--' and 'size_' in fn.fp(node['ch'][0]):
            dec = min(dec + 1, 3)
        if node['k'] == 'CompoundAssignOperator' and node.get('op') == '-=' and 'size_' in fn.fp(node['ch'][0]):
            dec = min(dec + 1, 3)
        if node.get('callee', '').endswith('::insert') and 'removed_' in fn.fp(node['ch'][0]):
            ins = True
        if node.get('callee', '').endswith('::rebuildDataStructure'):
            reb = True
        return (dec, ins, reb)

    def at_exit(self, fn, ret, auto, ctx):
        rv = ctx.eval(ret['ch'][0]) if ret is not None and ret['ch'] else None
        pv = None
        for k, v in ctx.vals.items():
            if k[0] == 'v' and k[1].startswith('isPivot'):
                pv = v
        self.exits.append((auto, rv, pv, ctx.path()))


def r10b(rep, F):
    rep.rule('R10b', 'remove(): the found element is compared with the key before it is marked (a non-member returns false '
                     'and changes nothing); a successful removal inserts into removed_ and decrements size_ exactly once; '
                     'whenever the removed element is a pivot (isPivot, the verdict of nearestKInternal(data, 1)) or the cache '
                     'is full the structure is rebuilt before returning; rebuildDataStructure = list, clear, add in that order')
    for cls, targ in VARIANTS:
        fn = pick(F, cls + '::remove', targ)[0]
        cl = RemoveClient()
        paths.run_function(fn, cl, F)
        bad = None
        for ((dec, ins, reb), rv, pv, p) in cl.exits:
            if rv is None:
                raise AnalysisBroken('R10b: verdict of remove() not tracked')
            if rv and (dec != 1 or not ins):
                bad = ('a successful removal decrements size_ %d times / marks the element: %s' % (dec, ins), p)
            if (not rv) and (dec or ins):
                bad = ('remove() returns false after changing the structure', p)
            if rv and pv is True and not reb:
                bad = ('a pivot is left in the removed cache without a rebuild (pivots are offered to results unfiltered)', p)
        rep.add('R10b', label(fn), 'mark-count-rebuild', bad is None, fn.loc,
                bad[0] if bad else 'verdict, size_, removed_ and rebuild agree on %d exit states' % len(cl.exits), bad[1] if bad else None)
        # rebuild condition and identity test
        ifs = [n for n in fn.walk() if n['k'] == 'IfStmt' and any(c.get('callee', '').endswith('::rebuildDataStructure') for c in fn.walk(n['then']))]
        ok = False
        why = 'no conditional rebuild'
        if len(ifs) == 1:
            at = []
            atoms(fn, ifs[0]['cond'], True, at, ())
            piv = [x for (x, p, cx) in at if x['k'] == 'DeclRefExpr' and x.get('name') == 'isPivot' and p and '&&' not in cx]
            full = [lin.cmp_le0(fn, x['id']) for (x, p, cx) in at if p and '&&' not in cx]
            fullok = any(f and f[0] == 'le0' and dict(f[1]).get('this.removedCacheSize_') == 1 and
                         any('removed_' in k and v == -1 for k, v in f[1]) and dict(f[1]).get('1', 0) == 0 for f in full)
            if not piv:
                why = 'removing a pivot does not force a rebuild'
            elif not fullok:
                why = 'a full removed-cache (size >= removedCacheSize_) does not force a rebuild'
            else:
                ok = True
        rep.add('R10b', label(fn), 'rebuild-condition', ok, fn.loc, 'isPivot || removed_.size() >= removedCacheSize_' if ok else why)
        pv = [d for ds in fn.walk() if ds['k'] == 'DeclStmt' for d in ds['decls'] if d['name'] == 'isPivot']
        ok = bool(pv) and pv[0].get('init') and any(c.get('callee', '').endswith('::nearestKInternal') and
                                                     lin.lin(fn, args(fn, c)[1]) == {1: 1} for c in fn.walk(pv[0]['init']))
        rep.add('R10b', label(fn), 'pivot-verdict-source', bool(ok), fn.loc, 'isPivot = nearestKInternal(data, 1, ..)' if ok else
                'isPivot is not the verdict of the 1-nearest search for the key')
        idt = [n for n in fn.walk() if n['k'] == 'IfStmt' and any(x['k'] == 'ReturnStmt' for x in fn.walk(n['then'])) and
               ('operator!=' in fn.fp(n['cond']) or '!=' in fn.fp(n['cond'])) and 'data' in fn.fp(n['cond'])]
        ins = [c for c in fn.walk() if c.get('callee', '').endswith('::insert') and 'removed_' in fn.fp(c['ch'][0])]
        ok = bool(idt) and bool(ins) and fn.line(idt[0]) < fn.line(ins[0])
        rep.add('R10b', label(fn), 'identity-before-mark', ok, fn.loc, 'found element compared with the key before marking' if ok else
                'the nearest element is marked as removed without checking that it is the requested one')
        rb = pick(F, cls + '::rebuildDataStructure', targ)[0]
        seq = [c.get('callee', '').split('::')[-1] for c in rb.walk() if c.get('callee', '').split('::')[-1] in ('list', 'clear', 'add')
               and c.get('callee', '').startswith('ompl::')]
        rep.add('R10b', label(rb), 'list-clear-add', seq == ['list', 'clear', 'add'], rb.loc,
                'list, clear, add' if seq == ['list', 'clear', 'add'] else 'rebuild performs %s' % seq)


class LeafAdd(paths.Client):
    track = 'vars'

    def __init__(self):
        self.exits = []

    def init(self, fn):
        return (0, 0, False)

    def on_node(self, fn, node, auto, ctx):
        p, s, rec = auto
        if node.get('callee') == 'std::vector::push_back' and re.sub(r'#\d+', '', fn.fp(node['ch'][0])) == 'this.data_':
            p = min(p + 1, 3)
        if node['k'] == 'UnaryOperator' and node.get('op') == '++' and fn.fp(node['ch'][0]).endswith('.size_'):
            s = min(s + 1, 3)
        if node.get('callee', '').endswith('::Node::add'):
            rec = True
        return (p, s, rec)

    def at_exit(self, fn, ret, auto, ctx):
        self.exits.append((auto, ctx.path()))


def r10c(rep, F):
    rep.rule('R10c', 'size bookkeeping: Node::add stores the element and bumps size_ exactly once on the leaf path (or delegates '
                     'to exactly one child); add() of the first element sets size_ = 1; bulk add on an empty structure adds '
                     'data.size(); clear() resets size_, deletes and nulls the tree and empties the removed cache; a leaf '
                     'that must split while removed elements are cached rebuilds instead; add() of an element marked as '
                     'removed rebuilds first; size() returns size_')
    for cls, targ in VARIANTS:
        na = pick(F, cls + '::Node::add', targ)[0]
        cl = LeafAdd()
        paths.run_function(na, cl, F)
        bad = [(a, p) for (a, p) in cl.exits if not ((a[0] == 1 and a[1] == 1 and not a[2]) or (a[0] == 0 and a[1] == 0 and a[2]))]
        rep.add('R10c', label(na), 'leaf-add-counts', not bad, na.loc,
                'a path through Node::add stores %d elements, bumps size_ %d times, delegates: %s' % bad[0][0] if bad else
                'leaf path: one push_back and one size_++; inner path: delegates to one child (%d exit states)' % len(cl.exits),
                bad[0][1] if bad else None)
        # rebuild-before-split
        sp = [c for c in na.walk() if c.get('callee', '').endswith('::Node::split')]
        ok = False
        if sp:
            for cond, in_then in guards_of(na, sp[0]['id']):
                fp = na.fp(cond)
                if 'removed_' in fp and '::empty(' in fp and not in_then:
                    ok = True
        rep.add('R10c', label(na), 'no-split-with-cached-removals', ok, na.where(sp[0]) if sp else na.loc,
                'split only when the removed cache is empty (otherwise rebuild)' if ok else
                'a leaf can be split while removed elements are cached: a removed element may become a pivot')
        clr = pick(F, cls + '::clear', targ)[0]
        fp = ' ; '.join(re.sub(r'#\d+', '', clr.fp(n['id'])) for n in clr.walk() if n['k'] in ('BinaryOperator', 'CXXDeleteExpr') or n.get('callee'))
        ok = '(this.size_ = 0)' in fp and 'this.tree_ = ' in fp and 'CXXDeleteExpr' in fp and 'clear(this.removed_)' in fp
        rep.add('R10c', label(clr), 'clear-resets-all', ok, clr.loc, 'size_ = 0, tree deleted and nulled, removed_ cleared' if ok else
                'clear() leaves size_, the tree or the removed cache behind')
        for ad in pick(F, cls + '::add', targ):
            if 'std::vector' in ad.sig:
                st = [n for n in ad.walk() if n['k'] == 'CompoundAssignOperator' and n.get('op') == '+=' and 'size_' in ad.fp(n['ch'][0])]
                ok = len(st) == 1 and 'size(data' in ad.fp(st[0]['ch'][1])
                rep.add('R10c', label(ad), 'bulk-add-size', ok, ad.loc, 'size_ += data.size() for a bulk add into an empty structure' if ok else
                        'bulk add does not account for data.size() elements')
            else:
                st = [n for n in ad.walk() if n['k'] == 'BinaryOperator' and n.get('op') == '=' and 'size_' in ad.fp(n['ch'][0])]
                ok = len(st) == 1 and lin.lin(ad, st[0]['ch'][1]) == {1: 1}
                rep.add('R10c', label(ad), 'first-add-size', ok, ad.loc, 'size_ = 1 for the first element' if ok else
                        'the first element is not counted as size 1')
                rb = [c for c in ad.walk() if c.get('callee', '').endswith('::rebuildDataStructure')]
                ta = [c for c in ad.walk() if c.get('callee', '').endswith('::Node::add')]
                ok = bool(rb) and bool(ta) and ad.line(rb[0]) < ad.line(ta[0]) and \
                    any('isRemoved' in ad.fp(c) and t for (c, t) in guards_of(ad, rb[0]['id']))
                rep.add('R10c', label(ad), 'readd-removed-rebuilds', ok, ad.loc, 'isRemoved(data) => rebuild before inserting' if ok else
                        're-adding an element that is still in the removed cache does not rebuild first')
        sz = pick(F, cls + '::size', targ)[0]
        rets = [r for r in sz.walk() if r['k'] == 'ReturnStmt']
        ok = len(rets) == 1 and re.sub(r'#\d+', '', sz.fp(rets[0]['ch'][0])) == 'this.size_'
        rep.add('R10c', label(sz), 'size-is-counter', ok, sz.loc, 'returns size_' if ok else 'size() does not return size_')


def r10e(rep, F):
    rep.rule('R10e', 'NearestNeighborsLinear: nearestK copies all elements, sorts by distance to the query (sort / partial_sort '
                     'with ElemSort) and truncates to k; nearestR keeps elements with dist <= radius; SqrtApprox: add / bulk add '
                     '/ remove call the base mutator and then updateCheckCount(); clear() resets checks_ and offset_; the '
                     'probe index is reduced modulo the current size')
    L, LT = 'ompl::NearestNeighborsLinear', 'NearestNeighborsLinear<int>'
    nk = pick(F, L + '::nearestK', LT)[0]
    srt = [c for c in nk.walk() if c.get('callee') in ('std::sort', 'std::partial_sort', 'std::stable_sort')]
    rsz = [c for c in nk.walk() if c.get('callee') == 'std::vector::resize']
    ok = len(srt) >= 1 and all('ElemSort' in nk.fp(c['id']) for c in srt) and bool(rsz) and \
        key(nk, args(nk, rsz[0])[0]) == '%s#%d' % (nk.params[1]['name'], nk.params[1]['did'])
    rep.add('R10e', label(nk), 'sort-and-truncate', ok, nk.loc, 'sorted by distance, truncated to k' if ok else
            'nearestK does not sort by distance and truncate to k')
    cl = SortedClient()
    paths.run_function(nk, cl, F)
    rep.add('R10e', label(nk), 'sorted-on-every-path', not cl.bad, nk.loc, 'a path returns unsorted neighbours' if cl.bad else
            'every path sorts the result', cl.bad[0] if cl.bad else None)
    nr = pick(F, L + '::nearestR', LT)[0]
    cm = [lin.cmp_real(nr, n['id']) for n in nr.walk() if n['k'] == 'BinaryOperator' and n.get('op') in ('<', '<=', '>', '>=')]
    rk = '%s#%d' % (nr.params[1]['name'], nr.params[1]['did'])
    ok = any(c and c[0] == 'le' and dict(c[1]).get(rk) == -1 and len(c[1]) == 2 for c in cm)
    rep.add('R10e', label(nr), 'radius-filter', ok, nr.loc, 'keeps dist <= radius' if ok else 'radius filter is not dist <= radius')
    S, ST = 'ompl::NearestNeighborsSqrtApprox', 'NearestNeighborsSqrtApprox<int>'
    for f in pick(F, S + '::add', ST) + pick(F, S + '::remove', ST):
        base = [c for c in f.walk() if c.get('callee', '').startswith(L + '::')]
        upd = [c for c in f.walk() if c.get('callee') == S + '::updateCheckCount']
        ok = len(base) == 1 and len(upd) == 1 and f.line(base[0]) <= f.line(upd[0])
        rep.add('R10e', label(f) + ('(bulk)' if 'vector' in f.sig else ''), 'mutator-refreshes-checks', ok, f.loc,
                'base mutator then updateCheckCount()' if ok else 'mutator does not refresh the check count after changing the data')
    clr = pick(F, S + '::clear', ST)[0]
    fp = re.sub(r'#\d+', '', ' ; '.join(clr.fp(n['id']) for n in clr.walk() if n['k'] == 'BinaryOperator' or n.get('callee')))
    ok = 'NearestNeighborsLinear::clear' in fp and '(this.checks_ = 0)' in fp and '(this.offset_ = 0)' in fp
    rep.add('R10e', label(clr), 'clear-resets', ok, clr.loc, 'base clear, checks_ = 0, offset_ = 0' if ok else 'clear() leaves stale probe state')
    nn = pick(F, S + '::nearest', ST)[0]
    mods = [n for n in nn.walk() if n['k'] == 'BinaryOperator' and n.get('op') == '%']
    nvar = [d for ds in nn.walk() if ds['k'] == 'DeclStmt' for d in ds['decls'] if d.get('init') and 'size(' in nn.fp(d['init']) and 'data_' in nn.fp(d['init'])]
    ok = False
    if nvar:
        nk_ = '%s#%d' % (nvar[0]['name'], nvar[0]['did'])
        idx = [n for n in nn.walk() if n.get('oop') == '[]' and 'data_' in nn.fp(n['ch'][0])]
        # every index into data_ is a variable defined as (...) % n or the chosen position
        idefs = {}
        for ds in nn.walk():
            if ds['k'] == 'DeclStmt':
                for d in ds['decls']:
                    if d.get('init'):
                        idefs['%s#%d' % (d['name'], d['did'])] = d['init']
        ok = bool(idx)
        for n in idx:
            ik = key(nn, n['ch'][1])
            init = idefs.get(ik)
            i0 = nn.strip(init) if init else None
            if i0 is not None and i0['k'] == 'BinaryOperator' and i0.get('op') == '%' and key(nn, i0['ch'][1]) == nk_:
                continue
            if ik and ik.startswith('pos#'):
                continue
            ok = False
    rep.add('R10e', label(nn), 'probe-index-in-range', ok, nn.loc, 'probe index = (...) % data_.size()' if ok else
            'a probe index is not reduced modulo the current size')


class SortedClient(paths.Client):
    track = 'none'

    def __init__(self):
        self.bad = []

    def init(self, fn):
        return False

    def on_node(self, fn, node, auto, ctx):
        if node.get('callee') in ('std::sort', 'std::partial_sort', 'std::stable_sort'):
            return True
        return auto

    def at_exit(self, fn, ret, auto, ctx):
        if not auto:
            self.bad.append(ctx.path())


class ScratchClient(paths.Client):
    """the shared scratch queue nearQueue_ : +1 after nearestKInternal(.,1), drained by pop / postprocessNearest"""

    def __init__(self):
        self.bad = []
        self.uses = 0

    def init(self, fn):
        return 0

    def on_node(self, fn, node, auto, ctx):
        c = node.get('callee', '')
        if c.endswith('::nearestKInternal') or c.endswith('::nearestRInternal'):
            self.uses += 1
            return 1
        if c.endswith('::postprocessNearest'):
            return 0
        if c.endswith('::pop') and 'nearQueue_' in fn.fp(node['ch'][0]):
            return 0
        return auto

    def learn(self, fn, node, value, auto, ctx):
        if node.get('callee', '').endswith('::empty') and 'nearQueue_' in fn.fp(node['ch'][0]) and value is True:
            return 0
        return auto

    def at_exit(self, fn, ret, auto, ctx):
        if auto:
            self.bad.append(ctx.path())


def r10f(rep, F):
    rep.rule('R10f', 'NearestNeighborsGNATNoThreadSafety keeps one scratch neighbour queue as a member: every path of remove / '
                     'nearest / nearestK / nearestR that ran a search leaves it empty (pop, drain by postprocessNearest, or '
                     'known empty) -- a stale candidate would be returned by the next query')
    cls, targ = VARIANTS[1]
    for meth in ('remove', 'nearest', 'nearestK', 'nearestR'):
        fn = pick(F, cls + '::' + meth, targ)[0]
        cl = ScratchClient()
        paths.run_function(fn, cl, F)
        if not cl.uses:
            raise AnalysisBroken('R10f: %s does not search' % fn.name)
        rep.add('R10f', label(fn), 'scratch-queue-drained', not cl.bad, fn.loc,
                'a path returns with a candidate left in the shared scratch queue' if cl.bad else
                'the scratch queue is empty on every exit', cl.bad[0] if cl.bad else None)


def r10g(rep, F):
    rep.rule('R10g', 'envelope maintenance: updateRadius / updateRange lower the minimum when it is greater and raise the '
                     'maximum when it is smaller than the new distance; Node::add updates the ranges of every child for the '
                     'chosen child index and the radius of the chosen child with its own distance; the tie clause of '
                     'insertNeighborK (equal distance and identical element replaces the top) is present')
    for cls, targ in VARIANTS:
        for meth, fields in (('updateRadius', ('minRadius_', 'maxRadius_')), ('updateRange', ('minRange_', 'maxRange_'))):
            fn = pick(F, cls + '::Node::' + meth, targ)[0]
            dk = '%s#%d' % (fn.params[-1]['name'], fn.params[-1]['did'])
            bad = None
            seen = set()
            for i in [n for n in fn.walk() if n['k'] == 'IfStmt']:
                c = lin.cmp_real(fn, i['cond'])
                st = [n for n in fn.walk(i['then']) if n['k'] == 'BinaryOperator' and n.get('op') == '=' and key(fn, n['ch'][1]) == dk]
                if c is None or not st:
                    continue
                tgt = re.sub(r'#\d+', '', fn.fp(st[0]['ch'][0]))
                d = {re.sub(r'#\d+', '', k): v for k, v in c[1]}
                fld = [f for f in fields if f in tgt]
                if not fld:
                    continue
                seen.add(fld[0])
                tv = [v for k, v in d.items() if fld[0] in k]
                dv = d.get(re.sub(r'#\d+', '', dk))
                if fld[0].startswith('min'):
                    # min > dist  <=> dist - min < 0
                    if not (c[0] == 'lt' and tv == [-1] and dv == 1):
                        bad = '%s is not lowered exactly when it exceeds the new distance' % fld[0]
                else:
                    if not (c[0] == 'lt' and tv == [1] and dv == -1):
                        bad = '%s is not raised exactly when it is below the new distance' % fld[0]
            if set(fields) - seen:
                bad = bad or 'no update of %s found' % sorted(set(fields) - seen)
            rep.add('R10g', label(fn), 'min-down-max-up', bad is None, fn.loc, bad or 'minimum lowered when greater, maximum raised when smaller')
        ik = pick(F, cls + '::Node::insertNeighborK', targ)[0]
        fp = re.sub(r'#\d+', '', ' '.join(ik.fp(n['cond']) for n in ik.walk() if n['k'] == 'IfStmt'))
        ok = 'epsilon' in fp and ('data' in fp and 'key' in fp)
        rep.add('R10g', label(ik), 'tie-clause', ok, ik.loc, 'an equal-distance identical element replaces the queue top (remove() '
                'relies on it to find itself among duplicates)' if ok else 'the tie clause (dist ~ 0 and data == key) is gone: remove() '
                'cannot find an element that has a coincident duplicate')


def r10h(rep, F):
    rep.rule('R10h', 'pointers into leaf storage stay valid while removals are pending (the removed_ cache stores addresses of data_ '
                     'elements): needToSplit lets a leaf grow until its size exceeds every bound B_i of its conjunction sz > B_1 && sz > '
                     'B_2 ..., so a leaf may hold max(B_i) + 1 elements; the storage reserved for data_ in the Node constructor, and '
                     'again in split() after a child\'s degree_ is re-assigned, is max over the same bounds, plus one (the constructor '
                     'sees maxNumPtsPerLeaf_ as its parameter `capacity`).  A smaller reservation lets std::vector reallocate and a '
                     'removed element reappears')
    for cls, targ in VARIANTS:
        nts = pick(F, cls + '::Node::needToSplit', targ)[0]
        rets = [r for r in nts.walk() if r['k'] == 'ReturnStmt' and r['ch']]
        bounds = set()
        ok_shape = len(rets) == 1
        if ok_shape:
            def conj(nid):
                n = nts.strip(nid)
                if n['k'] == 'BinaryOperator' and n.get('op') == '&&':
                    return conj(n['ch'][0]) + conj(n['ch'][1])
                return [n]
            for a in conj(rets[0]['ch'][0]):
                if a['k'] == 'BinaryOperator' and a.get('op') == '>':
                    bounds.add(re.sub(r'#\d+', '', nts.fp(a['ch'][1])).split('.')[-1])
                else:
                    ok_shape = False
        if not ok_shape or not bounds:
            raise AnalysisBroken('R10h: needToSplit is not a conjunction of sz > bound tests')

        def covers(f, call, who):
            fp = re.sub(r'#\d+', '', f.fp(args(f, call)[0])) if args(f, call) else ''
            names = {b.replace('maxNumPtsPerLeaf_', 'capacity') if who == 'ctor' else b for b in bounds}
            inner = re.findall(r'[\w.]+', fp)
            have = {x.split('.')[-1] for x in inner}
            plus1 = fp.rstrip(')').endswith('+ 1') or '+ 1)' in fp
            return ('std::max(' in fp or len(names) == 1) and names <= have and plus1, fp
        ctor = pick(F, cls + '::Node::Node', targ)[0]
        rs = [c for c in ctor.walk() if (c.get('callee') or '').endswith('::reserve') and 'data_' in ctor.fp(c['ch'][0])]
        ok, fp = covers(ctor, rs[0], 'ctor') if rs else (False, 'no reservation')
        rep.add('R10h', label(ctor), 'leaf-storage-covers-split-threshold', ok, ctor.where(rs[0]) if rs else ctor.loc,
                'reserves %s; a leaf splits beyond max(%s)' % (fp, ', '.join(sorted(bounds))) if ok else
                'the leaf reserves %s but needToSplit lets it grow to max(%s) + 1 elements: pointers kept in removed_ dangle after the '
                'reallocation' % (fp, ', '.join(sorted(bounds))))
        sp = pick(F, cls + '::Node::split', targ)[0]
        reas = [x for x in sp.walk() if x['k'] == 'BinaryOperator' and x.get('op') == '=' and re.sub(r'#\d+', '', sp.fp(x['ch'][0])).endswith('.degree_')
                and not re.sub(r'#\d+', '', sp.fp(x['ch'][0])).startswith('this.')]
        for x in reas:
            base = re.sub(r'#\d+', '', sp.fp(x['ch'][0])).rsplit('.', 1)[0]
            rs = [c for c in sp.walk() if (c.get('callee') or '').endswith('::reserve') and re.sub(r'#\d+', '', sp.fp(c['ch'][0])) == base + '.data_'
                  and sp.line(c) >= sp.line(x)]
            ok, fp = covers(sp, rs[0], 'split') if rs else (False, 'nothing')
            rep.add('R10h', label(sp), 'child-storage-follows-degree', ok, sp.where(x),
                    'after %s.degree_ is re-assigned the child reserves %s' % (base, fp) if ok else
                    '%s.degree_ is re-assigned in split() and the child reserves %s afterwards: its leaf may outgrow the storage reserved '
                    'with the old degree' % (base, fp))
        if not reas:
            raise AnalysisBroken('R10h: split() no longer re-assigns the degree of its children')


def r10i(rep, F):
    rep.rule('R10i', 'split() conserves the multiset: every element data_[j] of the node being split is pushed into exactly one child, except '
                     'the elements that became pivots, and those are recognised by POSITION (the loop index j compared with the index '
                     'pivots[k] returned by the k-centers selection), never by value -- equal values may be stored several times and only '
                     'the copy at the pivot index lives on as the child\'s pivot_')
    for cls, targ in VARIANTS:
        sp = pick(F, cls + '::Node::split', targ)[0]
        pushes = [c for c in sp.walk() if (c.get('callee') or '').endswith('::push_back') and re.sub(r'#\d+', '', sp.fp(c['ch'][0])).endswith('.data_')]
        if len(pushes) != 1:
            raise AnalysisBroken('R10i: split() does not have exactly one hand-over of an element to a child')
        g = guards_of(sp, pushes[0]['id'])
        ok = False
        why = 'the hand-over is not guarded by a pivot test'
        if len(g) == 1 and g[0][1]:
            cond = sp.strip(g[0][0])
            if cond['k'] == 'BinaryOperator' and cond.get('op') == '!=':
                l, r = sp.strip(cond['ch'][0]), sp.strip(cond['ch'][1])
                lf, rf = re.sub(r'#\d+', '', sp.fp(l['id'])), re.sub(r'#\d+', '', sp.fp(r['id']))
                idx = [x for x in (l, r) if x['k'] == 'DeclRefExpr' and x.get('dk') == 'Local']
                piv = [x for x in (lf, rf) if re.match(r'^std::vector::operator\[\]\(pivots,\w+\)$', x)]
                pushed = sp.strip(args(sp, pushes[0])[0])
                pidx = re.sub(r'#\d+', '', sp.fp(pushed['ch'][-1])) if pushed is not None and pushed.get('oop') == '[]' else None
                if idx and piv and pidx == idx[0].get('name'):
                    ok = True
                    why = 'data_[%s] is handed over unless %s is the pivot index %s' % (pidx, pidx, piv[0])
                else:
                    why = 'the pivot test compares %s with %s: an element is skipped because it EQUALS a pivot, so further stored copies of ' \
                          'that value vanish from the tree while size_ still counts them' % (lf, rf)
        elif len(g) != 1:
            why = 'the hand-over is guarded by %d conditions, not by the single pivot-index test' % len(g)
        rep.add('R10i', label(sp), 'pivot-skipped-by-index', ok, sp.where(pushes[0]), why)


class ConfigBeforeRebuild(paths.Client):
    """auto = a rebuild has run on this path; a configuration call after it is recorded"""
    track = 'none'

    def __init__(self):
        self.rebuilds = 0
        self.configs = 0
        self.bad = []

    def init(self, fn):
        return False

    def on_node(self, fn, node, auto, ctx):
        c = node.get('callee') or ''
        if c.endswith('::rebuildDataStructure'):
            self.rebuilds += 1
            return True
        if c.endswith('::setDistanceFunction') or (node['k'] in ('BinaryOperator', 'CXXOperatorCallExpr') and
                                                   (node.get('op') == '=' or node.get('oop') == '=') and node['ch'] and
                                                   'distFun_' in fn.fp(node['ch'][0])):
            self.configs += 1
            if auto:
                self.bad.append((node['id'], ctx.path()))
        return auto


def r10j(rep, F):
    rep.rule('R10j', 'a change of metric reaches every holder of the distance function before the tree is rebuilt: in '
                     'setDistanceFunction of both GNAT variants every call / store that installs the new function (the base '
                     'class member, the pivot selector) precedes rebuildDataStructure() on every path -- a rebuild that still '
                     'selects pivots or fills the range tables with the old metric leaves envelopes that the new metric\'s '
                     'queries prune with')
    n = 0
    for cls, targ in VARIANTS:
        fn = pick(F, cls + '::setDistanceFunction', targ)[0]
        cl = ConfigBeforeRebuild()
        paths.run_function(fn, cl, F)
        if not cl.rebuilds or cl.configs < 2:
            raise AnalysisBroken('R10j: %s: rebuild / configuration calls not recognised' % fn.name)
        n += 1
        rep.add('R10j', label(fn), 'metric-installed-before-rebuild', not cl.bad, fn.where(cl.bad[0][0]) if cl.bad else fn.loc,
                'a holder of the distance function is updated only after rebuildDataStructure() has already rebuilt the tree with the '
                'old one' if cl.bad else 'all %d holders are updated before the rebuild' % cl.configs, cl.bad[0][1] if cl.bad else None)
    rep.require_count('R10j', 'setDistanceFunction overrides', n, 2)


def r10k(rep, F):
    rep.rule('R10k', 'GreedyKCenters::kcenters delivers what GNAT::split consumes: interpreted over abstract data (every sequence of 1..4 '
                     'points from {0, 1, 2, 5} on a line, distance |a - b|, k = 1..3, every choice of the random first centre) the routine '
                     'returns between 1 and k centres that are valid, pairwise distinct indices, and for every point j and every returned '
                     'centre i the matrix entry dists(j, i) is the distance between data[j] and data[centers[i]] -- split() assigns points '
                     'to pivots and fills the range tables from exactly these entries')
    from engine import obj
    import itertools
    fs = [g for g in F.by_name.get('ompl::GreedyKCenters::kcenters', []) if g.body]
    if not fs:
        raise AnalysisBroken('R10k: GreedyKCenters::kcenters has no instantiation in the analysed units')
    f = fs[0]
    bad = None
    runs = 0
    for nlen in (1, 2, 3, 4):
        for data in itertools.product((0, 1, 2, 5), repeat=nlen):
            for k in (1, 2, 3):
                for first in range(nlen):
                    mat = obj.Ref(cells={}, rows=0, cols=0)

                    def call(it, n, env, first=first, mat=mat):
                        c = n.get('callee') or ''
                        short = c.split('::')[-1]
                        a = args(it.fn, n) if n['k'] == 'CXXMemberCallExpr' else n['ch']
                        if n['k'] == 'CXXOperatorCallExpr' and n.get('oop') == '()':
                            o = it.ev(n['ch'][0], env)
                            if o == ('distfun',):
                                x, y = it.ev(n['ch'][1], env), it.ev(n['ch'][2], env)
                                return abs(x - y)
                            if isinstance(o, dict) and 'cells' in o:
                                r_, c_ = it.ev(n['ch'][1], env), it.ev(n['ch'][2], env)
                                if (r_, c_) not in o['cells']:
                                    raise AnalysisBroken('R10k: read of the unset matrix entry (%s, %s)' % (r_, c_))
                                return o['cells'][(r_, c_)]
                        if short == 'uniformInt':
                            return first
                        if short in ('rows', 'cols') and n['k'] == 'CXXMemberCallExpr':
                            return it.ev(n['ch'][0], env)[short]
                        if short == 'resize' and n['k'] == 'CXXMemberCallExpr' and isinstance(it.ev(n['ch'][0], env), dict):
                            o = it.ev(n['ch'][0], env)
                            o['rows'], o['cols'] = it.ev(a[0], env), it.ev(a[1], env)
                            return None
                        if c.endswith('numeric_limits::infinity'):
                            return float('inf')
                        if c.endswith('numeric_limits::epsilon'):
                            return 1e-9
                        if c in ('std::max', 'std::min'):
                            av = [it.ev(x, env) for x in a]
                            return max(av) if c == 'std::max' else min(av)
                        return NotImplemented

                    def construct(it, n, av):
                        ty = n.get('ty') or ''
                        if 'vector' in ty and len(av) >= 2 and isinstance(av[0], int):
                            return [av[1]] * av[0]
                        return NotImplemented

                    class KC(obj.ObjInterp):
                        def store(self, lhs, v, env):
                            if lhs is not None and lhs['k'] == 'CXXOperatorCallExpr' and lhs.get('oop') == '()':
                                o = self.ev(lhs['ch'][0], env)
                                if isinstance(o, dict) and 'cells' in o:
                                    o['cells'][(self.ev(lhs['ch'][1], env), self.ev(lhs['ch'][2], env))] = v
                                    return
                            return super().store(lhs, v, env)

                        def ev(self, nid, env):
                            n_ = self.fn.nodes.get(nid)
                            if n_ is not None and n_['k'] == 'UnaryOperator' and n_.get('op') == '-':
                                return -self.ev(n_['ch'][0], env)
                            return super().ev(nid, env)
                    it = KC(F, f, this=obj.Ref(distFun_=('distfun',), rng_=obj.Ref()), hooks={'call': call, 'construct': construct})
                    centers = []
                    names = ['%s#%d' % (p_['name'], p_['did']) for p_ in f.params]
                    it.run(dict(zip(names, [list(data), k, centers, mat])))
                    runs += 1
                    msg = None
                    if not (1 <= len(centers) <= k):
                        msg = '%d centres are returned for k = %d' % (len(centers), k)
                    elif len(set(centers)) != len(centers) or any(not (0 <= c_ < nlen) for c_ in centers):
                        msg = 'the centres %s are not distinct valid indices' % centers
                    else:
                        for j in range(nlen):
                            for i, c_ in enumerate(centers):
                                got = mat['cells'].get((j, i), 'unset')
                                if got != abs(data[j] - data[c_]):
                                    msg = msg or 'dists(%d, %d) is %s but the distance between data[%d] and data[centers[%d]] is %s' % (
                                        j, i, got, j, i, abs(data[j] - data[c_]))
                    if msg and bad is None:
                        bad = 'data %s, k = %d, first centre %d: %s' % (list(data), k, first, msg)
    rep.add('R10k', label(f), 'centres-and-distance-matrix', bad is None, f.loc, bad or 'postcondition holds on %d abstract runs' % runs)
    rep.require_count('R10k', 'abstract k-centres runs', runs, 500)


class OneErase(paths.Client):
    """auto = number of single-position erases on the path (capped at 2)"""
    track = 'none'

    def __init__(self):
        self.exits = []

    def init(self, fn):
        return 0

    def on_node(self, fn, node, auto, ctx):
        if (node.get('callee') or '').endswith('vector::erase') and len(args(fn, node)) == 1:
            return min(2, auto + 1)
        return auto

    def at_exit(self, fn, ret, auto, ctx):
        v = None
        if ret is not None and ret['ch']:
            r = fn.strip(ret['ch'][0])
            if r is not None and r['k'] == 'CXXBoolLiteralExpr':
                v = r.get('v') in (True, 'true', 1)
        self.exits.append((v, auto, ctx.path()))


def r10l(rep, F):
    rep.rule('R10l', 'NearestNeighborsLinear::remove (inherited by the square-root structure) removes ONE occurrence: the structure holds a '
                     'multiset, so the function contains no bulk removal (std::remove / remove_if, a two-iterator erase, clear) and every '
                     'path that returns true has erased exactly one position, every path that returns false none')
    fn = pick(F, 'ompl::NearestNeighborsLinear::remove', 'NearestNeighborsLinear<int>')[0]
    bulk = [c for c in fn.walk() if (c.get('callee') or '') in ('std::remove', 'std::remove_if', 'std::vector::clear', 'std::erase', 'std::erase_if') or
            ((c.get('callee') or '').endswith('vector::erase') and len(args(fn, c)) >= 2)]
    rep.add('R10l', label(fn), 'no-bulk-removal', not bulk, fn.where(bulk[0]) if bulk else fn.loc,
            'no bulk removal' if not bulk else
            '%s removes every element equal to the argument (or a range): removing one copy of an element stored n > 1 times drops all n, so '
            'size() and list() no longer equal the multiset' % bulk[0]['callee'].split('::')[-1])
    cl = OneErase()
    paths.run_function(fn, cl, F)
    if not cl.exits or all(v is None for v, _, _ in cl.exits):
        raise AnalysisBroken('R10l: returns of NearestNeighborsLinear::remove are not boolean literals')
    bad = next(((v, k, p) for v, k, p in cl.exits if (v is True and k != 1) or (v is False and k != 0)), None)
    if not bulk:
        rep.add('R10l', label(fn), 'one-erase-per-success', bad is None, fn.loc,
                'true after exactly one erase(position), false after none (%d paths)' % len(cl.exits) if bad is None else
                'a path returns %s after erasing %s positions' % (bad[0], bad[1] if bad[1] < 2 else 'two or more'), bad[2] if bad else None)


def run(rep):
    F = facts.load_units(INST)
    rep.units.update(INST)
    rep.functions.update(f.key for f in F.functions if f.record and 'NearestNeighbors' in f.record)
    r10a(rep, F)
    r10b(rep, F)
    r10c(rep, F)
    r10h(rep, F)
    r10i(rep, F)
    r10d(rep, F)
    r10e(rep, F)
    r10f(rep, F)
    r10g(rep, F)
    r10j(rep, F)
    r10k(rep, F)
    r10l(rep, F)
