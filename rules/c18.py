"""C18 -- termination conditions mean exactly what they say (structural / finite-domain clauses).

R18a sticky flag: terminate_ is only ever stored true outside construction
R18b or/and/always/never lambdas have the right truth tables; operands captured by value
R18c iteration count: one increment per eval, returns old+1 > max
R18d timed: end point computed once outside the predicate, captured by value, predicate is now >/>= end, the clock is
     steady (type-level witness), interval clamped to the duration, solve(double) passes its own duration
R18e eval() = flag or (period>0 ? cached : predicate); exact-solution pass-through; periodic thread start/join
R18f cost convergence: terminate() only under window-full and both threshold comparisons, thresholds from the old average
"""
import itertools
import re
from engine import facts, paths, lin, fd, witness
from engine.facts import AnalysisBroken, src
from engine.shape import key, args, origin, pkey

UNITS = [src('base', 'src', 'PlannerTerminationCondition.cpp'),
         src('base', 'terminationconditions', 'src', 'IterationTerminationCondition.cpp'),
         src('base', 'terminationconditions', 'src', 'CostConvergenceTerminationCondition.cpp'),
         src('base', 'src', 'Planner.cpp')]

IMPL = 'ompl::base::PlannerTerminationCondition::PlannerTerminationConditionImpl'
PTC_CALL = ('ompl::base::PlannerTerminationCondition::operator()', 'ompl::base::PlannerTerminationCondition::operator bool',
            'ompl::base::PlannerTerminationCondition::eval')


def field_of(fn, nid):
    """field name if nid (after stripping atomics' operator bool / load) is a this-field"""
    n = fn.strip(nid)
    if n is None:
        return None
    if n['k'] == 'CXXMemberCallExpr' and (n.get('callee', '').endswith('::operator bool') or
                                         n.get('callee', '').endswith('::load') or
                                         re.search(r'std::(__)?atomic(_base)?::operator', n.get('callee', ''))):
        return field_of(fn, n['ch'][0])
    if n['k'] == 'MemberExpr' and n.get('dk') == 'Field':
        b = fn.strip(n['ch'][0]) if n['ch'] else None
        if b is None or b['k'] == 'CXXThisExpr':
            return n.get('name')
    return None


def stores_to_field(fn, name):
    """(node, rhs id) for every store into this-><name> (plain, atomic operator=, .store(), ++/--/compound)"""
    out = []
    for n in fn.walk():
        if n['k'] == 'BinaryOperator' and n.get('op') == '=' and field_of(fn, n['ch'][0]) == name:
            out.append((n, n['ch'][1]))
        elif n['k'] == 'CXXOperatorCallExpr' and n.get('oop') == '=' and len(n['ch']) == 2 and field_of(fn, n['ch'][0]) == name:
            out.append((n, n['ch'][1]))
        elif n['k'] == 'CXXMemberCallExpr' and n.get('callee', '').endswith(('::store', '::exchange')) and \
                field_of(fn, n['ch'][0]) == name:
            out.append((n, n['ch'][1]))
        elif n['k'] in ('CompoundAssignOperator',) and field_of(fn, n['ch'][0]) == name:
            out.append((n, None))
        elif n['k'] == 'UnaryOperator' and n.get('op') in ('++', '--') and field_of(fn, n['ch'][0]) == name:
            out.append((n, None))
        elif n['k'] == 'CXXOperatorCallExpr' and n.get('oop') in ('++', '--', '|=', '&=', '^=') and n['ch'] and \
                field_of(fn, n['ch'][0]) == name:
            out.append((n, None))
    return out


def const_bool(fn, nid):
    n = fn.strip(nid)
    if n is None:
        return None
    if n['k'] == 'CXXBoolLiteralExpr':
        return bool(n['v'])
    if n['k'] == 'CXXConstructExpr' and len(n['ch']) == 1:
        return const_bool(fn, n['ch'][0])
    if n.get('cv') is not None:
        return bool(n['cv'])
    return None


def r18a(rep, F):
    rep.rule('R18a', 'every store to the termination flag outside the constructor writes the constant true '
                     '(write-once-true); who-may-write over all functions of the implementation class')
    fns = [f for f in F.functions if f.record == IMPL]
    n = 0
    for fn in fns:
        for (node, rhs) in stores_to_field(fn, 'terminate_'):
            n += 1
            if fn.d.get('kind') == 'ctor':
                ok = rhs is not None and const_bool(fn, rhs) is False
                rep.add('R18a', fn.name, 'ctor-init#%d' % n, ok, fn.where(node),
                        'constructor initialises the flag to false' if ok else 'constructor does not start with the flag false')
                continue
            ok = rhs is not None and const_bool(fn, rhs) is True
            rep.add('R18a', fn.name, 'flag-store#%d' % n, ok, fn.where(node),
                    'stores true' if ok else 'the termination flag is written with something other than the constant true')
    ctor = [f for f in fns if f.d.get('kind') == 'ctor']
    for fn in ctor:
        for ini in fn.d.get('inits', []):
            if ini.get('field') == 'terminate_':
                n += 1
                ok = const_bool(fn, ini['init']) is False
                rep.add('R18a', fn.name, 'ctor-init', ok, fn.loc,
                        'flag initialised to false' if ok else 'flag not initialised to false')
    # terminate() must actually set it
    t = F.one(IMPL + '::terminate')
    ok = any(rhs is not None and const_bool(t, rhs) is True for (_, rhs) in stores_to_field(t, 'terminate_'))
    rep.add('R18a', t.name, 'terminate-sets-flag', ok, t.loc,
            'terminate() stores true into the flag' if ok else 'terminate() does not set the flag')
    outer = F.one('ompl::base::PlannerTerminationCondition::terminate')
    ok = any(c.get('callee') == IMPL + '::terminate' for c in outer.walk())
    rep.add('R18a', outer.name, 'forwards-to-impl', ok, outer.loc,
            'terminate() forwards to the shared implementation' if ok else 'terminate() does not reach the implementation')
    rep.require_count('R18a', 'stores to terminate_', n, 2)


class EvalInterp(fd.Interp):
    def __init__(self, fn, point):
        super().__init__(fn)
        self.p = point
        self.fn_calls = 0

    def load(self, n, env):
        f = field_of(self.fn, n['id'])
        if f in self.p:
            return self.p[f]
        raise AnalysisBroken('R18e: eval() reads %s' % self.fn.fp(n['id']))

    def call(self, n, env):
        f = field_of(self.fn, n['id'])
        if f is not None and f in self.p:
            return self.p[f]
        if n.get('oop') == '()' or n.get('callee', '').endswith('operator()'):
            if field_of(self.fn, n['ch'][0]) == 'fn_':
                self.fn_calls += 1
                return self.p['fn_()']
        raise AnalysisBroken('R18e: eval() calls %s' % n.get('callee'))


def r18e(rep, F):
    rep.rule('R18e', 'eval() equals  terminate_ or (period_ > 0 ? cached value : predicate())  on the full finite domain '
                     '(flag, sign of period, cached value, predicate value); exact-solution condition returns '
                     'hasExactSolution() = hasSolution() and not hasApproximateSolution(); the polling thread is started '
                     'iff period > 0, polls the predicate into the cached value, and is joined on destruction')
    fn = F.one(IMPL + '::eval')
    bad = None
    pts = 0
    sample = []
    for t, per, ev, fv in itertools.product([False, True], [-1.0, 0.0, 0.5], [False, True], [False, True]):
        pts += 1
        it = EvalInterp(fn, {'terminate_': t, 'period_': per, 'evalValue_': ev, 'fn_()': fv})
        got, _ = it.run()
        want = t or (ev if per > 0 else fv)
        if len(sample) < 4:
            sample.append({'terminate_': t, 'period_': per, 'cached': ev, 'predicate': fv, 'eval': got})
        if got != want and bad is None:
            bad = 'eval() = %s for flag=%s period=%s cached=%s predicate=%s, expected %s' % (got, t, per, ev, fv, want)
    rep.add('R18e', fn.name, 'decision-tree', bad is None, fn.loc,
            bad or 'equal to the specification on all %d abstract points' % pts, sample=sample)
    outer = F.one('ompl::base::PlannerTerminationCondition::eval')
    ok = any(c.get('callee') == IMPL + '::eval' for c in outer.walk()) and \
        all((outer.strip(r['ch'][0]) or {}).get('callee') == IMPL + '::eval' for r in outer.walk() if r['k'] == 'ReturnStmt')
    rep.add('R18e', outer.name, 'forwards-to-impl', ok, outer.loc,
            'eval() returns the implementation\'s eval()' if ok else 'eval() is not the implementation\'s eval()')
    # exact solution pass-through
    lam = [f for f in F.lambdas_of.get('ompl::base::exactSolnPlannerTerminationCondition', [])]
    if len(lam) != 1:
        raise AnalysisBroken('R18e: exactSolnPlannerTerminationCondition lambda not found')
    l = lam[0]
    rets = [n for n in l.walk() if n['k'] == 'ReturnStmt']
    ok = len(rets) == 1 and (l.strip(rets[0]['ch'][0]) or {}).get('callee') == 'ompl::base::ProblemDefinition::hasExactSolution'
    rep.add('R18e', 'ompl::base::exactSolnPlannerTerminationCondition', 'returns-hasExactSolution', ok, l.loc,
            'predicate returns pdef->hasExactSolution()' if ok else 'predicate is not pdef->hasExactSolution()')
    parent = F.one('ompl::base::exactSolnPlannerTerminationCondition')
    le = [n for n in parent.walk() if n['k'] == 'LambdaExpr']
    ok = bool(le) and all(not c.get('byref') for c in le[0].get('caps', []))
    rep.add('R18e', parent.name, 'captures-by-value', ok, parent.loc,
            'the problem definition pointer is captured by value' if ok else 'captured by reference (dangles)')
    # hasExactSolution truth table (header inline function; visible in Planner.cpp's unit)
    he = F.one('ompl::base::ProblemDefinition::hasExactSolution')

    class HI(fd.Interp):
        def __init__(self, fn, p):
            super().__init__(fn)
            self.p = p

        def call(self, n, env):
            c = n.get('callee')
            if c == 'ompl::base::ProblemDefinition::hasSolution':
                return self.p[0]
            if c == 'ompl::base::ProblemDefinition::hasApproximateSolution':
                return self.p[1]
            raise AnalysisBroken('R18e: hasExactSolution calls ' + str(c))
    bad = None
    for p in itertools.product([False, True], repeat=2):
        got, _ = HI(he, p).run()
        if got != (p[0] and not p[1]):
            bad = 'hasExactSolution() = %s for hasSolution=%s approximate=%s' % (got, p[0], p[1])
    rep.add('R18e', he.name, 'truth-table', bad is None, he.loc, bad or 'hasSolution() and not hasApproximateSolution() on all 4 points')
    # polling thread: started iff period > 0 ; joined in stop ; stop called from the destructor
    ctor = [f for f in F.fn(IMPL + '::PlannerTerminationConditionImpl')]
    c = ctor[0]
    started = [n for n in c.walk() if n.get('callee') == IMPL + '::startEvalThread']
    ok = False
    if len(started) == 1:
        gs = [a for a in c.ancestors(started[0]['id']) if a['k'] == 'IfStmt']
        if gs:
            cm = lin.cmp_real(c, gs[0]['cond'])
            ok = cm is not None and cm[0] == 'lt' and dict(cm[1]) == {'this.period_': -1} and \
                any(x['id'] == started[0]['id'] for x in c.walk(gs[0]['then']))
    rep.add('R18e', c.name, 'thread-iff-period-positive', ok, c.loc,
            'the polling thread is started exactly under period_ > 0' if ok else 'polling thread start is not guarded by period_ > 0')
    stop = F.one(IMPL + '::stopEvalThread')
    cl = JoinClient()
    paths.run_function(stop, cl, F)
    bad = [p for (j, d, p) in cl.exits if d and not j]
    joins = [n for n in stop.walk() if n.get('callee') == 'std::thread::join']
    ok = bool(joins) and not bad
    rep.add('R18e', stop.name, 'join-before-delete', ok, stop.loc,
            'thread joined before it is deleted on every path' if ok else 'thread deleted/abandoned without join')
    dtor = F.one(IMPL + '::~PlannerTerminationConditionImpl')
    ok = any(n.get('callee') == IMPL + '::stopEvalThread' for n in dtor.walk())
    rep.add('R18e', dtor.name, 'destructor-stops-thread', ok, dtor.loc,
            'destructor stops the polling thread' if ok else 'destructor does not stop the polling thread')
    pe = F.one(IMPL + '::periodicEval')
    sts = stores_to_field(pe, 'evalValue_')
    ok = any(rhs is not None and (pe.strip(rhs) or {}).get('k') in ('CXXOperatorCallExpr', 'CallExpr') and
             field_of(pe, (pe.strip(rhs))['ch'][0]) == 'fn_' for (_, rhs) in sts)
    rep.add('R18e', pe.name, 'polls-predicate', ok, pe.loc,
            'cached value := predicate() in the polling loop' if ok else 'polling loop does not store the predicate value')


class PollInterp(fd.Interp):
    """periodicEval over a scripted predicate: fields are abstract booleans / a period; the predicate answers from a script
    and the stop request arrives when the script is exhausted"""
    max_steps = 200000

    def __init__(self, fn, fields, script):
        super().__init__(fn)
        self.fields = fields
        self.script = list(script)
        self.polls = 0
        self.history = []

    def load(self, n, env):
        if n['k'] == 'MemberExpr' and n.get('name') in self.fields:
            return self.fields[n['name']]
        raise AnalysisBroken('R18h: periodicEval reads %s' % self.fn.fp(n['id']))

    def store(self, lhs, v, env):
        if lhs is not None and lhs['k'] == 'MemberExpr' and lhs.get('name') in self.fields:
            self.fields[lhs['name']] = v
            if lhs['name'] == 'evalValue_':
                self.history.append(v)
            return
        raise AnalysisBroken('R18h: periodicEval writes %s' % (self.fn.fp(lhs['id']) if lhs else '?'))

    def ev(self, nid, env):
        n = self.fn.nodes.get(nid)
        if n is not None and n['k'] == 'BinaryOperator' and n.get('op') == '/':
            a, b = self.ev(n['ch'][0], env), self.ev(n['ch'][1], env)
            return float(a) / float(b)
        if n is not None and n['k'] == 'ImplicitCastExpr' and n.get('ck') == 'FloatingToIntegral':
            return int(self.ev(n['ch'][0], env))
        return super().ev(nid, env)

    def call(self, n, env):
        c = n.get('callee') or ''
        if n['k'] in ('CXXOperatorCallExpr', 'CallExpr') and n['ch'] and field_of(self.fn, n['ch'][0]) == 'fn_':
            self.polls += 1
            v = self.script.pop(0) if self.script else False
            if not self.script:
                self.fields['signalThreadStop_'] = True        # the owner goes away after the last scripted answer
            return v
        if c.endswith('sleep_for') or c.endswith('::seconds') or 'chrono' in c or c.endswith('::duration'):
            return ('opaque',)
        if c.endswith('::load') or c.endswith('operator bool') or c.endswith('::operator _Bool') or 'atomic' in c:
            # std::atomic<bool> reads / writes of the two request flags
            if c.endswith('operator=') or c.endswith('::store'):
                t = self.fn.strip(n['ch'][0])
                v = self.ev(n['ch'][-1], env)
                self.store(t if t['k'] == 'MemberExpr' else self.fn.strip(t['ch'][0]), v, env)
                return v
            return self.ev(n['ch'][0], env)
        raise AnalysisBroken('R18h: periodicEval calls %s' % c)


def r18h(rep, F):
    rep.rule('R18h', 'the polling thread keeps polling: PlannerTerminationConditionImpl::periodicEval is interpreted over scripted '
                     'predicates (answers F T F T F, T F, F F T; periods 0.0005 and 0.01; no terminate request; the stop request '
                     'arrives with the last answer): the predicate is called once per scripted answer and the cached value takes '
                     'every answer in order -- a predicate that was true once and is false again is seen false again, at most one '
                     'period late; with a terminate or stop request pending before the first poll the thread ends')
    pe = F.one(IMPL + '::periodicEval')
    bad = None
    runs = 0
    for script in ([False, True, False, True, False], [True, False], [False, False, True], [True, True, False, False]):
        for period in (0.0005, 0.01):
            it = PollInterp(pe, {'terminate_': False, 'signalThreadStop_': False, 'evalValue_': False, 'period_': period, 'fn_': ('fn',)}, script)
            it.run()
            runs += 1
            if it.history != script and bad is None:
                bad = 'for predicate answers %s (period %s) the predicate is polled %d time(s) and the cached value takes %s: once the ' \
                      'predicate was true the thread stops polling, so the condition keeps reporting true after the predicate went back ' \
                      'to false' % (script, period, it.polls, it.history) if it.polls < len(script) else \
                      'for predicate answers %s the cached value takes %s' % (script, it.history)
    rep.add('R18h', pe.name, 'polls-until-stopped', bad is None, pe.loc, bad or 'the cached value follows the scripted predicate on %d runs' % runs)
    bad = None
    for fld in ('terminate_', 'signalThreadStop_'):
        st = {'terminate_': False, 'signalThreadStop_': False, 'evalValue_': False, 'period_': 0.01, 'fn_': ('fn',)}
        st[fld] = True
        it = PollInterp(pe, st, [True, True, True])
        it.run()
        if it.polls > 1:
            bad = 'with %s already set the thread still polls %d times' % (fld, it.polls)
    rep.add('R18h', pe.name, 'request-ends-thread', bad is None, pe.loc, bad or 'a pending terminate / stop request ends the thread before it polls again')


class JoinClient(paths.Client):
    def __init__(self):
        self.exits = []

    def init(self, fn):
        return (False, False)

    def on_node(self, fn, node, auto, ctx):
        if node.get('callee') == 'std::thread::join':
            return (True, auto[1])
        if node['k'] == 'CXXDeleteExpr':
            if not auto[0]:
                self.exits.append((False, True, ctx.path()))
            return (auto[0], True)
        return auto

    def at_exit(self, fn, ret, auto, ctx):
        self.exits.append((auto[0], auto[1], ctx.path()))


class LamInterp(fd.Interp):
    """lambda bodies of the combinators: atoms are c1()/c2() of the captured operands"""

    def __init__(self, fn, vals):
        super().__init__(fn)
        self.vals = vals  # did -> bool

    def call(self, n, env):
        if n.get('callee') in PTC_CALL and n['ch']:
            o = self.fn.strip(n['ch'][0])
            if o is not None and o['k'] == 'DeclRefExpr' and o.get('did') in self.vals:
                return self.vals[o['did']]
        raise AnalysisBroken('R18b: combinator predicate calls %s' % n.get('callee'))

    def load(self, n, env):
        raise AnalysisBroken('R18b: combinator predicate reads %s' % self.fn.fp(n['id']))


def r18b(rep, F):
    rep.rule('R18b', 'the predicates built by plannerOr/And/Always/NonTerminating are evaluated over all truth values of '
                     'their operands and compared with or / and / true / false; operands are captured by value')
    spec = {'ompl::base::plannerOrTerminationCondition': lambda a, b: a or b,
            'ompl::base::plannerAndTerminationCondition': lambda a, b: a and b,
            'ompl::base::plannerAlwaysTerminatingCondition': lambda a, b: True,
            'ompl::base::plannerNonTerminatingCondition': lambda a, b: False}
    for name, sp in spec.items():
        parent = F.one(name)
        lam = F.lambdas_of.get(name, [])
        if len(lam) != 1:
            raise AnalysisBroken('R18b: predicate lambda of %s not found' % name)
        l = lam[0]
        dids = [p['did'] for p in parent.params]
        bad = None
        table = []
        for a, b in itertools.product([False, True], repeat=2):
            vals = dict(zip(dids, (a, b)))
            got, _ = LamInterp(l, vals).run()
            table.append([a, b, got])
            if got != sp(a, b) and bad is None:
                bad = 'predicate gives %s for operands (%s, %s)' % (got, a, b)
        rep.add('R18b', name, 'truth-table', bad is None, l.loc, bad or 'matches the specification on all 4 points',
                sample={'table': table})
        if dids:
            le = [n for n in parent.walk() if n['k'] == 'LambdaExpr']
            ok = bool(le) and len(le[0].get('caps', [])) == len(dids) and all(not c.get('byref') for c in le[0]['caps'])
            rep.add('R18b', name, 'captures-by-value', ok, parent.loc,
                    'both operands captured by value (sharing their implementation objects)' if ok else
                    'an operand is captured by reference (the parameter dies with the factory call)')
        # the factory returns a condition built from that lambda (non-periodic)
        rets = [n for n in parent.walk() if n['k'] == 'ReturnStmt']
        ok = len(rets) == 1 and any(n['k'] == 'LambdaExpr' for n in parent.walk(rets[0]['id']))
        rep.add('R18b', name, 'returns-the-predicate', ok, parent.loc,
                'returns a condition wrapping the predicate' if ok else 'does not return the predicate')
    # operator() and operator bool are eval()
    for nm in ('ompl::base::PlannerTerminationCondition::operator()', 'ompl::base::PlannerTerminationCondition::operator bool'):
        f = F.one(nm)
        rets = [n for n in f.walk() if n['k'] == 'ReturnStmt']
        ok = len(rets) == 1 and (f.strip(rets[0]['ch'][0]) or {}).get('callee') == 'ompl::base::PlannerTerminationCondition::eval'
        rep.add('R18b', nm, 'is-eval', ok, f.loc, 'returns eval()' if ok else 'does not return eval()')


def r18c(rep, F):
    rep.rule('R18c', 'IterationTerminationCondition::eval increments the counter exactly once and returns old+1 > max '
                     '(finite integer domain covering every ordering of counter and limit); the conversion lambda '
                     'evaluates a by-value copy through eval(); reset() zeroes the counter')
    fn = F.one('ompl::base::IterationTerminationCondition::eval')

    class II(fd.Interp):
        def __init__(self, f, st):
            super().__init__(f)
            self.st = st

        def load(self, n, env):
            f = field_of(self.fn, n['id'])
            if f in self.st:
                return self.st[f]
            raise AnalysisBroken('R18c: eval reads ' + self.fn.fp(n['id']))

        def store(self, lhs, v, env):
            f = field_of(self.fn, lhs['id'])
            if f in self.st:
                self.st[f] = v
                return
            raise AnalysisBroken('R18c: eval writes ' + self.fn.fp(lhs['id']))
    bad = None
    pts = 0
    sample = []
    for old in range(0, 6):
        for mx in range(0, 6):
            pts += 1
            st = {'timesCalled_': old, 'maxCalls_': mx}
            got, _ = II(fn, st).run()
            if len(sample) < 3:
                sample.append({'timesCalled_': old, 'maxCalls_': mx, 'returns': got, 'counter_after': st['timesCalled_']})
            if st['timesCalled_'] != old + 1:
                bad = bad or 'counter goes %d -> %d in one evaluation' % (old, st['timesCalled_'])
            elif st['maxCalls_'] != mx:
                bad = bad or 'limit modified'
            elif got != (old + 1 > mx):
                bad = bad or 'with %d earlier evaluations and limit %d eval returns %s (expected %s: false for the ' \
                             'first n evaluations, true from n+1)' % (old, mx, got, old + 1 > mx)
    rep.add('R18c', fn.name, 'count-and-threshold', bad is None, fn.loc,
            bad or 'one increment, returns old+1 > max on all %d points' % pts, sample=sample)
    conv = [f for f in F.functions if f.record == 'ompl::base::IterationTerminationCondition' and
            'operator' in f.name and 'PlannerTerminationCondition' in f.name]
    if not conv:
        raise AnalysisBroken('R18c: conversion operator vanished')
    lam = F.lambdas_of.get(conv[0].name, [])
    ok = len(lam) == 1 and any(c.get('callee') == 'ompl::base::IterationTerminationCondition::eval' for c in lam[0].walk()) and \
        all((lam[0].strip(r['ch'][0]) or {}).get('callee') == 'ompl::base::IterationTerminationCondition::eval'
            for r in lam[0].walk() if r['k'] == 'ReturnStmt')
    rep.add('R18c', conv[0].name, 'lambda-calls-eval', ok, conv[0].loc,
            'predicate returns eval() of the captured counter' if ok else 'predicate is not eval()')
    rs = F.one('ompl::base::IterationTerminationCondition::reset')
    ok = any(rhs is not None and lin.lin(rs, rhs) == {1: 0} for (_, rhs) in stores_to_field(rs, 'timesCalled_'))
    rep.add('R18c', rs.name, 'reset-zeroes', ok, rs.loc, 'timesCalled_ = 0' if ok else 'reset() does not zero the counter')
    ct = F.fn('ompl::base::IterationTerminationCondition::IterationTerminationCondition')[0]
    inits = {i.get('field'): i['init'] for i in ct.d.get('inits', [])}
    ok = 'timesCalled_' in inits and lin.lin(ct, inits['timesCalled_']) == {1: 0} and 'maxCalls_' in inits and \
        key(ct, inits['maxCalls_']) == pkey(ct, 0)
    rep.add('R18c', ct.name, 'ctor-init', ok, ct.loc, 'counter starts at 0, limit = argument' if ok else
            'constructor does not start the counter at 0 with the given limit')


NOW = re.compile(r'(^|::)now$')


def r18d(rep, F):
    rep.rule('R18d', 'timed conditions: the end point is computed once outside the predicate from now()+duration (the '
                     'duration argument), captured by value; the predicate is now >/>= end; both reads use one clock '
                     'whose is_steady trait holds (compile-time witness); the interval is clamped to the duration and '
                     'passed as polling period; solve(double) gives both branches its own duration')
    fs = F.fn('ompl::base::timedPlannerTerminationCondition')
    if len(fs) < 3:
        raise AnalysisBroken('R18d: expected three timedPlannerTerminationCondition overloads')
    clocks = set()
    nlam = 0
    for fn in fs:
        sigk = fn.sig
        lam = [l for l in F.lambdas_of.get(fn.name, []) if l.file == fn.file and fn.d['line'] <= l.d['line'] <= fn.d['endline']]
        if not lam:
            # delegating overload: returns timedPlannerTerminationCondition(seconds(duration))
            calls = [c for c in fn.walk() if c.get('callee') == 'ompl::base::timedPlannerTerminationCondition']
            ok = len(calls) == 1 and origin(fn, args(fn, calls[0])[0])[0] is None
            a0 = fn.strip(args(fn, calls[0])[0]) if calls else None
            ok = bool(calls) and a0 is not None and a0.get('callee') == 'ompl::time::seconds' and \
                key(fn, args(fn, a0)[0]) == pkey(fn, 0)
            rep.add('R18d', fn.name + sigk, 'delegates-same-duration', ok, fn.loc,
                    'delegates with seconds(duration)' if ok else 'does not delegate with its own duration')
            continue
        nlam += 1
        l = lam[0]
        le = [n for n in fn.walk() if n['k'] == 'LambdaExpr'][0]
        caps = le.get('caps', [])
        # end point: a local initialised outside the lambda from now() + D
        endcap = [c for c in caps if not c.get('this')]
        okc = len(endcap) == 1 and not endcap[0].get('byref')
        rep.add('R18d', fn.name + sigk, 'end-captured-by-value', okc, fn.loc,
                'end point captured by value' if okc else 'end point not captured by value (recomputed or dangling)')
        if not endcap:
            continue
        endk = '%s#%d' % (endcap[0]['name'], endcap[0]['did'])
        init = None
        for ds in [n for n in fn.walk() if n['k'] == 'DeclStmt']:
            for d in ds.get('decls', []):
                if '%s#%d' % (d['name'], d['did']) == endk:
                    init = d.get('init')
        ok = False
        why = 'end point is not initialised as now() + duration'
        if init is not None:
            nows = [c for c in fn.walk(init) if c.get('callee') and NOW.search(c['callee'])]
            plus = [n for n in fn.walk(init) if n.get('oop') == '+' or (n['k'] == 'BinaryOperator' and n.get('op') == '+')]
            if len(nows) == 1 and plus:
                clocks.add(nows[0]['callee'])
                # the added term derives from the duration parameter
                ment = set()
                for n in fn.walk(init):
                    if n['k'] == 'DeclRefExpr' and n.get('dk') == 'Parm':
                        ment.add('%s#%d' % (n['name'], n['did']))
                if pkey(fn, 0) in ment and not (len(fn.params) > 1 and pkey(fn, 1) in ment):
                    ok = True
                else:
                    why = 'end point is not computed from the duration argument'
        rep.add('R18d', fn.name + sigk, 'end=now+duration', ok, fn.loc, 'end = now() + duration, computed once' if ok else why)
        # predicate: now > end
        rets = [n for n in l.walk() if n['k'] == 'ReturnStmt']
        ok = False
        why = 'predicate shape not recognised'
        if len(rets) == 1:
            e = l.strip(rets[0]['ch'][0])
            if e is not None and (e.get('oop') in ('>', '>=', '<', '<=') or (e['k'] == 'BinaryOperator' and e.get('op') in ('>', '>=', '<', '<='))):
                op = e.get('oop') or e.get('op')
                a, b = e['ch'][0], e['ch'][1]
                an = [c for c in l.walk(a) if c.get('callee') and NOW.search(c['callee'])]
                bn = [c for c in l.walk(b) if c.get('callee') and NOW.search(c['callee'])]
                ae = any(n['k'] == 'DeclRefExpr' and n.get('did') == endcap[0]['did'] for n in l.walk(a))
                be = any(n['k'] == 'DeclRefExpr' and n.get('did') == endcap[0]['did'] for n in l.walk(b))
                for c in an + bn:
                    clocks.add(c['callee'])
                if an and be and op in ('>', '>='):
                    ok = True
                elif bn and ae and op in ('<', '<='):
                    ok = True
                elif (an and be) or (bn and ae):
                    why = 'predicate is true *before* the end point (comparison direction reversed)'
                else:
                    why = 'predicate does not compare the current time with the captured end point'
        rep.add('R18d', fn.name + sigk, 'predicate-now-after-end', ok, l.loc, 'now() >/>= end' if ok else why)
        if len(fn.params) == 2:
            # interval clamp + passed as period
            class CI(fd.Interp):
                def __init__(self, f, env0):
                    super().__init__(f)
                    self.env0 = env0

                def ex(self, nid, env):
                    n = self.fn.nodes.get(nid)
                    if n is not None and n['k'] in ('DeclStmt', 'ReturnStmt'):
                        if n['k'] == 'ReturnStmt':
                            raise fd.Return(None)
                        return
                    return super().ex(nid, env)
            bad = None
            for iv, du in [(1, 2), (2, 2), (3, 2)]:
                env = {pkey(fn, 0): du, pkey(fn, 1): iv}
                CI(fn, env).run(env)
                if env[pkey(fn, 1)] > du or env[pkey(fn, 0)] != du or (iv <= du and env[pkey(fn, 1)] != iv):
                    bad = 'interval %s with duration %s becomes interval %s, duration %s' % (iv, du, env[pkey(fn, 1)], env[pkey(fn, 0)])
            rep.add('R18d', fn.name + sigk, 'interval-clamped', bad is None, fn.loc,
                    bad or 'interval <= duration enforced, in-range interval unchanged (3 orderings)')
            ctor = [c for c in fn.walk() if c['k'] in ('CXXConstructExpr', 'CXXTemporaryObjectExpr') and
                    c.get('ctor') == 'ompl::base::PlannerTerminationCondition' and len(c['ch']) == 2]
            ok = bool(ctor) and key(fn, ctor[0]['ch'][1]) == pkey(fn, 1)
            rep.add('R18d', fn.name + sigk, 'polled-with-interval', ok, fn.loc,
                    'periodic constructor used with the clamped interval' if ok else 'interval is not passed as polling period')
    if nlam < 2:
        raise AnalysisBroken('R18d: fewer than two timed predicates found')
    # clock witness
    asserts = []
    for c in sorted(clocks):
        if c == 'ompl::time::now':
            asserts.append((c, 'ompl::time::point::clock::is_steady'))
        else:
            m = re.match(r'std::chrono::(?:_V2::)?(\w+)::now$', c)
            if not m:
                raise AnalysisBroken('R18d: unknown time source ' + c)
            asserts.append((c, 'std::chrono::%s::is_steady' % m.group(1)))
    res = witness.check(['"ompl/util/Time.h"', '<chrono>'], asserts)
    rep.add('R18d', 'ompl::base::timedPlannerTerminationCondition', 'single-clock', len(clocks) == 1, fs[0].loc,
            'end point and predicate read the same clock %s' % sorted(clocks) if len(clocks) == 1 else
            'end point and predicate read different clocks %s' % sorted(clocks))
    for c, okw in sorted(res.items()):
        rep.add('R18d', 'ompl::base::timedPlannerTerminationCondition', 'steady-clock:' + c.split('::')[-2], okw, fs[0].loc,
                'static_assert(%s) holds' % dict(asserts)[c] if okw else
                'the timed predicate reads %s, whose is_steady is false: a wall-clock step makes an expired condition '
                'report false again' % c)
    # Planner::solve(double)
    sv = F.one('ompl::base::Planner::solve', sig_contains='(double)')
    calls = [c for c in sv.walk() if c.get('callee') == 'ompl::base::timedPlannerTerminationCondition']
    ok = len(calls) >= 1 and all(key(sv, args(sv, c)[0]) == pkey(sv, 0) for c in calls)
    rep.add('R18d', sv.name + '(double)', 'same-duration-both-branches', ok, sv.loc,
            '%d timed conditions, each built for the solveTime argument' % len(calls) if ok else
            'a branch of solve(double) builds its timed condition for something other than the requested duration')
    cl = SolveClient()
    paths.run_function(sv, cl, F)
    bad = [p for (n, p) in cl.exits if n != 1]
    rep.add('R18d', sv.name + '(double)', 'one-timed-condition-per-path', not bad, sv.loc,
            'every path builds exactly one timed condition and solves with it' if not bad else
            'a path through solve(double) builds no (or several) timed conditions', bad[0] if bad else None)


class SolveClient(paths.Client):
    def __init__(self):
        self.exits = []

    def init(self, fn):
        return 0

    def on_node(self, fn, node, auto, ctx):
        if node.get('callee') == 'ompl::base::timedPlannerTerminationCondition':
            return min(auto + 1, 3)
        return auto

    def at_exit(self, fn, ret, auto, ctx):
        self.exits.append((auto, ctx.path()))


def r18f(rep, F):
    rep.rule('R18f', 'cost convergence: terminate() is reached only when the window is full and the new average lies '
                     'strictly between the two thresholds, and the thresholds are computed from the previous average '
                     '(before it is overwritten)')
    fn = F.one('ompl::base::CostConvergenceTerminationCondition::processNewSolution')
    term = [c for c in fn.walk() if c.get('callee') == 'ompl::base::PlannerTerminationCondition::terminate']
    if len(term) != 1:
        raise AnalysisBroken('R18f: expected one terminate() call')
    ifs = [a for a in fn.ancestors(term[0]['id']) if a['k'] == 'IfStmt']
    if not ifs:
        rep.add('R18f', fn.name, 'guarded-terminate', False, fn.where(term[0]), 'terminate() is called unconditionally')
        return
    conj = []

    def split(nid):
        n = fn.strip(nid)
        if n is not None and n['k'] == 'BinaryOperator' and n.get('op') == '&&':
            split(n['ch'][0])
            split(n['ch'][1])
        else:
            conj.append(nid)
    for i in ifs:
        if any(x['id'] == term[0]['id'] for x in fn.walk(i['then'])):
            split(i['cond'])
    forms = [lin.cmp_real(fn, c) for c in conj]
    decl = {}
    order = []
    for n in fn.walk():
        if n['k'] == 'DeclStmt':
            for d in n.get('decls', []):
                decl[d['name']] = ('%s#%d' % (d['name'], d['did']), d.get('init'), n['id'])
    # identify thresholds by structure: (1 - eps) * avg  and (1 + eps) * avg
    lower = upper = None
    for name, (k, init, sid) in decl.items():
        if init is None:
            continue
        fp = fn.fp(init)
        if 'this.epsilon_' in fp and 'this.averageCost_' in fp:
            if '- this.epsilon_' in fp:
                lower = (k, sid)
            elif '+ this.epsilon_' in fp:
                upper = (k, sid)
    if not lower or not upper:
        raise AnalysisBroken('R18f: threshold definitions not recognised')
    want = {('lt', lin.canon({lower[0]: 1, 'this.averageCost_': -1})),
            ('lt', lin.canon({'this.averageCost_': 1, upper[0]: -1}))}
    have = set(f for f in forms if f)
    # window full: the compared count is min(solutions_, window) == window, or solutions_ >= window.  (solutions_ ==
    # window would only ever be true at the n-th solution.)
    mink = None
    for name, (k, init, sid) in decl.items():
        if init is None:
            continue
        mc = [c for c in fn.walk(init) if c.get('callee') == 'std::min']
        if mc and {fn.fp(a) for a in mc[0]['ch']} == {'this.solutions_', 'this.solutionsWindow_'}:
            mink = k
    win = [f for f in have if (mink and f == ('eq', lin.canon({mink: 1, 'this.solutionsWindow_': -1}))) or
           (mink and f == ('eq', lin.canon({mink: -1, 'this.solutionsWindow_': 1}))) or
           f == ('le', lin.canon({'this.solutionsWindow_': 1, 'this.solutions_': -1}))]
    ok = want <= have and bool(win)
    rep.add('R18f', fn.name, 'guarded-terminate', ok, fn.where(term[0]),
            'terminate() under window-full and lower < average < upper' if ok else
            'terminate() is not guarded by window-full and both strict threshold comparisons (found: %s)' %
            [(f[0], lin.show(f[1])) for f in have])
    # thresholds before the average is overwritten: order in the CFG = order of the statements in the body
    st = stores_to_field(fn, 'averageCost_')
    body = fn.nodes[fn.body]['ch']

    def top(nid):
        cur = nid
        while fn.parent.get(cur) != fn.body:
            cur = fn.parent[cur]
        return body.index(cur)
    ok = bool(st) and all(top(lower[1]) < top(s[0]['id']) and top(upper[1]) < top(s[0]['id']) for s in st)
    rep.add('R18f', fn.name, 'thresholds-from-previous-average', ok, fn.loc,
            'both thresholds are computed before averageCost_ is overwritten' if ok else
            'a threshold is computed after the average was updated (compares the new average with itself)')


def r18g(rep, F):
    rep.rule('R18g', 'cost convergence, normal form of the update: with w = min(solutions_ + 1, solutionsWindow_) the stored average '
                     'becomes ((w - 1) * averageCost_ + cost) / w and solutions_ becomes solutions_ + 1 -- a windowed moving average '
                     '("the average of the last n costs"); weighting by the total number of solutions makes late solutions move the '
                     'average too little and convergence is declared on a steadily improving sequence')
    from engine import sym
    from engine.sym import Poly
    fn = F.one('ompl::base::CostConvergenceTerminationCondition::processNewSolution')
    m = sym.Machine(F, sym.Ctx(inline=sym.resolver(F, deny=('terminate', 'log', 'value'))))
    st = {'env': {}, 'heap': [], 'alias': {}, 'this': ('T',), 'facts': []}
    cost = ('S', 'cost')
    st['env'][fn.params[0]['did']] = cost
    try:
        m.block(fn, [fn.body], st)
    except sym.Unsupported as e:
        raise AnalysisBroken('R18g: processNewSolution outside the normalisable fragment: %s' % e)
    T = ('T',)
    rd = lambda f_: Poly.atom(('rd', ('F', T, f_)))
    sol, win, avg = rd('solutions_'), rd('solutionsWindow_'), rd('averageCost_')
    c = Poly.atom(('call', 'ompl::base::Cost::value', cost))
    w = m.app('min', [sol + Poly.const(1), win])
    want_avg = ((w - Poly.const(1)) * avg + c) * sym.inv(w)
    got_sol = got_avg = None
    for k, v, q in st['heap']:
        if k == ('F', T, 'solutions_'):
            got_sol = v
        if k == ('F', T, 'averageCost_'):
            got_avg = v
    ok1 = isinstance(got_sol, Poly) and got_sol == sol + Poly.const(1)
    ok2 = isinstance(got_avg, Poly) and got_avg == want_avg
    rep.add('R18g', fn.name, 'count', ok1, fn.where(fn.nodes[fn.body]), 'solutions_ + 1' if ok1 else 'solutions_ becomes %s' % (sym.show(got_sol) if got_sol is not None else 'unchanged'))
    rep.add('R18g', fn.name, 'windowed-average', ok2, fn.where(fn.nodes[fn.body]),
            '((w-1)*avg + cost)/w with w = min(solutions_+1, window)' if ok2 else
            'the stored average is %s, not the windowed mean %s' % (sym.show(got_avg)[:200] if got_avg is not None else 'unchanged', sym.show(want_avg)[:160]))


def run(rep):
    F = facts.load_units(UNITS)
    rep.units.update(UNITS)
    rep.functions.update(f.key for f in F.functions if f.record and ('TerminationCondition' in f.record))
    r18a(rep, F)
    r18b(rep, F)
    r18c(rep, F)
    r18d(rep, F)
    r18e(rep, F)
    r18f(rep, F)
    r18g(rep, F)
    r18h(rep, F)
